#!/usr/bin/env python
"""Bounded stand-in for the greedy (EDF / FIFO / LSF) and Clockwork scheduling policies.

    python bounded/sched_small.py --pid C10|C12|C13|C15 --tier quick|thorough --seed N --out f.json

Exhaustive small-scope enumeration of scheduler inputs, REAL `schedule()` bodies, oracle = contracts
written from the property statements and evaluated on an independent ledger (plain dict arithmetic
over per-worker per-resource-name capacities, 'any' ids; deadlines / releases / runtimes as the
integers of the case specification, never read back from the repo's helpers).  Two families:

* greedy worlds (C10, C12, C13): ONE invocation of EDF/FIFO/LSF at now=10 on a small world =
  13 cluster states (6 clusters of 1-2 pools x 1-2 workers with <=2 GPU / <=1 CPU, empty or with
  one RUNNING task that was released/scheduled/placed/started/stepped through the real methods,
  plus 4 distractor tasks VIRTUAL / released-in-the-future / CANCELLED / SCHEDULED that must not be
  answered) x multisets of offered tasks (deadline in {9 past, 14, 16, 30}, release in {2, 6},
  6 ordered strategy lists over {GPU:1}, {GPU:2}, {CPU:1,GPU:1}, {CPU:1}, with ties in runtime and nested demands) x scheduler
  options (preemptive on/off for EDF and LSF, enforce_deadlines on/off for EDF and FIFO), tasks in
  1 or 2 task graphs.  quick: all multisets of <=2 tasks over the 48 task types + all multisets of
  3 tasks over 15 (C12: 20) (deadline, strategy-list) types + 1500 seeded 4-task multisets;
  thorough: <=3 over 48 types + 4 over 20 types.  (`retract_schedules` is not a parameter of these policies.)
* Clockwork histories (C10, C12, C15): the real ClockworkScheduler driven over 3 successive
  invocations (t=0,3,6); requests (model A|B, arrival invocation, deadline offset in {2,3,5,9})
  arrive, every returned placement set is judged, then applied the way simulator.py applies it
  (CANCEL_TASK -> TaskGraph.cancel; EVICT/LOAD profile on the pool; Task.schedule +
  WorkerPool.place_task(worker_id, BatchStrategy) + Task.start; workers stepped to the next
  invocation, finished tasks removed/finished/notified).  Models have batch-size strategies out of
  {1,2,4} (one variant needs 2 GPUs), 7 worker/loading configurations (loaded / partially loaded /
  unloaded workers, 1-2 pools, two of them with the model-loading thread `run_load` on), both goals.

A case = one real schedule() call on one world (greedy) or one 3-invocation history (clockwork).
The text between the CORE markers is self-contained (no dependency on /verif) and is embedded
verbatim in every replay script, so a replay re-judges the concrete input with the same contract.
"""
import os
import sys
import time

sys.path.insert(0, os.path.dirname(os.path.abspath(__file__)))

# ---- BEGIN CORE ----
import itertools
import logging
import random

logging.disable(logging.CRITICAL)

from schedulers import ClockworkScheduler, EDFScheduler, FIFOScheduler, LSFScheduler  # noqa: E402
from utils import EventTime  # noqa: E402
from workers import Worker, WorkerPool, WorkerPools  # noqa: E402
from workload import (  # noqa: E402
    ExecutionStrategies,
    ExecutionStrategy,
    Job,
    Placement,
    Resource,
    Resources,
    Task,
    TaskGraph,
    TaskState,
    Workload,
    WorkProfile,
)

US = EventTime.Unit.US
PT = Placement.PlacementType


def ET(t):
    return EventTime(t, US)


def us(et):
    return et._time if et._unit is US else et.to(US).time


CALLS = {}


def called(name, n=1):
    CALLS[name] = CALLS.get(name, 0) + n


# ------------------------------------------------------------------ generic helpers
def mk_res(vec, any_id):
    return Resources(
        resource_vector={
            (Resource(name=k, _id="any") if any_id else Resource(name=k)): v for k, v in sorted(vec.items())
        }
    )


def res_as_dict(resources):
    """content of a repo `Resources` request as {name: qty} (observer only)"""
    out = {}
    for r, q in resources._resource_vector.items():
        out[r.name] = out.get(r.name, 0) + q
    return out


def fits(free, demand):
    return all(free.get(k, 0) >= q for k, q in demand.items())


def alloc(free, demand):
    for k, q in demand.items():
        free[k] = free.get(k, 0) - q


def first_fit(pool_free, demand):
    for wi, w in enumerate(pool_free):
        if fits(w, demand):
            return wi
    return None


def clone_free(free):
    return [[dict(w) for w in pool] for pool in free]


def exists_assignment(free, items):
    """items: [(pool index, demand)].  Is there an assignment of every item to a worker of its pool
    such that no worker's capacity (per resource name) is exceeded?  Brute force."""
    if not items:
        return True
    (p, demand), rest = items[0], items[1:]
    for w in free[p]:
        if fits(w, demand):
            alloc(w, demand)
            ok = exists_assignment(free, rest)
            alloc(w, {k: -q for k, q in demand.items()})
            if ok:
                return True
    return False


def snapshot(pool_objs, task_objs):
    """observable state of the live cluster and of every task (for the frame clause of C10)"""
    cl = []
    for pool in pool_objs:
        ws = []
        for w in pool.workers:
            r = w.resources
            ws.append(
                (
                    w.id,
                    tuple(sorted((x.name, x.id, q) for x, q in r._resource_vector.items())),
                    tuple(
                        sorted(
                            (str(c.id), tuple(sorted((x.name, x.id, q) for x, q in al)))
                            for c, al in r._current_allocations.items()
                            if len(al) > 0
                        )
                    ),
                    tuple(sorted((t.id, id(s)) for t, s in w._placed_tasks.items())),
                    tuple(sorted((str(s._id), tuple(sorted(t.id for t in ts))) for s, ts in w._placed_batches.items())),
                    tuple(sorted((str(p.id), us(s.runtime)) for p, s in w._available_profiles.items())),
                    tuple(sorted((str(p.id), us(s.runtime)) for p, s in w._pending_profiles.items())),
                )
            )
        cl.append((pool.id, tuple(ws), tuple(sorted((t.id, wid) for t, wid in pool._placed_tasks.items()))))
    ts = []
    for t in task_objs:
        ts.append(
            (
                t.id,
                t._state.value,
                None if t._remaining_time is None else us(t._remaining_time),
                us(t._release_time),
                us(t._deadline),
                id(t._scheduler_placement),
                t._worker_pool_id,
                us(t._start_time),
                us(t._completion_time),
                None if t._cancellation_time is None else us(t._cancellation_time),
                t._probability,
                len(t._preemptions),
                None if t._scheduling_time is None else us(t._scheduling_time),
                t._pre_scheduling_state.value,
            )
        )
    return tuple(cl), tuple(ts)


def diff_snapshot(a, b):
    out = []
    if a[0] != b[0]:
        for pa, pb in zip(a[0], b[0]):
            if pa != pb:
                out.append("live pool changed: before=%r after=%r" % (pa, pb))
    if a[1] != b[1]:
        for ta, tb in zip(a[1], b[1]):
            if ta != tb:
                out.append("task changed: before=%r after=%r" % (ta, tb))
    return out


def V(vid, pids, what):
    return {"id": vid, "pids": list(pids), "what": what}


# ------------------------------------------------------------------ greedy family
NOW = 10
G_DEADLINES = [9, 14, 16, 30]
G_RELEASES = [2, 6]
# ordered strategy lists: (resource demand, runtime)
G_STRATSETS = {
    "A": [({"GPU": 1}, 4)],
    "B": [({"GPU": 2}, 6)],
    "C": [({"CPU": 1, "GPU": 1}, 5)],
    "D": [({"GPU": 2}, 6), ({"CPU": 1}, 8)],
    "E": [({"CPU": 1}, 8), ({"GPU": 1}, 4)],
    # same runtime as A and a demand that contains A's: a distinct strategy object that is "equal by value" to A's in
    # every comparison that looks at runtime / batch size / a sub-vector of the resources (seed C13-3)
    "F": [({"CPU": 1, "GPU": 1}, 4)],
}
# a strategy that demands nothing fits every worker, also a saturated one (seed C10-3: a virtual cluster that shares its
# saturated workers with the live one); used only in the targeted specs on cluster K7 below
G_STRATSETS_EXTRA = {"Z": [({"GPU": 0}, 3)]}
ALL_STRATSETS = dict(G_STRATSETS, **G_STRATSETS_EXTRA)
# cluster: pools -> workers -> capacity ; occupancy options: None or a RUNNING task
G_CLUSTERS = {
    "K1": ([[{"GPU": 2}]], [None, {"res": {"GPU": 1}, "deadline": 40}, {"res": {"GPU": 1}, "deadline": 26}]),
    "K2": ([[{"GPU": 1}], [{"GPU": 2}]], [None, {"res": {"GPU": 1}, "deadline": 40}]),
    "K3": ([[{"CPU": 1}, {"GPU": 2}]], [None, {"res": {"GPU": 1}, "deadline": 40}]),
    "K4": ([[{"CPU": 1, "GPU": 1}, {"GPU": 1}]], [None, {"res": {"GPU": 1}, "deadline": 40}]),
    "K5": ([[{"GPU": 2}], [{"CPU": 1, "GPU": 1}]], [None, {"res": {"CPU": 1, "GPU": 1}, "deadline": 40}]),
    "K6": ([[{"CPU": 1, "GPU": 2}]], [None, {"res": {"GPU": 1}, "deadline": 40}]),
    # first worker saturated by the running task, second one idle
    "K7": ([[{"GPU": 1}, {"GPU": 1}]], [None, {"res": {"GPU": 1}, "deadline": 40}]),
}
OCC_RUNTIME, OCC_START = 20, 4  # the running task: runtime 20, started at 4 -> 14 remaining at NOW

G_CFGS = {
    # name: (policy, preemptive, enforce_deadlines)
    "edf": ("edf", False, False),
    "edf_e": ("edf", False, True),
    "edf_p": ("edf", True, False),
    "edf_pe": ("edf", True, True),
    "fifo": ("fifo", False, False),
    "fifo_e": ("fifo", False, True),
    "lsf": ("lsf", False, False),
    "lsf_p": ("lsf", True, False),
}


def mk_strategies(slist, batch=None):
    return [
        ExecutionStrategy(resources=mk_res(res, True), batch_size=1 if batch is None else batch, runtime=ET(rt))
        for res, rt in slist
    ]


def mk_task(name, graph, slist, deadline):
    strategies = mk_strategies(slist)
    prof = WorkProfile(name=name + "_profile", execution_strategies=ExecutionStrategies(strategies=strategies))
    t = Task(name=name, task_graph=graph, job=Job(name=name + "_job", profile=prof), profile=prof, deadline=ET(deadline), timestamp=0)
    return t, strategies


def build_greedy_world(spec):
    """spec: {cluster: K?, occ: index, tasks: [(deadline, release, stratset)], graphs: 1|2,
    distract: bool, seed: int}.  Everything goes through the repo's public constructors and the real
    Task / WorkerPool state-changing methods."""
    random.seed(spec["seed"])
    caps, occs = G_CLUSTERS[spec["cluster"]]
    occ = occs[spec["occ"]]
    pools = []
    for pi, pool in enumerate(caps):
        ws = [Worker(name="w%d_%d" % (pi, wi), resources=mk_res(cap, False)) for wi, cap in enumerate(pool)]
        pools.append(WorkerPool(name="pool%d" % pi, workers=ws))
    free = [[dict(cap) for cap in pool] for pool in caps]  # the independent ledger (live occupancy)
    T = []  # my task table
    graphs = {}

    def graph_of(i):
        return "G" if spec["graphs"] == 1 else "G%d" % (i % 2 + 1)

    for i, (d, r, ss) in enumerate(spec["tasks"]):
        t, strategies = mk_task("T%d" % i, graph_of(i), ALL_STRATSETS[ss], d)
        t.release(ET(r))
        T.append({"name": "T%d" % i, "kind": "offered", "deadline": d, "release": r, "strats": ALL_STRATSETS[ss],
                  "remaining": max(rt for _, rt in ALL_STRATSETS[ss]), "obj": t, "sobjs": strategies})
        graphs.setdefault(t.task_graph, {})[t] = []
    if occ is not None:
        t, strategies = mk_task("R", graph_of(0), [(occ["res"], OCC_RUNTIME)], occ["deadline"])
        t.release(ET(0))
        # first pool (in order) with a worker that fits, first-fit worker: computed on my ledger
        pi = next(p for p in range(len(free)) if first_fit(free[p], occ["res"]) is not None)
        wi = first_fit(free[pi], occ["res"])
        alloc(free[pi][wi], occ["res"])
        pl = Placement.create_task_placement(task=t, placement_time=ET(OCC_START), worker_pool_id=pools[pi].id, execution_strategy=strategies[0])
        t.schedule(ET(OCC_START), pl)
        ok = pools[pi].place_task(t, execution_strategy=strategies[0])
        assert ok, "world construction: could not place the running task"
        t.start(ET(OCC_START))
        done = pools[pi].step(ET(OCC_START), ET(NOW - OCC_START))
        assert not done and t.state == TaskState.RUNNING and us(t.remaining_time) == OCC_RUNTIME - (NOW - OCC_START)
        real_w = pools[pi]._placed_tasks[t]
        assert real_w == pools[pi].workers[wi].id, "world construction: ledger and pool disagree on the worker"
        T.append({"name": "R", "kind": "running", "deadline": occ["deadline"], "release": 0, "strats": [(occ["res"], OCC_RUNTIME)],
                  "remaining": OCC_RUNTIME - (NOW - OCC_START), "obj": t, "sobjs": strategies, "pool": pi, "worker": wi})
        graphs.setdefault(t.task_graph, {})[t] = []
    if spec["distract"]:
        g = graph_of(1)
        tv, s = mk_task("Dvirtual", g, G_STRATSETS["A"], 30)
        tf, s2 = mk_task("Dfuture", g, G_STRATSETS["A"], 30)
        tf.release(ET(NOW + 2))
        tx, s3 = mk_task("Dcancelled", g, G_STRATSETS["A"], 30)
        tx.release(ET(2))
        tx.cancel(ET(3))
        tsch, s4 = mk_task("Dscheduled", g, G_STRATSETS["A"], 40)
        tsch.release(ET(2))
        tsch.schedule(ET(5), Placement.create_task_placement(task=tsch, placement_time=ET(NOW + 2), worker_pool_id=pools[0].id, execution_strategy=s4[0]))
        for nm, t, ss in (("Dvirtual", tv, s), ("Dfuture", tf, s2), ("Dcancelled", tx, s3), ("Dscheduled", tsch, s4)):
            T.append({"name": nm, "kind": "distractor", "deadline": 30, "release": None, "strats": G_STRATSETS["A"], "remaining": 4, "obj": t, "sobjs": ss})
            graphs.setdefault(t.task_graph, {})[t] = []
    if not graphs:
        graphs["G"] = {}
    tgs = {name: TaskGraph(name=name, tasks=nodes) for name, nodes in graphs.items()}
    workload = Workload.from_task_graphs(tgs)
    return {"pools": pools, "wps": WorkerPools(pools), "workload": workload, "T": T, "free": free, "caps": caps, "spec": spec}


def g_key(policy, t):
    if policy == "edf":
        return t["deadline"]
    if policy == "fifo":
        return t["release"]
    return t["deadline"] - NOW - t["remaining"]  # lsf: slack


def simulate_greedy(order, T, free0, variant):
    """what a greedy loop over `order` records, on my ledger.  variant 'recorded': the virtual
    cluster receives the recorded strategy (first-fit worker);  variant 'ignores_strategy': the
    virtual cluster receives 'first worker x first strategy of the task that fits' (hypothesis H
    used ONLY to label a violation already established by the contract)."""
    free = clone_free(free0)
    out = {}
    for ti in order:
        placed = None
        for j, (res, _) in enumerate(T[ti]["strats"]):
            for p in range(len(free)):
                if first_fit(free[p], res) is None:
                    continue
                if variant == "recorded":
                    alloc(free[p][first_fit(free[p], res)], res)
                else:
                    done = False
                    for w in free[p]:
                        for res2, _ in T[ti]["strats"]:
                            if fits(w, res2):
                                alloc(w, res2)
                                done = True
                                break
                        if done:
                            break
                placed = (p, j)
                break
            if placed:
                break
        out[ti] = placed
    return out


def fmt_dec(T, d):
    nm = T[d["ti"]]["name"] if d["ti"] is not None else "<unknown task>"
    if d["type"] == "cancel":
        return "%s:CANCEL" % nm
    if not d["placed"]:
        return "%s:unplaced" % nm
    t = T[d["ti"]] if d["ti"] is not None else None
    st = t["strats"][d["strat"]] if (t is not None and d["strat"] is not None) else d.get("strat_res")
    return "%s:pool%s%s strategy=%s at %s" % (nm, d["pool"], "" if d["worker"] is None else "/worker %s" % d["worker"], st, d["time"])


def fmt_world(W):
    spec = W["spec"]
    parts = ["now=%d cluster=%s %s" % (NOW, spec["cluster"], W["caps"])]
    for t in W["T"]:
        parts.append("%s[%s deadline=%s release=%s remaining=%s strategies=%s]" % (t["name"], t["kind"], t["deadline"], t["release"], t["remaining"], t["strats"]))
    return " ".join(parts)


def check_greedy(W, cfg):
    """run one real schedule() on world W and judge the result.  Returns (violations, info)."""
    policy, preemptive, enforce = G_CFGS[cfg]
    T, pools, spec = W["T"], W["pools"], W["spec"]
    if policy == "edf":
        sched = EDFScheduler(preemptive=preemptive, runtime=EventTime.zero(), enforce_deadlines=enforce)
        called("EDFScheduler.schedule")
    elif policy == "fifo":
        sched = FIFOScheduler(preemptive=False, runtime=EventTime.zero(), enforce_deadlines=enforce)
        called("FIFOScheduler.schedule")
    else:
        sched = LSFScheduler(preemptive=preemptive, runtime=EventTime.zero())
        called("LSFScheduler.schedule")
    ctx = "[%s preemptive=%s enforce_deadlines=%s] %s" % (policy, preemptive, enforce, fmt_world(W))
    viol = []
    info = {"placed": 0, "unplaced": 0, "cancel": 0, "offered": 0, "c12_interesting": False}
    task_objs = [t["obj"] for t in T]
    before = snapshot(pools, task_objs)
    try:
        placements = sched.schedule(ET(NOW), W["workload"], W["wps"])
        plist = list(placements)
    except Exception as e:  # noqa: BLE001
        viol.append(V("%s.raised" % policy, ["C10"], "%s: schedule() raised %s: %s; contract: the policy returns normally" % (ctx, type(e).__name__, e)))
        return viol, info
    after = snapshot(pools, task_objs)
    # ---- frame clause (C10)
    if before != after:
        d = diff_snapshot(before, after)
        vid = "%s.mutates_live_cluster" % policy if before[0] != after[0] else "%s.mutates_task_state" % policy
        viol.append(V(vid, ["C10"], "%s: deciding changed the live state: %s; contract: schedule() changes neither the live cluster occupancy nor any task's state" % (ctx, "; ".join(d)[:900])))
    # ---- parse the decisions
    by_obj = {id(t["obj"]): i for i, t in enumerate(T)}
    pool_idx = {p.id: i for i, p in enumerate(pools)}
    decs = []
    for p in plist:
        if p.placement_type not in (PT.PLACE_TASK, PT.CANCEL_TASK):
            viol.append(V("%s.unexpected_placement_type" % policy, ["C10"], "%s: returned a %s placement" % (ctx, p.placement_type)))
            continue
        ti = by_obj.get(id(p.task))
        d = {"ti": ti, "type": "cancel" if p.placement_type == PT.CANCEL_TASK else "place", "placed": False, "pool": None, "worker": None, "strat": None, "time": None, "raw": p}
        if d["type"] == "place" and p.is_placed():
            d["placed"] = True
            d["pool"] = pool_idx.get(p.worker_pool_id, "?%s" % p.worker_pool_id)
            d["worker"] = p.worker_id
            d["time"] = None if p.placement_time is None else us(p.placement_time)
            s = p.execution_strategy
            if s is not None and ti is not None:
                for j, so in enumerate(T[ti]["sobjs"]):
                    if so is s:
                        d["strat"] = j
                        break
                else:
                    sd = (res_as_dict(s.resources), us(s.runtime))
                    d["strat_res"] = sd
                    for j, (res, rt) in enumerate(T[ti]["strats"]):
                        if sd == (res, rt) and s.batch_size == 1:
                            d["strat"] = j
                            break
            d["has_strategy"] = s is not None
        decs.append(d)
    seen = " ".join(fmt_dec(T, d) for d in decs)
    ctx2 = "%s || decisions returned: [%s]" % (ctx, seen)
    offered = [i for i, t in enumerate(T) if t["kind"] == "offered" or (t["kind"] == "running" and preemptive)]
    info["offered"] = len(offered)
    # ---- one decision per task, only offered tasks, every offered task answered (C10)
    per_task = {}
    for d in decs:
        per_task.setdefault(d["ti"], []).append(d)
    dup = False
    for ti, ds in per_task.items():
        if ti is None:
            viol.append(V("%s.decision_for_unoffered_task" % policy, ["C10"], "%s: a decision names a task that is not in the workload" % ctx2))
            continue
        if len(ds) > 1:
            dup = True
            viol.append(V("%s.duplicate_decision" % policy, ["C10"], "%s: task %s received %d decisions; contract: at most one decision (placed, not placed, or cancel) per task (diagnosis: with preemption every TaskGraph.get_schedulable_tasks appends worker_pools.get_placed_tasks(), so a placed task is offered once per task graph of the workload)" % (ctx2, T[ti]["name"], len(ds))))
        if ti not in offered:
            viol.append(V("%s.decision_for_unoffered_task" % policy, ["C10"], "%s: task %s (%s, state %s) was not offered but received a decision" % (ctx2, T[ti]["name"], T[ti]["kind"], T[ti]["obj"].state)))
    for ti in offered:
        if ti not in per_task:
            viol.append(V("%s.offered_task_unanswered" % policy, ["C10"], "%s: offered task %s received no decision; contract: the greedy planners answer every offered task that is not already scheduled" % (ctx2, T[ti]["name"])))
    first = {}
    for d in decs:
        if d["ti"] is not None and d["ti"] not in first:
            first[d["ti"]] = d
    fdecs = [d for d in decs if d["ti"] is not None and first[d["ti"]] is d]
    # ---- each placement well formed (C10)
    wellformed = True
    for d in fdecs:
        if not d["placed"]:
            continue
        t = T[d["ti"]]
        if not isinstance(d["pool"], int):
            wellformed = False
            viol.append(V("%s.unknown_pool" % policy, ["C10"], "%s: %s names pool id %s which does not exist" % (ctx2, t["name"], d["pool"])))
        elif d["worker"] is not None and d["worker"] not in [w.id for w in pools[d["pool"]].workers]:
            wellformed = False
            viol.append(V("%s.unknown_worker" % policy, ["C10"], "%s: %s names worker id %s which is not in the pool" % (ctx2, t["name"], d["worker"])))
        if not d.get("has_strategy"):
            wellformed = False
            viol.append(V("%s.placed_without_strategy" % policy, ["C10"], "%s: %s is placed without a strategy" % (ctx2, t["name"])))
        elif d["strat"] is None:
            wellformed = False
            viol.append(V("%s.foreign_strategy" % policy, ["C10"], "%s: %s is placed with strategy %s which is none of the task's strategies %s" % (ctx2, t["name"], d.get("strat_res"), t["strats"])))
        if d["time"] is None or d["time"] < NOW:
            viol.append(V("%s.time_before_now" % policy, ["C10"], "%s: %s is placed at %s < now=%d" % (ctx2, t["name"], d["time"], NOW)))
        elif t["release"] is not None and d["time"] < t["release"]:
            viol.append(V("%s.time_before_release" % policy, ["C10"], "%s: %s is placed at %s < release=%s" % (ctx2, t["name"], d["time"], t["release"])))
    for d in fdecs:
        info["cancel" if d["type"] == "cancel" else ("placed" if d["placed"] else "unplaced")] += 1
    # ---- admission clause (C12): decided on my own integers
    for ti in offered:
        t = T[ti]
        ds = per_task.get(ti, [])
        fastest = min(rt for _, rt in t["strats"])
        cancelled = any(d["type"] == "cancel" for d in ds)
        placed = any(d["placed"] for d in ds)
        if t["kind"] == "running":
            # a started task: it can finish by its deadline iff now + remaining <= deadline
            if cancelled and NOW + t["remaining"] <= t["deadline"]:
                viol.append(V("%s.running_task_cancelled" % policy, ["C10", "C12"], "%s: RUNNING task %s (remaining %d, finishes at %d <= deadline %d) is answered with a cancellation; contract: only a task that cannot finish by its deadline is cancelled, and decisions are for tasks that have not started.  Consequence: Simulator.__handle_scheduler_finish turns CANCEL_TASK into TaskGraph.cancel -> Task.cancel, which raises ValueError for a RUNNING task" % (ctx2, t["name"], t["remaining"], NOW + t["remaining"], t["deadline"])))
            continue
        if not enforce:
            continue
        hopeless = NOW + fastest > t["deadline"]
        if NOW + fastest >= t["deadline"]:
            info["c12_interesting"] = True
        if hopeless:
            if placed:
                viol.append(V("%s.hopeless_task_placed" % policy, ["C12"], "%s: %s cannot finish by its deadline (now %d + fastest %d > deadline %d) but is placed; contract: never placed, answered with a cancellation" % (ctx2, t["name"], NOW, fastest, t["deadline"])))
            elif not cancelled:
                viol.append(V("%s.hopeless_task_not_cancelled" % policy, ["C12"], "%s: %s cannot finish by its deadline (now %d + fastest %d > deadline %d) but is not answered with a cancellation" % (ctx2, t["name"], NOW, fastest, t["deadline"])))
        elif cancelled:
            if NOW + fastest == t["deadline"]:
                viol.append(V("%s.tight_deadline_cancelled" % policy, ["C12"], "%s: %s can finish exactly at its deadline (now %d + fastest %d == deadline %d) but is cancelled; contract: only tasks that cannot finish by their deadline are cancelled" % (ctx2, t["name"], NOW, fastest, t["deadline"])))
            else:
                viol.append(V("%s.feasible_task_cancelled" % policy, ["C12"], "%s: %s can finish by its deadline (now %d + fastest %d < deadline %d) but is cancelled" % (ctx2, t["name"], NOW, fastest, t["deadline"])))
    # ---- capacity and priority clauses (C10, C13) on the independent ledger
    if wellformed:
        free0 = clone_free(W["free"]) if not preemptive else [[dict(c) for c in pool] for pool in W["caps"]]
        placed_decs = [d for d in fdecs if d["placed"]]
        # label context: does hypothesis H (LSF virtual placement ignores the strategy) explain the output?
        label = None
        if dup:
            label = "%s.duplicate_decision" % policy
        elif policy == "lsf":
            order = [d["ti"] for d in fdecs if d["type"] == "place"]
            actual = {d["ti"]: ((d["pool"], d["strat"]) if d["placed"] else None) for d in fdecs if d["type"] == "place"}
            if simulate_greedy(order, T, free0, "ignores_strategy") == actual and simulate_greedy(order, T, free0, "recorded") != actual:
                label = "lsf.virtual_placement_ignores_strategy"

        def vid_of(clause):
            return "%s.%s" % (label, clause) if label else "%s.%s" % (policy, clause)

        items = [(d["pool"], T[d["ti"]]["strats"][d["strat"]][0]) for d in placed_decs]
        joint_ok = exists_assignment(clone_free(free0), items)
        if not joint_ok:
            viol.append(V(vid_of("joint_capacity_exceeded"), ["C10", "C13"], "%s: the recorded (pool, strategy) decisions %s do not fit together on the cluster %s (free before deciding: %s) under ANY assignment to the workers of the named pools; contract: all placements together with the running tasks never exceed any worker's capacity" % (ctx2, items, W["caps"], free0)))
        # C13: every unplaced task fits nowhere given exactly the placed tasks of higher-or-equal priority
        for d in fdecs:
            if d["type"] != "place" or d["placed"]:
                continue
            u = T[d["ti"]]
            ku = g_key(policy, u)

            def replay(sel):
                fr = clone_free(free0)
                for pd in sel:
                    res = T[pd["ti"]]["strats"][pd["strat"]][0]
                    wi = first_fit(fr[pd["pool"]], res)
                    if wi is None:
                        return None
                    alloc(fr[pd["pool"]][wi], res)
                return fr

            def fits_somewhere(fr):
                for res, _ in u["strats"]:
                    for p in range(len(fr)):
                        wi = first_fit(fr[p], res)
                        if wi is not None:
                            return (res, p, wi)
                return None

            higher = [pd for pd in placed_decs if g_key(policy, T[pd["ti"]]) <= ku]
            fr_h = replay(higher)
            if fr_h is None:
                continue  # jointly infeasible prefix: reported above (existence) or below
            hit = fits_somewhere(fr_h)
            if hit is None:
                continue
            fr_all = replay(placed_decs)
            hit_all = None if fr_all is None else fits_somewhere(fr_all)
            lower = [T[pd["ti"]]["name"] for pd in placed_decs if pd not in higher]
            if hit_all is not None or fr_all is None:
                viol.append(V(vid_of("unplaced_but_fits"), ["C13"], "%s: %s (priority key %s) is left unplaced although strategy %s fits worker %d of pool %d once the placed tasks of higher-or-equal priority %s are accounted for (free then: %s)%s; contract: a task is left unplaced only if none of its strategies fits any worker" % (ctx2, u["name"], ku, hit[0], hit[2], hit[1], [T[pd["ti"]]["name"] for pd in higher], fr_h, "" if fr_all is None else " and even with ALL placed tasks accounted for")))
            else:
                viol.append(V(vid_of("priority_inversion"), ["C13"], "%s: %s (priority key %s) is left unplaced although strategy %s fits worker %d of pool %d once the placed tasks of higher-or-equal priority %s are accounted for; the resources went to lower-priority task(s) %s; contract: a lower-priority task never occupies resources that would have let a higher-priority unplaced task run" % (ctx2, u["name"], ku, hit[0], hit[2], hit[1], [T[pd["ti"]]["name"] for pd in higher], lower)))
        # first-fit replay of ALL recorded decisions in the returned order (what the pools will do)
        if joint_ok:
            fr = clone_free(free0)
            for pd in placed_decs:
                res = T[pd["ti"]]["strats"][pd["strat"]][0]
                wi = first_fit(fr[pd["pool"]], res)
                if wi is None:
                    viol.append(V(vid_of("decisions_not_first_fit_feasible"), ["C13"], "%s: replaying the recorded decisions in the returned order with first-fit workers, %s with %s does not fit pool %d (free %s)" % (ctx2, T[pd["ti"]]["name"], res, pd["pool"], fr[pd["pool"]])))
                    break
                alloc(fr[pd["pool"]][wi], res)
    return viol, info


def run_greedy_spec(spec, cfgs):
    """returns [(cfg, violations, info)]"""
    out = []
    W = build_greedy_world(spec)
    for cfg in cfgs:
        viol, info = check_greedy(W, cfg)
        out.append((cfg, viol, info))
        if any(v["id"].endswith("mutates_live_cluster") or v["id"].endswith("mutates_task_state") for v in viol):
            W = build_greedy_world(spec)  # do not let a frame violation leak into the next config
    return out


# ------------------------------------------------------------------ Clockwork family
# model configuration: list of (batch size, runtime, GPUs)
CW_MODELS = {
    "M1": [(1, 2, 1)],
    "M2": [(1, 2, 1), (2, 3, 1)],
    "M3": [(1, 2, 1), (2, 3, 1), (4, 5, 1)],
    "M4": [(2, 3, 1), (4, 5, 1)],
    "M5": [(1, 2, 1), (2, 3, 2)],
}
CW_TIMES = [0, 3, 6]
CW_TIMES_SAME = [0, 3, 3]
CW_DL = [2, 3, 5, 9]  # deadline = arrival time + offset
CW_LOAD_RUNTIME = 1
# worker configuration: (pools -> workers (GPUs, RAM, loaded models), run_load)
CW_WORKERS = {
    "W1": ([[(1, 2, "AB")]], False),
    "W2": ([[(2, 2, "AB")]], False),
    "W3": ([[(1, 2, "A"), (1, 2, "B")]], False),
    "W4": ([[(1, 2, "AB"), (2, 2, "")]], False),
    "W5": ([[(1, 2, "B")], [(1, 2, "A")]], False),
    "W6": ([[(1, 2, "A"), (1, 2, "")]], True),
    "W7": ([[(1, 1, "A")]], True),
}


def build_cw_world(spec):
    """spec: {models: (cfgA, cfgB), workers: W?, reqs: [(model 'A'|'B', arrival index, deadline offset)],
    goal: 'clockwork'|'least_slack', seed}"""
    random.seed(spec["seed"])
    profiles = {}
    prof_strats = {}
    for m, cfg in zip("AB", spec["models"]):
        ss = [ExecutionStrategy(resources=mk_res({"GPU": g}, True), batch_size=b, runtime=ET(rt)) for b, rt, g in CW_MODELS[cfg]]
        profiles[m] = WorkProfile(
            name="Model_%s" % m,
            execution_strategies=ExecutionStrategies(strategies=ss),
            loading_strategies=ExecutionStrategies(strategies=[ExecutionStrategy(resources=mk_res({"RAM": 1}, True), batch_size=1, runtime=ET(CW_LOAD_RUNTIME))]),
        )
        prof_strats[m] = CW_MODELS[cfg]
    wcfg, run_load = CW_WORKERS[spec["workers"]]
    pools = []
    led = {}
    for pi, pool in enumerate(wcfg):
        ws = []
        for wi, (gpu, ram, loaded) in enumerate(pool):
            w = Worker(name="w%d_%d" % (pi, wi), resources=mk_res({"GPU": gpu, "RAM": ram}, False))
            led[(pi, wi)] = {"gpu": gpu, "ram": ram, "loaded": {}, "batches": []}
            for m in loaded:
                w.load_profile(profile=profiles[m], loading_strategy=ExecutionStrategy(resources=mk_res({"RAM": 1}, True), batch_size=1, runtime=EventTime.zero()))
                led[(pi, wi)]["loaded"][m] = 0
                led[(pi, wi)]["ram"] -= 1
            w.step(current_time=EventTime.zero())
            ws.append(w)
        pools.append(WorkerPool(name="pool%d" % pi, workers=ws))
    R = []
    nodes = {}
    times = spec.get("times") or CW_TIMES
    for i, (m, k, off) in enumerate(spec["reqs"]):
        d = times[k] + off
        t = Task(name="Q%d" % i, task_graph="G", job=Job(name="Q%d_job" % i, profile=profiles[m]), profile=profiles[m], deadline=ET(d), timestamp=i)
        R.append({"name": "Q%d" % i, "model": m, "arrival": k, "release": times[k], "deadline": d, "obj": t, "status": "virtual", "placed_at": None})
        nodes[t] = []
    tg = TaskGraph(name="G", tasks=nodes)
    workload = Workload.from_task_graphs({"G": tg})
    sched = ClockworkScheduler(runtime=EventTime.zero(), goal=spec["goal"])
    sched._run_load = run_load  # what `--scheduler_run_load` sets through the flags object
    return {"spec": spec, "profiles": profiles, "prof_strats": prof_strats, "pools": pools, "wps": WorkerPools(pools), "R": R, "tg": tg,
            "workload": workload, "sched": sched, "led": led, "run_load": run_load}


def cw_advance(W, t0, t1):
    """what Simulator.simulate()/__step/__handle_task_finished do between two scheduler events"""
    t = t0
    while t < t1:
        placed = W["wps"].get_placed_tasks()
        step = t1 - t
        if placed:
            m = min(us(x.remaining_time) for x in placed)
            if 0 < m < step:
                step = m
        finished = []
        for pool in W["pools"]:
            for task in pool.step(ET(t), ET(step)):
                finished.append((pool, task))
        t += step
        for pool, task in finished:
            pool.remove_task(current_time=ET(t), task=task)
            task.finish()
            W["workload"].notify_task_completion(task, ET(t))
    for l in W["led"].values():
        l["gpu"] += sum(g for end, g in l["batches"] if end <= t1)
        l["batches"] = [(end, g) for end, g in l["batches"] if end > t1]


def fmt_cw(W):
    spec = W["spec"]
    return "[clockwork goal=%s models A=%s B=%s workers %s=%s run_load=%s times=%s] requests: %s" % (
        spec["goal"], CW_MODELS[spec["models"][0]], CW_MODELS[spec["models"][1]], spec["workers"], CW_WORKERS[spec["workers"]][0], W["run_load"], spec.get("times") or CW_TIMES,
        " ".join("%s[model %s arrives %d deadline %d]" % (r["name"], r["model"], r["release"], r["deadline"]) for r in W["R"]))


def run_cw_spec(spec):
    """drive one history; returns (violations, info)"""
    W = build_cw_world(spec)
    R, pools, sched, led = W["R"], W["pools"], W["sched"], W["led"]
    by_obj = {id(r["obj"]): i for i, r in enumerate(R)}
    pool_idx = {p.id: i for i, p in enumerate(pools)}
    worker_idx = {}
    for pi, p in enumerate(pools):
        for wi, w in enumerate(p.workers):
            worker_idx[w.id] = (pi, wi)
    prof_model = {id(p): m for m, p in W["profiles"].items()}
    viol = []
    info = {"placed": 0, "cancel": 0, "big_batch": 0, "carried": 0, "c12_interesting": False, "invocations": 0}
    task_objs = [r["obj"] for r in R]
    ctx0 = fmt_cw(W)
    log = []
    prev = 0
    for k, now in enumerate(spec.get("times") or CW_TIMES):
        cw_advance(W, prev, now)
        prev = now
        for r in R:
            if r["arrival"] == k:
                r["obj"].release(ET(now))
                r["status"] = "pending"
        offered = [i for i, r in enumerate(R) if r["status"] == "pending"]
        before = snapshot(pools, task_objs)
        called("ClockworkScheduler.schedule")
        info["invocations"] += 1
        try:
            placements = list(sched.schedule(ET(now), W["workload"], W["wps"]))
        except Exception as e:  # noqa: BLE001
            viol.append(V("clockwork.raised", ["C10", "C15"], "%s || history so far: %s || invocation %d at %d: schedule() raised %s: %s" % (ctx0, log, k, now, type(e).__name__, e)))
            return viol, info
        after = snapshot(pools, task_objs)
        # ---- describe
        desc = []
        for p in placements:
            if p.placement_type == PT.CANCEL_TASK:
                desc.append("CANCEL %s" % p.task.name)
            elif p.placement_type == PT.PLACE_TASK:
                if p.is_placed():
                    s = p.execution_strategy
                    desc.append("PLACE %s on worker %s batch#%s(size %s runtime %s %s)" % (p.task.name, worker_idx.get(p.worker_id, p.worker_id), "?" if s is None else str(getattr(s, "_id", ""))[:4], None if s is None else s.batch_size, None if s is None else us(s.runtime), None if s is None else res_as_dict(s.resources)))
                else:
                    desc.append("UNPLACED %s" % p.task.name)
            else:
                desc.append("%s %s on worker %s" % (p.placement_type, p.work_profile.name, worker_idx.get(p.worker_id, p.worker_id)))
        log.append("t=%d offered=%s -> %s" % (now, [R[i]["name"] for i in offered], desc))
        ctx = "%s || history: %s || at invocation %d (now=%d)" % (ctx0, log, k, now)
        nv0 = len(viol)
        if before != after:
            d = diff_snapshot(before, after)
            vid = "clockwork.mutates_live_cluster" if before[0] != after[0] else "clockwork.mutates_task_state"
            viol.append(V(vid, ["C10"], "%s: deciding changed the live state: %s" % (ctx, "; ".join(d)[:900])))
        # ---- parse
        cancels, places, batches, profile_ops = [], [], {}, []
        per_task = {}
        for p in placements:
            if p.placement_type in (PT.LOAD_WORK_PROFILE, PT.EVICT_WORK_PROFILE):
                profile_ops.append(p)
                continue
            ri = by_obj.get(id(p.task))
            if ri is None:
                viol.append(V("clockwork.decision_for_unoffered_task", ["C10", "C15"], "%s: a decision names task %s which is not a request of the workload" % (ctx, p.task.name)))
                continue
            per_task.setdefault(ri, []).append(p)
            if p.placement_type == PT.CANCEL_TASK:
                cancels.append(ri)
            elif p.is_placed():
                places.append((ri, p))
                batches.setdefault(id(p.execution_strategy), []).append((ri, p))
        for ri, ps in per_task.items():
            r = R[ri]
            n_place = sum(1 for p in ps if p.placement_type == PT.PLACE_TASK and p.is_placed())
            n_cancel = sum(1 for p in ps if p.placement_type == PT.CANCEL_TASK)
            if r["status"] == "placed":
                viol.append(V("clockwork.placed_twice" if n_place else "clockwork.decision_for_started_task", ["C15", "C10"], "%s: request %s was already placed at t=%s and receives another decision; contract: a request is placed at most once over the whole run" % (ctx, r["name"], r["placed_at"])))
            elif ri not in offered:
                viol.append(V("clockwork.decision_for_unoffered_task", ["C10", "C15"], "%s: request %s (status %s) was not offered but received a decision" % (ctx, r["name"], r["status"])))
            if n_place > 1:
                viol.append(V("clockwork.placed_twice", ["C15", "C10"], "%s: request %s is placed %d times in one invocation" % (ctx, r["name"], n_place)))
            elif n_place and n_cancel:
                viol.append(V("clockwork.cancelled_and_placed", ["C15", "C12", "C10"], "%s: request %s is both cancelled and placed" % (ctx, r["name"])))
            elif len(ps) > 1:
                viol.append(V("clockwork.duplicate_decision", ["C10"], "%s: request %s received %d decisions" % (ctx, r["name"], len(ps))))
        # ---- admission (C12 / C15): hopeless <=> now + fastest runtime of the model > deadline
        for ri in offered:
            r = R[ri]
            fastest = min(rt for _, rt, _ in W["prof_strats"][r["model"]])
            hopeless = now + fastest > r["deadline"]
            if now + fastest >= r["deadline"]:
                info["c12_interesting"] = True
            is_c = ri in cancels
            is_p = any(ri == x for x, _ in places)
            if hopeless:
                if is_p:
                    viol.append(V("clockwork.hopeless_task_placed", ["C12", "C15"], "%s: request %s cannot meet its deadline (now %d + fastest %d > deadline %d) but is placed; contract: cancelled rather than placed" % (ctx, r["name"], now, fastest, r["deadline"])))
                elif not is_c:
                    viol.append(V("clockwork.hopeless_task_not_cancelled", ["C12", "C15"], "%s: request %s cannot meet its deadline (now %d + fastest %d > deadline %d) but is not cancelled" % (ctx, r["name"], now, fastest, r["deadline"])))
            elif is_c:
                if now + fastest == r["deadline"]:
                    viol.append(V("clockwork.tight_deadline_cancelled", ["C12"], "%s: request %s can finish exactly at its deadline (now %d + fastest %d == deadline %d) but is cancelled" % (ctx, r["name"], now, fastest, r["deadline"])))
                else:
                    viol.append(V("clockwork.feasible_task_cancelled", ["C12"], "%s: request %s can meet its deadline (now %d + fastest %d < deadline %d) but is cancelled" % (ctx, r["name"], now, fastest, r["deadline"])))
        # ---- ledger: profile operations first (EVICT < LOAD < TASK_PLACEMENT in the event order)
        for p in profile_ops:
            key = worker_idx.get(p.worker_id)
            m = prof_model.get(id(p.work_profile))
            if key is None or m is None or pool_idx.get(p.worker_pool_id) != key[0]:
                viol.append(V("clockwork.unknown_worker", ["C10"], "%s: profile placement names unknown worker/pool/profile" % ctx))
                continue
            if p.placement_type == PT.EVICT_WORK_PROFILE:
                if m in led[key]["loaded"]:
                    del led[key]["loaded"][m]
                    led[key]["ram"] += 1
            else:
                led[key]["loaded"][m] = now + us(p.loading_strategy.runtime)
                led[key]["ram"] -= 1
        # ---- every batch (C15, C10)
        for sid, members in batches.items():
            s = members[0][1].execution_strategy
            names = [R[ri]["name"] for ri, _ in members]
            if s is None:
                viol.append(V("clockwork.placed_without_strategy", ["C10", "C15"], "%s: %s placed without a strategy" % (ctx, names)))
                continue
            models = sorted({R[ri]["model"] for ri, _ in members})
            if len(models) != 1:
                viol.append(V("clockwork.batch_mixed_models", ["C15"], "%s: batch %s mixes models %s; contract: all members of a batch belong to one model" % (ctx, names, models)))
                continue
            m = models[0]
            sd = (s.batch_size, us(s.runtime), res_as_dict(s.resources).get("GPU", 0))
            if sd not in W["prof_strats"][m] or set(res_as_dict(s.resources)) - {"GPU"}:
                viol.append(V("clockwork.foreign_strategy", ["C10", "C15"], "%s: batch %s uses strategy %s which is none of model %s's strategies %s" % (ctx, names, sd, m, W["prof_strats"][m])))
                continue
            if len(members) != s.batch_size:
                viol.append(V("clockwork.batch_size_mismatch", ["C15"], "%s: batch %s has %d members but the chosen strategy has batch size %d; contract: size equals the batch size of the chosen strategy" % (ctx, names, len(members), s.batch_size)))
            wkeys = {(p.worker_pool_id, p.worker_id) for _, p in members}
            if len(wkeys) != 1:
                viol.append(V("clockwork.batch_split_across_workers", ["C15"], "%s: batch %s is spread over workers %s" % (ctx, names, wkeys)))
                continue
            pid_, wid_ = next(iter(wkeys))
            key = worker_idx.get(wid_)
            if pid_ not in pool_idx:
                viol.append(V("clockwork.unknown_pool", ["C10", "C15"], "%s: batch %s names pool %s which does not exist" % (ctx, names, pid_)))
                continue
            if key is None or key[0] != pool_idx[pid_]:
                viol.append(V("clockwork.unknown_worker", ["C10", "C15"], "%s: batch %s names worker %s which is not in pool %s" % (ctx, names, wid_, pid_)))
                continue
            for ri, p in members:
                pt_ = None if p.placement_time is None else us(p.placement_time)
                if pt_ is None or pt_ < now:
                    viol.append(V("clockwork.time_before_now", ["C10"], "%s: %s placed at %s < now %d" % (ctx, R[ri]["name"], pt_, now)))
                elif pt_ < R[ri]["release"]:
                    viol.append(V("clockwork.time_before_release", ["C10"], "%s: %s placed at %s < release %d" % (ctx, R[ri]["name"], pt_, R[ri]["release"])))
            l = led[key]
            if not (m in l["loaded"] and l["loaded"][m] <= now):
                viol.append(V("clockwork.model_not_loaded", ["C15"], "%s: batch %s of model %s is placed on worker %s where the model is not loaded (loaded there: %s); contract: on a worker where that model is loaded" % (ctx, names, m, key, l["loaded"])))
            if l["gpu"] < sd[2]:
                viol.append(V("clockwork.worker_cannot_hold_strategy", ["C15", "C10"], "%s: batch %s needs %d GPU(s) but worker %s has %d free (running batches %s); contract: on a worker that can hold the strategy / placements never exceed a worker's capacity" % (ctx, names, sd[2], key, l["gpu"], l["batches"])))
            else:
                l["gpu"] -= sd[2]
                l["batches"].append((now + sd[1], sd[2]))
            dmin = min(R[ri]["deadline"] for ri, _ in members)
            if now + sd[1] > dmin:
                viol.append(V("clockwork.batch_misses_deadline", ["C15", "C12"], "%s: batch %s with runtime %d finishes at %d, after the earliest deadline %d in the batch; contract: only if now + strategy runtime is not after the earliest deadline in the batch" % (ctx, names, sd[1], now + sd[1], dmin)))
            if s.batch_size >= 2 and len(members) >= 2:
                info["big_batch"] += 1
        # ---- Model queue invariants after the call (C15)
        for model in sched._models:
            m = prof_model.get(id(model.profile), "?")
            in_queues = set()
            for strat, q in model._request_queues.items():
                dl = []
                for req in q:
                    ri = by_obj.get(id(req.task))
                    dl.append(R[ri]["deadline"] if ri is not None else us(req.task.deadline))
                    in_queues.add(id(req.task))
                if dl != sorted(dl):
                    viol.append(V("clockwork.queue_not_sorted", ["C15"], "%s: after the call the queue of model %s for batch size %d holds deadlines %s which are not sorted" % (ctx, m, strat.batch_size, dl)))
            in_tasks = {id(t) for t in model._tasks}
            if in_queues != in_tasks:
                nm = lambda s_: sorted(R[by_obj[x]]["name"] if x in by_obj else "?" for x in s_)  # noqa: E731
                viol.append(V("clockwork.tasks_queue_mismatch", ["C15"], "%s: after the call model %s has _tasks=%s but the union of its queues is %s; contract: a request is in _tasks iff it is in >= 1 queue" % (ctx, m, nm(in_tasks), nm(in_queues))))
        if len(viol) > nv0:
            return viol, info  # the history has left the contract; later invocations would be noise
        # ---- apply the decisions the way the simulator does
        try:
            for ri in sorted(set(cancels)):
                W["tg"].cancel(R[ri]["obj"], ET(now))
                R[ri]["status"] = "cancelled"
                info["cancel"] += 1
            for p in profile_ops:
                if p.placement_type == PT.EVICT_WORK_PROFILE:
                    pools[pool_idx[p.worker_pool_id]].evict_profile(p.work_profile, p.worker_id)
            for p in profile_ops:
                if p.placement_type == PT.LOAD_WORK_PROFILE:
                    pools[pool_idx[p.worker_pool_id]].load_profile(p.work_profile, p.loading_strategy, p.worker_id)
            for ri, p in places:
                R[ri]["obj"].schedule(ET(now), p)
            for ri, p in sorted(places, key=lambda x: x[1].task.unique_name):
                ok = pools[pool_idx[p.worker_pool_id]].place_task(R[ri]["obj"], execution_strategy=p.execution_strategy, worker_id=p.worker_id)
                if not ok:
                    viol.append(V("clockwork.worker_cannot_hold_strategy", ["C15", "C10"], "%s: the live pool refused %s (WORKER_NOT_READY) although my ledger accepted it" % (ctx, R[ri]["name"])))
                    return viol, info
                R[ri]["obj"].start(ET(now))
                R[ri]["status"] = "placed"
                R[ri]["placed_at"] = now
                info["placed"] += 1
                if R[ri]["arrival"] < k:
                    info["carried"] += 1
        except Exception as e:  # noqa: BLE001
            viol.append(V("clockwork.decisions_not_applicable", ["C10", "C15"], "%s: applying the decisions the way simulator.py does raised %s: %s" % (ctx, type(e).__name__, e)))
            return viol, info
    return viol, info


# ---- END CORE ----
# ---------------------------------------------------------------------------- enumeration / driver
from common import Result, parse_args, quiet_logging, REPO  # noqa: E402

G_PID_CFGS = {
    "C10": ["edf", "edf_e", "edf_p", "edf_pe", "fifo", "fifo_e", "lsf", "lsf_p"],
    "C13": ["edf", "edf_e", "edf_p", "edf_pe", "fifo", "fifo_e", "lsf", "lsf_p"],
    "C12": ["edf_e", "edf_pe", "fifo_e"],
}


REL_PATTERNS = [(6, 2, 6, 2), (2, 6, 2, 6), (2, 2, 6, 6), (6, 6, 2, 2)]


def greedy_specs(tier, seed, pid):
    """deterministic list of greedy world specs"""
    full = [(d, r, s) for d in G_DEADLINES for r in G_RELEASES for s in sorted(G_STRATSETS)]  # 48 task types
    # (deadline, strategy list) types for the largest multisets; the past deadline 9 only matters for the
    # admission clause, so the quick tier keeps it there for C12 only (it is always present for <=2 tasks)
    red_deadlines = G_DEADLINES if (tier == "thorough" or pid == "C12") else [d for d in G_DEADLINES if d >= NOW]
    red = [(d, s) for d in red_deadlines for s in sorted(G_STRATSETS)]

    def with_rel(ms, j):
        pat = REL_PATTERNS[j % len(REL_PATTERNS)]
        return tuple((d, pat[i], s) for i, (d, s) in enumerate(ms))

    rng = random.Random(1000 + seed)
    n_full = 3 if tier == "thorough" else 2
    multisets = []
    for n in range(0, n_full + 1):
        multisets.extend(itertools.combinations_with_replacement(full, n))
    n1 = len(multisets)
    multisets.extend(with_rel(ms, j) for j, ms in enumerate(itertools.combinations_with_replacement(red, n_full + 1)))
    n2 = len(multisets) - n1
    sampled = []
    if tier != "thorough":
        for _ in range(1500):
            sampled.append(tuple(sorted(rng.choice(full) for _ in range(4))))
    two_graph = []
    for n in (1, 2):
        if tier == "thorough":
            two_graph.extend(itertools.combinations_with_replacement(full, n))
        else:
            two_graph.extend(with_rel(ms, j) for j, ms in enumerate(itertools.combinations_with_replacement(red, n)))
    specs = []
    cl = []
    for K in sorted(G_CLUSTERS):
        for oi in range(len(G_CLUSTERS[K][1])):
            cl.append((K, oi))
    for ci, (K, oi) in enumerate(cl):
        for ms in multisets:
            specs.append({"cluster": K, "occ": oi, "tasks": list(ms), "graphs": 1, "distract": oi != 0})
        if oi != 0 or tier == "thorough":
            for ms in two_graph:
                specs.append({"cluster": K, "occ": oi, "tasks": list(reversed(ms)), "graphs": 2, "distract": oi != 0})
        for j, ms in enumerate(sampled):
            if j % len(cl) == ci:
                specs.append({"cluster": K, "occ": oi, "tasks": list(ms), "graphs": 1, "distract": False})
    # zero-demand strategies on a cluster whose first worker is saturated
    zt = [(14, 2, "Z"), (30, 6, "Z"), (16, 2, "A"), (14, 6, "B")]
    for n in (1, 2, 3):
        for ms in itertools.combinations_with_replacement(zt, n):
            if any(t[2] == "Z" for t in ms):
                specs.append({"cluster": "K7", "occ": 1, "tasks": list(ms), "graphs": 1, "distract": False})
    for i, s in enumerate(specs):
        s["seed"] = (seed * 1000003 + i) & 0x7FFFFFFF
    desc = "all %d multisets of <=%d offered tasks over 48 task types (4 deadlines incl. past/tight/loose x 2 releases x 6 strategy lists) + all %d multisets of %d tasks over %d (deadline, strategy list) types with the releases cycling through 4 fixed patterns%s; 2-graph variant (%d multisets of 1-2 tasks) on %s" % (
        n1, n_full, n2, n_full + 1, len(red), "" if not sampled else " + %d seeded 4-task multisets" % len(sampled), len(two_graph), "every cluster state" if tier == "thorough" else "the occupied cluster states")
    return specs, desc


CW_PAIRS = {"quick": [("M3", "M2"), ("M2", "M4"), ("M5", "M1")], "thorough": [("M3", "M2"), ("M2", "M4"), ("M5", "M1"), ("M3", "M3"), ("M4", "M5")]}


def cw_specs(tier, seed, pid):
    full = [(m, k, off) for m in "AB" for k in range(len(CW_TIMES)) for off in CW_DL]  # 24 request types
    mid = [(m, k, off) for m in "AB" for k in range(len(CW_TIMES)) for off in (3, 9)]  # 12
    reduced = [(m, k, off) for m in "AB" for k in (0, 1) for off in (5, 9)]  # 8
    multisets = []
    if tier == "thorough" and pid == "C15":
        for n in range(0, 5):
            multisets.extend(itertools.combinations_with_replacement(full, n))
        multisets.extend(itertools.combinations_with_replacement(reduced, 5))
        bound = "all multisets of <=4 requests over %d request types + of 5 requests over %d types" % (len(full), len(reduced))
    elif tier == "thorough":
        for n in range(0, 4):
            multisets.extend(itertools.combinations_with_replacement(full, n))
        multisets.extend(itertools.combinations_with_replacement(mid, 4))
        multisets.extend(itertools.combinations_with_replacement(reduced, 5))
        bound = "all multisets of <=3 requests over %d request types + of 4 requests over %d types + of 5 requests over %d types" % (len(full), len(mid), len(reduced))
    else:
        for n in range(0, 3):
            multisets.extend(itertools.combinations_with_replacement(full, n))
        multisets.extend(itertools.combinations_with_replacement(mid, 3))
        multisets.extend(itertools.combinations_with_replacement(reduced, 4))
        bound = "all multisets of <=2 requests over %d request types + of 3 requests over %d types + of 4 requests over %d types" % (len(full), len(mid), len(reduced))
        if pid == "C15":
            # 5 requests: those with >= 4 requests of one model (a full batch of 4 plus one more request)
            five = [ms for ms in itertools.combinations_with_replacement(reduced, 5) if max(sum(1 for m, _, _ in ms if m == x) for x in "AB") >= 4]
            multisets.extend(five)
            bound += " + the %d multisets of 5 requests over %d types in which one model has >= 4 requests" % (len(five), len(reduced))
    specs = []
    for pair in CW_PAIRS[tier]:
        for wk in sorted(CW_WORKERS):
            for goal in ("clockwork", "least_slack"):
                for ms in multisets:
                    if goal == "least_slack" and len({m for m, _, _ in ms}) < 2:
                        continue  # the goal only matters when both models have requests
                    specs.append({"models": pair, "workers": wk, "reqs": list(ms), "goal": goal})
    # the same scheduler invoked twice at ONE simulated time, with requests arriving in between (a release event at the
    # time of a scheduler run pulls the next run to the same instant): invocations at 0, 3, 3 (seed C12-8: per-timestamp
    # memo of the expiry sweep)
    same_t = []
    st_types = full if tier == "thorough" else [(m, k, off) for m in "AB" for k in (0, 1) for off in (3, 9)] + [(m, 2, off) for m in "AB" for off in (2, 5)]
    for n in range(1, 4):
        # (an earlier request creates the model's queues, so that the second invocation already visits them)
        same_t.extend(ms for ms in itertools.combinations_with_replacement(st_types, n) if any(k == 2 for _, k, _ in ms))
    for pair in CW_PAIRS[tier]:
        for wk in sorted(CW_WORKERS):
            for ms in same_t:
                specs.append({"models": pair, "workers": wk, "reqs": list(ms), "goal": "clockwork", "times": CW_TIMES_SAME})
    bound += " + %d multisets of 1-3 requests with invocations at %s (two invocations at one simulated time, an arrival in between)" % (len(same_t), CW_TIMES_SAME)
    for i, s in enumerate(specs):
        s["seed"] = (seed * 1000003 + 7919 * i + 13) & 0x7FFFFFFF
    return specs, bound


COUNTED = [
    ("workload.workload", "Workload", "get_schedulable_tasks"),
    ("workload.tasks", "TaskGraph", "get_schedulable_tasks"),
    ("workers.workers", "WorkerPool", "can_accomodate_strategy"),
    ("workers.workers", "WorkerPool", "place_task"),
    ("workers.workers", "Worker", "can_accomodate_strategy"),
    ("workers.workers", "Worker", "place_task"),
    ("workers.workers", "Worker", "get_compatible_strategies"),
    ("workload.placement", "Placement", "create_task_placement"),
    ("workload.placement", "Placement", "create_task_cancellation"),
    ("schedulers.clockwork_scheduler", "Model", "get_available_execution_strategies"),
    ("schedulers.clockwork_scheduler", "Model", "get_placements"),
    ("schedulers.clockwork_scheduler", "Model", "add_task"),
    ("schedulers.clockwork_scheduler", "Model", "remove_task"),
    ("schedulers.clockwork_scheduler", "ClockworkScheduler", "run_admission"),
    ("schedulers.clockwork_scheduler", "ClockworkScheduler", "run_inference"),
    ("schedulers.clockwork_scheduler", "ClockworkScheduler", "run_load"),
    ("schedulers.lsf_scheduler", "LSFScheduler", "slack"),
]


def install_counters():
    import importlib

    for mod, cls, meth in COUNTED:
        c = getattr(importlib.import_module(mod), cls)
        raw = c.__dict__[meth]
        is_static = isinstance(raw, staticmethod)
        fn = raw.__func__ if is_static else raw
        label = "%s.%s" % (cls, meth)

        def wrap(fn=fn, label=label):
            def counted(*a, **kw):
                CALLS[label] = CALLS.get(label, 0) + 1
                return fn(*a, **kw)

            counted.__name__ = fn.__name__
            counted.__doc__ = fn.__doc__
            return counted

        setattr(c, meth, staticmethod(wrap()) if is_static else wrap())


_SPECS = {}


def _work(job):
    fam, lo, hi, pid = job
    CALLS.clear()
    specs = _SPECS[fam]
    evals = []  # (case key, nontrivial)
    viols = {}
    samples = []
    for idx in range(lo, hi):
        spec = specs[idx]
        if fam == "g":
            for ci, (cfg, vs, info) in enumerate(run_greedy_spec(spec, G_PID_CFGS[pid])):
                if pid == "C10":
                    nt = info["placed"] >= 1
                elif pid == "C13":
                    nt = info["offered"] - info["cancel"] >= 2 and info["unplaced"] >= 1
                else:
                    nt = info["c12_interesting"]
                evals.append(("g", idx, cfg, nt))
                if nt and len(samples) < 2 and len(spec["tasks"]) >= 2:
                    samples.append({"family": "greedy", "cfg": cfg, "spec": spec, "decisions": info})
                for v in vs:
                    if pid in v["pids"]:
                        e = viols.setdefault(v["id"], {"count": 0, "what": v["what"], "spec": spec, "fam": "g", "cfg": cfg, "idx": idx})
                        e["count"] += 1
        else:
            vs, info = run_cw_spec(spec)
            if pid == "C15":
                nt = info["placed"] >= 1 and (info["big_batch"] >= 1 or info["cancel"] >= 1 or info["carried"] >= 1)
            elif pid == "C10":
                nt = info["placed"] >= 1
            else:
                nt = info["c12_interesting"]
            evals.append(("c", idx, "", nt))
            if nt and len(samples) < 2 and len(spec["reqs"]) >= 3:
                samples.append({"family": "clockwork", "spec": spec, "outcome": info})
            for v in vs:
                if pid in v["pids"]:
                    e = viols.setdefault(v["id"], {"count": 0, "what": v["what"], "spec": spec, "fam": "c", "cfg": "", "idx": idx})
                    e["count"] += 1
    return evals, viols, samples, dict(CALLS)


def core_text():
    src = open(os.path.abspath(__file__)).read()
    a = src.index("# ---- BEGIN CORE ----")
    b = src.index("# ---- END CORE ----")
    return src[a:b]


def replay_script(entry, vid, pid):
    head = (
        "# stand-alone replay: run with PYTHONPATH=<repo> (cwd = repo); exits 1 iff the violation reproduces\n"
        "import sys\n"
    )
    tail = "\n\nSPEC = %r\nTARGET = %r\nPID = %r\n" % (entry["spec"], vid, pid)
    if entry["fam"] == "g":
        tail += (
            "CFG = %r\n"
            "res = run_greedy_spec(SPEC, [CFG])\n"
            "vs = res[0][1]\n" % entry["cfg"]
        )
    else:
        tail += "vs, _info = run_cw_spec(SPEC)\n"
    tail += (
        "hit = False\n"
        "for v in vs:\n"
        "    print('VIOLATION', v['id'], '(properties %s)' % ','.join(v['pids']))\n"
        "    print('   ', v['what'])\n"
        "    hit = hit or v['id'] == TARGET\n"
        "if not vs:\n"
        "    print('the real scheduler satisfied every contract clause on this input')\n"
        "print('REPRODUCED %s' % TARGET if hit else 'not reproduced: %s' % TARGET)\n"
        "sys.exit(1 if hit else 0)\n"
    )
    return head + core_text() + tail


def main():
    args = parse_args()
    quiet_logging()
    pid = args.pid
    if pid not in ("C10", "C12", "C13", "C15"):
        raise SystemExit("unsupported --pid %s" % pid)
    t0 = time.time()
    fams = []
    bound_parts = []
    if pid in G_PID_CFGS:
        gs, gdesc = greedy_specs(args.tier, args.seed, pid)
        _SPECS["g"] = gs
        fams.append("g")
        bound_parts.append(
            "greedy: %d worlds = 13 cluster states {6 clusters (1-2 pools x 1-2 workers, caps <=2 GPU / <=1 CPU) x occupancy (none | one RUNNING task + 4 distractor tasks)} x {%s} x %d scheduler configs %s"
            % (len(gs), gdesc, len(G_PID_CFGS[pid]), G_PID_CFGS[pid])
        )
    if pid in ("C10", "C12", "C15"):
        cs, cbound = cw_specs(args.tier, args.seed, pid)
        _SPECS["c"] = cs
        fams.append("c")
        bound_parts.append(
            "clockwork: %d histories = 3 invocations at %s x %s (model, arrival, deadline offset %s) x %d model pairs (batch sizes {1,2,4}) x 7 worker/loading configs (2 with run_load) x 2 goals"
            % (len(cs), CW_TIMES, cbound, CW_DL, len(CW_PAIRS[args.tier]))
        )
    rules = {
        "C10": "non-trivial = the invocation (greedy) / history (clockwork) contains at least one placed decision",
        "C12": "non-trivial = enforcement on and at least one offered task is hopeless or exactly tight (now + fastest runtime >= deadline)",
        "C13": "non-trivial = at least two offered, non-cancelled tasks and at least one of them left unplaced",
        "C15": "non-trivial = history with >=1 placement and (a batch of size >=2, or a cancellation, or a request placed at an invocation after its arrival)",
    }
    R = Result(args, rule=rules[pid] + "; case = one real schedule() call on one world (greedy) or one 3-invocation history (clockwork)", bound="; ".join(bound_parts))
    if args.tier != "thorough" and "g" in fams:
        R.exhaustive = True  # exhaustive for the stated <=3-task bound; the 4-task part is a seeded sample
    install_counters()
    import multiprocessing as mp

    jobs = []
    for fam in fams:
        n = len(_SPECS[fam])
        chunk = 150 if fam == "g" else 200
        for lo in range(0, n, chunk):
            jobs.append((fam, lo, min(n, lo + chunk), pid))
    # interleave so that both families progress together
    jobs.sort(key=lambda j: (j[1] / max(1, len(_SPECS[j[0]])), j[0]))
    nproc = min(16, os.cpu_count() or 1)
    merged = {}
    ctx = mp.get_context("fork")
    with ctx.Pool(nproc) as pool:
        for evals, viols, samples, calls in pool.imap_unordered(_work, jobs):
            for fam, idx, cfg, nt in evals:
                R.case((fam, idx, cfg), nt)
            for s in samples:
                if len(R.samples) < 5:
                    R.samples.append(s)
            for k, n in calls.items():
                R.called(k, n)
            for vid, e in viols.items():
                m = merged.get(vid)
                if m is None or (e["fam"], e["idx"], e["cfg"]) < (m["fam"], m["idx"], m["cfg"]):
                    cnt = e["count"] + (m["count"] if m else 0)
                    merged[vid] = dict(e, count=cnt)
                else:
                    m["count"] += e["count"]
    for vid in sorted(merged):
        e = merged[vid]
        # prefer a small witness: keep the one found (lowest index = fewest tasks) and write its replay
        R.violation(vid, e["what"], replay_script(e, vid, pid))
        R.violations[vid]["count"] = e["count"]
    R.extra["wall_seconds"] = round(time.time() - t0, 1)
    R.extra["repo"] = REPO
    R.finish()


if __name__ == "__main__":
    main()
