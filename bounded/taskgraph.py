#!/usr/bin/env python
"""Bounded stand-in for the TaskGraph / Task lifecycle contracts of properties C06, C07, C18.

    python bounded/taskgraph.py --pid C06|C07|C18 --tier quick|thorough --seed N --out f.json

Small-scope enumeration (all labelled DAGs up to 4/5 nodes x conditional/terminal flags x
task states that are reachable through legal method sequences) of the REAL functions

  (a) TaskGraph.cancel                      [C06, C07]  closure contract
  (b) TaskGraph.notify_task_completion      [C18, C07]  released / cancelled contract
  (c) TaskGraph.get_schedulable_tasks       [C18]       frontier clauses + monotonicity
  (d) TaskGraph.get_releasable_tasks        [C18]
  (e) Task state machine, TaskGraph.is_complete [C06]
  (f) JobGraph resolution at submission     [C07]

Every oracle below is a brute-force spec function written from the property statement.  Each
`eval_*` function takes a small literal `case`, rebuilds the input with real repository objects
(only through legal method calls), calls the real function and returns the list of contract
violations; replay scripts contain the very same source (inspect.getsource) plus the case.

Readings of the statements that the contracts rely on (kept as weak as the text allows):
  * states are built by `drive()` the way the simulator would: release at the instant the inputs
    are available, completion through step/finish + notify_task_completion, one scheduler run at
    the final time; a VIRTUAL task with all inputs present exists only at that very instant; a
    VIRTUAL source is one whose release time lies in the future.
  * "a scheduled or running task only when retraction or preemption is enabled": SCHEDULED needs
    retraction OR preemption (the code offers placed-but-not-started tasks under preemption),
    RUNNING needs preemption.
  * "never offered a task whose predecessors have not all completed" (lookahead 0, no
    release_taskgraphs, no retraction) is demanded only of histories a run that does not plan
    ahead can produce (nothing scheduled or dropped before its inputs were there); a join needs
    one completed parent.
  * a join that an earlier parent has already released is outside notify's contract (ill-formed
    graph: both branches ran); conditionals have >= 2 children; child weights must sum to 1
    (or all be 0) for a completion to be inside the contract.
  * decided non-findings are not demanded: `release()` on a SCHEDULED task keeps the fallback
    state VIRTUAL (lifecycle accepts VIRTUAL or RELEASED there); resolution at submission may
    ignore the declared weights.
  * ids starting with `cancel.cascade_incomplete` all share one root cause (the DFS in
    TaskGraph.cancel stops at the first revisited/cancelled node or live join).
"""
import hashlib
import inspect
import itertools
import logging
import multiprocessing
import os
import random
import sys
import time as _time
import types

try:
    from bounded.common import Result, parse_args, quiet_logging
except ImportError:  # run as a plain script: bounded/ is sys.path[0]
    from common import Result, parse_args, quiet_logging

# ---------------------------------------------------------------------------------------------
# Section shared with the replay scripts (REPLAY_HEAD + inspect.getsource of SHARED functions).
# ---------------------------------------------------------------------------------------------
REPLAY_HEAD = '''import logging, random, sys, types
logging.disable(logging.CRITICAL)
from utils import EventTime
from workload import (BranchPredictionPolicy, ExecutionStrategies, ExecutionStrategy, Job,
                      JobGraph, Placement, Resource, Resources, Task, TaskGraph, TaskState,
                      WorkProfile, Workload)
US = EventTime.Unit.US
RT = 10
_LOG = logging.getLogger("bounded.taskgraph")
_JOBS = {}
V_, R_, S_, U_, P_, E_, C_, X_ = (TaskState.VIRTUAL, TaskState.RELEASED, TaskState.SCHEDULED,
    TaskState.RUNNING, TaskState.PREEMPTED, TaskState.EVICTED, TaskState.COMPLETED,
    TaskState.CANCELLED)
EPS = sys.float_info.epsilon
'''
exec(REPLAY_HEAD)


def T(x):
    return EventTime(int(x), US)


def mk_job(name, cond, term, prob, rt=RT):
    key = (name, cond, term, prob, rt)
    if key not in _JOBS:
        prof = WorkProfile(
            name="%s_wp" % name,
            execution_strategies=ExecutionStrategies(
                strategies=[
                    ExecutionStrategy(
                        resources=Resources(resource_vector={Resource(name="CPU", _id="any"): 1}),
                        batch_size=1,
                        runtime=T(rt),
                    )
                ]
            ),
        )
        _JOBS[key] = Job(name=name, profile=prof, conditional=cond, terminal=term, probability=prob)
    return _JOBS[key]


def rel_maps(n, edges):
    par = [[] for _ in range(n)]
    chl = [[] for _ in range(n)]
    for a, b in edges:
        chl[a].append(b)
        par[b].append(a)
    return par, chl


def topo_order(n, edges):
    par, chl = rel_maps(n, edges)
    indeg = [len(p) for p in par]
    out, ready = [], sorted(v for v in range(n) if indeg[v] == 0)
    while ready:
        v = ready.pop(0)
        out.append(v)
        for c in chl[v]:
            indeg[c] -= 1
            if indeg[c] == 0:
                ready.append(c)
        ready.sort()
    assert len(out) == n, "not a DAG"
    return out


def mk_graph(n, edges, flags, probs=None, src_release=None):
    """nodes N0..N{n-1}; flags[i] in 'p' (plain) 'c' (conditional) 't' (terminal/join); children
    are attached in the order of `edges`.  Sources get a construction-time release time."""
    par, _ = rel_maps(n, edges)
    tasks = []
    for i in range(n):
        job = mk_job("N%d" % i, flags[i] == "c", flags[i] == "t", 1.0 if probs is None else probs[i])
        rel = -1
        if not par[i]:
            rel = 0 if src_release is None else src_release[i]
        tasks.append(
            Task(name="N%d" % i, task_graph="G", job=job, deadline=T(10**6), timestamp=0,
                 release_time=T(rel), _logger=_LOG)
        )
    g = TaskGraph(name="G")
    for t in tasks:
        g.add_task(t)
    for a, b in edges:
        g.add_child(tasks[a], tasks[b])
    return g, tasks


def placement_for(task, when):
    return Placement.create_task_placement(
        task=task, placement_time=T(when), worker_pool_id=None,
        execution_strategy=task.available_execution_strategies[0],
    )


def idx_of(task):
    return int(task.name[1:])


def parents_done(st, par, flags, v):
    """spec: may v receive its inputs now?  join ('t'): one completed parent; else all parents"""
    if not par[v]:
        return True
    done = [st[p] == C_ for p in par[v]]
    return any(done) if flags[v] == "t" else all(done)


FUTURE = 500  # release time of a source that is still VIRTUAL (its release has not arrived)


def drive(n, edges, flags, targets, probs=None, seeds=None):
    """Bring a fresh graph into the per-node target states (string over V R S U C X; U=RUNNING,
    C=COMPLETED, X=CANCELLED) using only the calls the simulator makes, in a simulator-consistent
    order: nodes in topological order; a task is released at the instant its inputs are available
    (last parent's completion; first for a join); a completing task goes through
    release/schedule/start/step/finish and TaskGraph.notify_task_completion (which picks the
    conditional branch and cancels the others); X is a direct TaskGraph.cancel; SCHEDULED tasks
    are placed by one scheduler run at the final time `now`.  Returns (g, tasks, now, planning) or
    None when the target vector is not reachable this way; `planning` tells that the history needs
    a plan-ahead run (a task scheduled, or dropped, before its inputs were available)."""
    par, chl = rel_maps(n, edges)
    src_release = [FUTURE if (not par[v] and targets[v] == "V") else 0 for v in range(n)]
    g, tasks = mk_graph(n, edges, flags, probs, src_release)
    # ONE Workload object lives through the whole history (as in a simulation): completions are notified through it and
    # the via-workload queries below use the same object, so anything a Workload remembers between calls is in play
    # (seed C18-4: a stale "finished graphs" set)
    wl = Workload.from_task_graphs({g.name: g})
    g._verif_workload = wl
    clock = 0
    ctime = {}
    deferred = []
    unlocked_virtual = []
    planning = False
    for v in topo_order(n, edges):
        t, tgt = tasks[v], targets[v]
        if t.state == X_:
            if tgt != "X":
                return None
            continue
        st = [x.state for x in tasks]
        ok = parents_done(st, par, flags, v)
        unlock = 0
        if par[v] and ok:
            cts = [ctime[p] for p in par[v] if p in ctime]
            unlock = min(cts) if flags[v] == "t" else max(cts)
        if tgt == "V":
            if par[v] and ok:
                unlocked_virtual.append(unlock)
            continue
        if tgt == "X":
            planning = planning or not ok
            g.cancel(t, T(clock))
            continue
        if tgt == "S":
            planning = planning or not ok
            if ok:
                t.release(T(unlock))
            deferred.append((v, ok))
            continue
        if not ok:
            return None
        t.release(T(unlock))
        clock = max(clock, unlock)
        if tgt == "R":
            continue
        t.schedule(T(clock), placement_for(t, clock))
        t.start(T(clock))
        if tgt == "U":
            continue
        if not t.step(T(clock), T(RT)):
            return None
        clock += RT
        t.finish(T(clock))
        ctime[v] = clock
        if seeds is not None and v in seeds:
            random.seed(seeds[v])
        try:
            wl.notify_task_completion(t, T(clock))
        except (ValueError, RuntimeError):
            return None
    now = clock
    # a VIRTUAL task whose inputs are available exists only at the very instant of the unlocking
    # completion (its release event carries the same timestamp)
    if any(u != now for u in unlocked_virtual):
        return None
    for v, ok in deferred:
        t = tasks[v]
        if t.state == X_:
            return None
        t.schedule(T(now), placement_for(t, now if ok else now + 5))
    return g, tasks, now, planning


def closure_spec(n, par, chl, flags, cancelled, starts):
    """least set containing `starts` and closed under: a child that is not a join, or a join all of
    whose parents are in the set or already cancelled"""
    S = set(starts)
    changed = True
    while changed:
        changed = False
        for m in list(S):
            for c in chl[m]:
                if c in S:
                    continue
                if flags[c] != "t" or all((p in S) or (p in cancelled) for p in par[c]):
                    S.add(c)
                    changed = True
    return S


def cascade_simple(n, par, chl, flags, cancelled, starts):
    """True when the part of the graph below `starts` is a forest without joins and without
    already-cancelled tasks (no node can be met twice, nothing stops a traversal early)"""
    R = set(starts)
    stack = list(starts)
    while stack:
        m = stack.pop()
        for c in chl[m]:
            if c not in R:
                R.add(c)
                stack.append(c)
    for u in R:
        if u in cancelled:
            return False
        inside = [p for p in par[u] if p in R]
        if u in starts:
            if inside:
                return False
        else:
            if len(inside) != 1 or flags[u] == "t":
                return False
    return True


def names(st):
    return "[" + " ".join("%d:%s" % (i, s.name) for i, s in enumerate(st)) + "]"


# ------------------------------------------------------------------------------------------ (a)
def realize_marks(n, edges, flags, marks):
    """Build tasks in the given states through Task-level calls only (topological order)."""
    par, chl = rel_maps(n, edges)
    g, tasks = mk_graph(n, edges, flags)
    clock = 0
    for v in topo_order(n, edges):
        t, m = tasks[v], marks[v]
        ok = parents_done([x.state for x in tasks], par, flags, v)
        if m == "V":
            continue
        if m == "X":
            t.cancel(T(clock))
            continue
        if m == "S":
            if ok:
                t.release(T(clock))
            t.schedule(T(clock), placement_for(t, clock if ok else clock + 5))
            continue
        assert ok, "mark not reachable"
        t.release(T(clock))
        if m == "R":
            continue
        t.schedule(T(clock), placement_for(t, clock))
        t.start(T(clock))
        if m == "U":
            continue
        assert t.step(T(clock), T(RT))
        clock += RT
        t.finish(T(clock))
    return g, tasks, clock


def eval_cancel(case, stats=None):
    """contract of TaskGraph.cancel(task, time): the tasks it cancels/returns are exactly the
    not-yet-cancelled members of closure_spec({task}); nothing else changes state."""
    n, edges, flags, marks, start = case["n"], case["edges"], case["flags"], case["marks"], case["start"]
    par, chl = rel_maps(n, edges)
    try:
        g, tasks, now = realize_marks(n, edges, flags, marks)
    except Exception as e:  # only legal lifecycle calls are made while building the state
        return [("build.legal_call_rejected", "%r while building marks=%s edges=%s flags=%s" % (e, marks, edges, flags))], 0
    pre = [t.state for t in tasks]
    cancelled = set(i for i in range(n) if pre[i] == X_)
    S = closure_spec(n, par, chl, flags, cancelled, [start])
    simple = cascade_simple(n, par, chl, flags, cancelled, [start])
    out = []
    if stats is not None:
        stats["TaskGraph.cancel"] = stats.get("TaskGraph.cancel", 0) + 1
    try:
        ret = g.cancel(tasks[start], T(now))
    except Exception as e:  # cancel is legal from VIRTUAL/RELEASED/SCHEDULED
        return [("cancel.raised", "cancel(N%d) raised %r; pre=%s" % (start, e, names(pre)))], len(S)
    post = [t.state for t in tasks]
    ret_idx = [idx_of(t) for t in ret]
    ctx = "edges=%s flags=%s pre=%s cancel(N%d) -> returned %s post=%s; contract closure=%s" % (
        edges, flags, names(pre), start, ret_idx, names(post), sorted(S))
    for u in sorted(S):
        if post[u] != X_:
            vid = "cancel.tree_cascade_incomplete" if simple else "cancel.cascade_incomplete"
            out.append((vid, "N%d can no longer receive its inputs but is left %s. %s" % (u, post[u].name, ctx)))
    for u in range(n):
        if u in S or post[u] == pre[u]:
            continue
        if flags[u] == "t" and post[u] == X_:
            out.append(("cancel.join_with_live_parent_cancelled",
                        "join N%d still has a non-cancelled parent but was cancelled. %s" % (u, ctx)))
        else:
            out.append(("cancel.changed_task_outside_closure", "N%d changed %s->%s. %s" % (u, pre[u].name, post[u].name, ctx)))
    newly = sorted(u for u in range(n) if pre[u] != X_ and post[u] == X_)
    if len(set(ret_idx)) != len(ret_idx):
        out.append(("cancel.duplicate_report", "a task is reported cancelled twice. %s" % ctx))
    if sorted(set(ret_idx)) != newly:
        out.append(("cancel.report_mismatch", "reported %s but tasks that became CANCELLED are %s. %s" % (sorted(set(ret_idx)), newly, ctx)))
    return out, len(S)


# ------------------------------------------------------------------------------------------ (b)
def eval_notify(case, stats=None):
    """contract of TaskGraph.notify_task_completion for the RUNNING task `v` of a reachable state"""
    n, edges, flags, targets, v = case["n"], case["edges"], case["flags"], case["targets"], case["v"]
    par, chl = rel_maps(n, edges)
    try:
        built = drive(n, edges, flags, targets, case.get("probs"), case.get("seeds"))
    except Exception as e:  # only legal lifecycle calls are made while building the state
        return [("build.legal_call_rejected", "%r while building targets=%s edges=%s flags=%s" % (e, targets, edges, flags))], False
    if built is None:
        return None
    g, tasks, now, planning = built
    t = tasks[v]
    if not t.step(T(now), T(RT)):
        return None
    fin = now + RT
    t.finish(T(fin))
    pre = [x.state for x in tasks]
    w = [x.probability for x in tasks]
    released_before = [not x.release_time.is_invalid() for x in tasks]
    cancelled = set(i for i in range(n) if pre[i] == X_)
    random.seed(case.get("seed", 0))
    name = "TaskGraph.notify_task_completion"
    raised = None
    try:
        if case.get("via_workload"):
            name = "Workload.notify_task_completion"
            rel, can = Workload.from_task_graphs({"G": g}).notify_task_completion(t, T(fin))
        else:
            rel, can = g.notify_task_completion(t, T(fin))
    except Exception as e:
        raised, rel, can = e, [], []
    if stats is not None:
        stats[name] = stats.get(name, 0) + 1
    post = [x.state for x in tasks]
    rel_idx, can_idx = [idx_of(x) for x in rel], [idx_of(x) for x in can]
    ch = chl[v]
    ctx = "edges=%s flags=%s weights=%s state=%s, N%d completes -> released %s cancelled %s%s post=%s" % (
        edges, flags, [w[c] for c in ch], names(pre), v, rel_idx, can_idx,
        (" RAISED %r" % raised) if raised is not None else "", names(post))
    out = []
    # a join child that an earlier parent already released (or that already ran): nothing is demanded
    dontcare = [c for c in ch if flags[c] == "t" and (released_before[c] or pre[c] in (R_, U_, C_))]
    beyond = [c for c in ch if pre[c] in (U_, C_, P_, E_)]
    if flags[v] != "c":
        if raised is not None:
            if not beyond:
                out.append(("notify.raised", "legal completion rejected. " + ctx))
            return out, bool(ch)
        for c in ch:
            if c in dontcare:
                continue
            if pre[c] == X_:
                if c in rel_idx:
                    out.append(("notify.released_cancelled_child", "N%d is CANCELLED. %s" % (c, ctx)))
            elif flags[c] == "t":
                if c not in rel_idx:
                    out.append(("notify.join_not_released_on_first_completed_parent", "join N%d. %s" % (c, ctx)))
            else:
                allc = all(pre[p] == C_ for p in par[c])
                if allc and c not in rel_idx:
                    out.append(("notify.unlocked_child_not_released", "every parent of N%d is complete. %s" % (c, ctx)))
                if not allc and c in rel_idx:
                    out.append(("notify.released_child_with_incomplete_parent", "N%d has an incomplete parent. %s" % (c, ctx)))
        if any(c not in ch for c in rel_idx):
            out.append(("notify.released_non_child", ctx))
        if len(set(rel_idx)) != len(rel_idx):
            out.append(("notify.duplicate_release", ctx))
        if can_idx or post != pre:
            out.append(("notify.nonconditional_changed_states", "no task may change state here. " + ctx))
        return out, bool(ch)
    # conditional task
    wch = [w[c] for c in ch]
    allzero = all(x <= EPS for x in wch)
    if beyond or (not allzero and abs(sum(wch) - 1.0) > EPS) or not ch:
        return out, False  # outside the precondition (ill-formed weights / join already running)
    if raised is not None:
        out.append(("notify.raised", "legal completion of a conditional rejected. " + ctx))
        return out, True
    chosen = None
    if allzero:
        if rel_idx:
            out.append(("notify.released_zero_probability_child", "all children have probability 0. " + ctx))
    else:
        if len(rel_idx) != 1 or rel_idx[0] not in ch:
            out.append(("notify.conditional_not_exactly_one_released", ctx))
            return out, True
        chosen = rel_idx[0]
        if w[chosen] <= EPS:
            out.append(("notify.released_zero_probability_child", "N%d has probability %r. %s" % (chosen, w[chosen], ctx)))
    def below(roots):
        seen, stack = set(roots), list(roots)
        while stack:
            for c in chl[stack.pop()]:
                if c not in seen:
                    seen.add(c)
                    stack.append(c)
        return seen

    if chosen is not None and chosen in below([c for c in ch if c != chosen]):
        return out, False  # ill-formed: the taken branch hangs below an untaken one
    starts = [c for c in ch if c != chosen and flags[c] != "t"]
    E = closure_spec(n, par, chl, flags, cancelled, starts) if starts else set()
    simple = cascade_simple(n, par, chl, flags, cancelled, starts) if starts else True
    # a join that is itself a child of the conditional ("if" without "else"): it stays alive when
    # another live branch leads into it; when only the conditional feeds it nothing is demanded
    djoin = [c for c in ch if c != chosen and flags[c] == "t"]
    fed = [c for c in djoin if any(p != v and post[p] != X_ for p in par[c])]
    skip = below([c for c in djoin if c not in fed])
    for c in fed:
        if post[c] == X_ and pre[c] != X_:
            out.append(("notify.join_cancelled_with_live_parent",
                        "join N%d is a child of the conditional and of a branch that is not cancelled (%s) but was cancelled. %s" % (
                            c, [(p, post[p].name) for p in par[c]], ctx)))
            skip |= below([c])
    for u in sorted(E):
        if post[u] != X_:
            vid = "notify.untaken_branch_not_cancelled" if simple else "cancel.cascade_incomplete.via_notify"
            out.append((vid, "N%d is on a branch not taken (contract set %s) but is left %s. %s" % (u, sorted(E), post[u].name, ctx)))
    for u in range(n):
        if u in E or u in skip or post[u] == pre[u]:
            continue
        if u == chosen and post[u] == X_:
            out.append(("notify.chosen_child_cancelled", ctx))
        elif flags[u] == "t" and post[u] == X_:
            out.append(("notify.join_cancelled_with_live_parent",
                        "join N%d has a parent that is not cancelled (%s) but was cancelled. %s" % (
                            u, [(p, post[p].name) for p in par[u]], ctx)))
        else:
            out.append(("notify.changed_task_outside_untaken_branches", "N%d %s->%s. %s" % (u, pre[u].name, post[u].name, ctx)))
    newly = sorted(u for u in range(n) if pre[u] != X_ and post[u] == X_)
    if sorted(can_idx) != newly:
        out.append(("notify.cancelled_report_mismatch", "tasks that became CANCELLED: %s. %s" % (newly, ctx)))
    return out, True


# ------------------------------------------------------------------------------- (c) (d) (e2)
POLICY = {
    "ALL": BranchPredictionPolicy.ALL,
    "BEST": BranchPredictionPolicy.BEST_CASE,
    "WORST": BranchPredictionPolicy.WORST_CASE,
    "MAX": BranchPredictionPolicy.MAXIMUM,
    "RANDOM": BranchPredictionPolicy.RANDOM,
}
LOOKAHEADS = (0, 12, 1000)


def unlocked(st, par, flags, v):
    """spec: VIRTUAL task whose inputs are all there: every parent COMPLETED (join: one completed
    parent, the others cancelled or completed)"""
    if not par[v]:
        return False
    if flags[v] == "t":
        return any(st[p] == C_ for p in par[v]) and all(st[p] in (C_, X_) for p in par[v])
    return all(st[p] == C_ for p in par[v])


def frontier_clauses(n, par, flags, st, rel, time, L, pre, ret, rtg, offer, nonplanning=True, pol="ALL"):
    """per-call clauses of C18; returns [(id, text)]"""
    out = []
    S = set(offer)
    for v in range(n):
        s = st[v]
        if v in S:
            if s == C_:
                out.append(("frontier.offers_completed", "N%d" % v))
            elif s == X_:
                out.append(("frontier.offers_cancelled", "N%d" % v))
            elif s == S_ and not (ret or pre):
                out.append(("frontier.offers_scheduled_without_retraction_or_preemption", "N%d" % v))
            elif s == U_ and not pre:
                out.append(("frontier.offers_running_without_preemption", "N%d" % v))
            if nonplanning and L == 0 and not rtg and not ret and s in (V_, R_) and not parents_done(st, par, flags, v):
                bad = set(st[p].name.lower() for p in par[v] if st[p] != C_)
                if bad == set(["cancelled"]):
                    # the task should itself have been cancelled by the cascade
                    vid = "cancel.cascade_incomplete.via_frontier"
                elif pol != "ALL":
                    # only the predicted child of a pending conditional receives its estimate
                    vid = "frontier.offers_task_with_incomplete_parent.predicted_branch"
                else:
                    lead = [x for x in ("running", "released", "scheduled", "virtual") if x in bad][0]
                    anc, todo = set(), list(par[v])
                    while todo:
                        a_ = todo.pop()
                        if a_ not in anc:
                            anc.add(a_)
                            todo.extend(par[a_])
                    if lead == "virtual" and not any(st[a_] == V_ and not par[a_] for a_ in anc):
                        # no VIRTUAL *source* upstream (a VIRTUAL source has no estimate: a recorded finding): every VIRTUAL
                        # ancestor has an estimate, so the child was offered on a wrong (stale / too early) estimate
                        lead = None
                    vid = "frontier.offers_task_with_incomplete_parent.all_branches." + ("parent_" + lead if lead else "inner_parent_virtual")
                out.append((vid, "N%d offered with lookahead 0 while parents are %s" % (v, [(p, st[p].name) for p in par[v]])))
        else:
            if s == R_ and rel[v] <= time:
                out.append(("frontier.starved_released_task", "N%d released at %d not offered at %d" % (v, rel[v], time)))
            if s == V_ and unlocked(st, par, flags, v):
                out.append(("frontier.unlocked_virtual_not_offered", "VIRTUAL N%d has all its inputs but is not offered" % v))
    return out


def eval_state(case, stats=None):
    """contracts on a reachable state: frontier (get_schedulable_tasks), get_releasable_tasks,
    is_complete.  case['checks'] selects; case['queries'] optionally restricts the frontier calls."""
    n, edges, flags, targets = case["n"], case["edges"], case["flags"], case["targets"]
    par, chl = rel_maps(n, edges)
    try:
        built = drive(n, edges, flags, targets, case.get("probs"), case.get("seeds"))
    except Exception as e:  # only legal lifecycle calls are made while building the state
        return [("build.legal_call_rejected", "%r while building targets=%s edges=%s flags=%s" % (e, targets, edges, flags))], False, 1
    if built is None:
        return None
    g, tasks, now, planning = built
    st = [t.state for t in tasks]
    rel = [t.release_time.time for t in tasks]
    head = "edges=%s flags=%s probs=%s state=%s now=%d%s" % (
        edges, flags, [t.probability for t in tasks], names(st), now, " (plan-ahead history)" if planning else "")
    out = []
    nq = 0

    def bump(name, k=1):
        if stats is not None:
            stats[name] = stats.get(name, 0) + k

    checks = case["checks"]
    if "is_complete" in checks:
        bump("TaskGraph.is_complete")
        sinks = [v for v in range(n) if not chl[v]]
        want = all(st[v] == C_ for v in sinks)
        got = g.is_complete()
        if got != want:
            out.append(("taskgraph.is_complete_mismatch", "is_complete()=%r but sinks %s all COMPLETED is %r. %s" % (got, sinks, want, head)))
    if "releasable" in checks:
        via = bool(case.get("via_workload"))
        bump("Workload.get_releasable_tasks" if via else "TaskGraph.get_releasable_tasks")
        res = (Workload.from_task_graphs({"G": g}) if via else g).get_releasable_tasks()
        got = [idx_of(t) for t in res]
        for v in range(n):
            alld = all(st[p] == C_ for p in par[v])
            if v in got:
                if st[v] in (R_, U_, C_, X_):
                    out.append(("releasable.offers_unreleasable_state", "N%d is %s. got %s. %s" % (v, st[v].name, got, head)))
                elif not alld and not (flags[v] == "t" and any(st[p] == C_ for p in par[v])):
                    out.append(("releasable.offers_task_with_incomplete_parent", "N%d. got %s. %s" % (v, got, head)))
            elif st[v] == V_ and alld:
                out.append(("releasable.missing_unlocked_task", "VIRTUAL N%d has no incomplete parent. got %s. %s" % (v, got, head)))
    if "frontier" in checks:
        has_cond = "c" in flags
        transient = any(st[v] == V_ and par[v] and parents_done(st, par, flags, v) for v in range(n))
        queries = case.get("queries")
        if queries is None:
            pols = case.get("policies") or (["ALL", "BEST", "WORST", "MAX", "RANDOM"] if has_cond else ["ALL"])
            queries = [(dt, L, pre, ret, rtg, pol)
                       for dt in ((0,) if transient else (0, 3))
                       for pol in pols for pre in (False, True) for ret in (False, True)
                       for rtg in (False, True) for L in LOOKAHEADS]
        target = g
        fname = "TaskGraph.get_schedulable_tasks"
        if case.get("via_workload"):
            target = getattr(g, "_verif_workload", None) or Workload.from_task_graphs({"G": g})
            fname = "Workload.get_schedulable_tasks"
        offers = {}
        for q in queries:
            dt, L, pre, ret, rtg, pol = q
            time = now + dt
            if pol == "RANDOM":
                random.seed(1000 + L)
            nq += 1
            qs = "time=%d lookahead=%d preemption=%r retract_schedules=%r policy=%s release_taskgraphs=%r" % (time, L, pre, ret, pol, rtg)
            try:
                res = target.get_schedulable_tasks(T(time), T(L), pre, ret, None, POLICY[pol], 0.5, rtg)
            except Exception as e:
                out.append(("frontier.raised", "%r. %s %s" % (e, qs, head), {"queries": [q]}))
                continue
            offer = [idx_of(t) for t in res]
            offers[q] = set(offer)
            for vid, text in frontier_clauses(n, par, flags, st, rel, time, L, pre, ret, rtg, offer, not planning, pol):
                out.append((vid, "%s; offer=%s. %s %s" % (text, offer, qs, head), {"queries": [q]}))
        bump(fname, nq)
        for q, off in offers.items():
            dt, L, pre, ret, rtg, pol = q
            if pol == "RANDOM":
                continue
            for L2 in LOOKAHEADS:
                q2 = (dt, L2, pre, ret, rtg, pol)
                if L2 > L and q2 in offers and not off <= offers[q2]:
                    out.append(("frontier.not_monotone_lookahead",
                                "offer(lookahead=%d)=%s not within offer(lookahead=%d)=%s; dt=%d preemption=%r retract=%r rtg=%r policy=%s. %s"
                                % (L, sorted(off), L2, sorted(offers[q2]), dt, pre, ret, rtg, pol, head), {"queries": [q, q2]}))
            q3 = (dt, L, pre, ret, True, pol)
            if not rtg and q3 in offers and not off <= offers[q3]:
                out.append(("frontier.not_monotone_release_taskgraphs",
                            "offer(release_taskgraphs=False)=%s not within offer(True)=%s; dt=%d L=%d preemption=%r retract=%r policy=%s. %s"
                            % (sorted(off), sorted(offers[q3]), dt, L, pre, ret, pol, head), {"queries": [q, q3]}))
    live = any(s in (V_, R_, S_, U_) for s in st)
    return out, (bool(edges) and live), max(nq, 1)


# ----------------------------------------------------------------------------------------- (e1)
ACTIONS = ("release_t", "release_none", "release_bad", "schedule", "unschedule", "start_t",
           "start_bad", "step_full", "step_part", "preempt", "resume", "finish", "cancel",
           "cancel_bad", "zero_remaining")
# transitions the statement allows (+ the repository's extra PREEMPTED/EVICTED states)
ALLOWED = set([
    ("VIRTUAL", "RELEASED"), ("VIRTUAL", "SCHEDULED"), ("RELEASED", "SCHEDULED"),
    ("SCHEDULED", "RUNNING"), ("SCHEDULED", "VIRTUAL"), ("SCHEDULED", "RELEASED"),
    ("RUNNING", "COMPLETED"), ("VIRTUAL", "CANCELLED"), ("RELEASED", "CANCELLED"),
    ("SCHEDULED", "CANCELLED"),
    ("RUNNING", "PREEMPTED"), ("PREEMPTED", "RUNNING"), ("RUNNING", "EVICTED"),
    ("PREEMPTED", "EVICTED"), ("PREEMPTED", "SCHEDULED"), ("PREEMPTED", "COMPLETED"),
])
# method -> {pre-state: allowed post-states}; absent pre-state = the call must be rejected
LEGAL = {
    "release": {"VIRTUAL": ["RELEASED"], "SCHEDULED": ["SCHEDULED"], "PREEMPTED": ["PREEMPTED"]},
    "schedule": {"VIRTUAL": ["SCHEDULED"], "RELEASED": ["SCHEDULED"], "SCHEDULED": ["SCHEDULED"], "PREEMPTED": ["SCHEDULED"]},
    "unschedule": {"SCHEDULED": ["VIRTUAL", "RELEASED"]},
    "start": {"SCHEDULED": ["RUNNING"]},
    "preempt": {"RUNNING": ["PREEMPTED"]},
    "resume": {"PREEMPTED": ["RUNNING"]},
    "finish": {"RUNNING": ["COMPLETED", "EVICTED"], "PREEMPTED": ["COMPLETED", "EVICTED"]},
    "cancel": {"VIRTUAL": ["CANCELLED"], "RELEASED": ["CANCELLED"], "SCHEDULED": ["CANCELLED"]},
}


def eval_lifecycle(case, stats=None):
    """drive one fresh Task through a sequence of calls; every observed transition must be in the
    allowed relation, final states are never left, rejected calls change nothing"""
    seq = case["seq"]
    t = Task(name="L", task_graph="G", job=mk_job("L", False, False, 1.0), deadline=T(10**6),
             timestamp=0, _logger=_LOG)
    out = []
    clock = 0
    was_released_state = False
    released_while_scheduled = False
    has_release_time = False
    moved = False
    trace = []
    for a in seq:
        name = ACTIONS[a]
        clock += 1
        pre = t.state.name
        method = name.split("_")[0]
        badarg = name.endswith("_bad") or (name == "release_none" and not has_release_time)
        raised = None
        try:
            if name == "release_t":
                t.release(T(clock))
            elif name == "release_none":
                t.release()
            elif name == "release_bad":
                t.release(5)
            elif name == "schedule":
                t.schedule(T(clock), placement_for(t, clock))
            elif name == "unschedule":
                t.unschedule(T(clock))
            elif name == "start_t":
                t.start(T(clock))
            elif name == "start_bad":
                t.start(5)
            elif name == "step_full":
                t.step(T(clock), T(10 * RT))
            elif name == "step_part":
                t.step(T(clock), T(1))
            elif name == "preempt":
                t.preempt(T(clock))
            elif name == "resume":
                t.resume(T(clock))
            elif name == "finish":
                t.finish(T(clock))
            elif name == "cancel":
                t.cancel(T(clock))
            elif name == "cancel_bad":
                t.cancel(5)
            elif name == "zero_remaining":
                t.update_remaining_time(T(0))
        except Exception as e:
            raised = e
        if stats is not None:
            stats["Task." + ("update_remaining_time" if method == "zero" else method)] = stats.get(
                "Task." + ("update_remaining_time" if method == "zero" else method), 0) + 1
        post = t.state.name
        trace.append("%s:%s->%s%s" % (name, pre, post, "!" if raised is not None else ""))
        ctx = "calls on a fresh task: " + " ".join(trace)
        if post != pre:
            moved = True
            if pre in ("COMPLETED", "CANCELLED"):
                out.append(("lifecycle.final_state_left." + pre.lower(), ctx))
            elif (pre, post) not in ALLOWED:
                out.append(("lifecycle.illegal_transition.%s_to_%s" % (pre.lower(), post.lower()), ctx))
        if method in LEGAL:
            posts = LEGAL[method].get(pre)
            if badarg or posts is None:
                if post != pre:
                    out.append(("lifecycle.rejected_call_changed_state." + method, ctx))
                elif raised is None:
                    out.append(("lifecycle.illegal_call_not_rejected." + method, "state %s. %s" % (pre, ctx)))
            else:
                if raised is not None:
                    out.append(("lifecycle.legal_call_rejected.%s.from_%s" % (method, pre.lower()), "%r. %s" % (raised, ctx)))
                elif post not in posts:
                    out.append(("lifecycle.wrong_target_state.%s.%s_to_%s" % (method, pre.lower(), post.lower()), ctx))
                elif method == "unschedule":
                    if was_released_state and post != "RELEASED":
                        out.append(("lifecycle.unschedule_forgets_release", "a task that was RELEASED fell back to %s. %s" % (post, ctx)))
                    if not was_released_state and not released_while_scheduled and post != "VIRTUAL":
                        out.append(("lifecycle.unschedule_invents_release", ctx))
        else:  # step / update_remaining_time never move the state
            if post != pre:
                out.append(("lifecycle.state_changed_by." + method, ctx))
        if raised is None and name == "release_t" and pre in ("VIRTUAL", "SCHEDULED", "PREEMPTED"):
            has_release_time = True
            if pre == "SCHEDULED":
                released_while_scheduled = True
        if post == "RELEASED":
            was_released_state = True
        if pre == "SCHEDULED" and post != "SCHEDULED":
            released_while_scheduled = False
    return out, moved


# ------------------------------------------------------------------------------------------ (f)
# job-graph shapes: (names, edges, conditionals, joins); weights are given per child of a conditional
SHAPES = {
    "pair2": (["src", "c", "a", "b", "j", "snk"],
              [("src", "c"), ("c", "a"), ("c", "b"), ("a", "j"), ("b", "j"), ("j", "snk")], ["c"], ["j"]),
    "pair3": (["c", "a", "b", "d", "j"],
              [("c", "a"), ("c", "b"), ("c", "d"), ("a", "j"), ("b", "j"), ("d", "j")], ["c"], ["j"]),
    "long2": (["c", "a", "a2", "b", "b2", "j", "snk"],
              [("c", "a"), ("c", "b"), ("a", "a2"), ("b", "b2"), ("a2", "j"), ("b2", "j"), ("j", "snk")], ["c"], ["j"]),
    "seq": (["c1", "a", "b", "j1", "c2", "d", "e", "j2"],
            [("c1", "a"), ("c1", "b"), ("a", "j1"), ("b", "j1"), ("j1", "c2"), ("c2", "d"), ("c2", "e"), ("d", "j2"), ("e", "j2")],
            ["c1", "c2"], ["j1", "j2"]),
    "par": (["src", "c1", "a", "b", "j1", "c2", "d", "e", "j2", "snk"],
            [("src", "c1"), ("src", "c2"), ("c1", "a"), ("c1", "b"), ("a", "j1"), ("b", "j1"),
             ("c2", "d"), ("c2", "e"), ("d", "j2"), ("e", "j2"), ("j1", "snk"), ("j2", "snk")],
            ["c1", "c2"], ["j1", "j2"]),
    "nest": (["c1", "a", "c2", "d", "e", "j2", "j1"],
             [("c1", "a"), ("c1", "c2"), ("c2", "d"), ("c2", "e"), ("d", "j2"), ("e", "j2"), ("j2", "j1"), ("a", "j1")],
             ["c1", "c2"], ["j1", "j2"]),
}


def eval_resolve(case, stats=None):
    """resolution at submission (JobGraph -> TaskGraph with resolve_conditionals_at_submission),
    then a run of the task graph through the real release / completion protocol"""
    nm, edges, conds, joins = SHAPES[case["shape"]]
    weights = case["weights"]
    jobs = {}
    for x in nm:
        prof = WorkProfile(name=x + "_wp", execution_strategies=ExecutionStrategies(strategies=[
            ExecutionStrategy(resources=Resources(resource_vector={Resource(name="CPU", _id="any"): 1}),
                              batch_size=1, runtime=T(RT))]))
        jobs[x] = Job(name=x, profile=prof, conditional=x in conds, terminal=x in joins,
                      probability=weights.get(x, 1.0))
    order = case.get("order") or nm
    mapping = {}
    for x in order:
        mapping[jobs[x]] = [jobs[b] for a, b in edges if a == x]
    fl = types.SimpleNamespace(
        min_deadline_variance=0, max_deadline_variance=0, min_deadline=0, max_deadline=sys.maxsize,
        use_branch_predicated_deadlines=False, resolve_conditionals_at_submission=case["resolve"],
        log_dir=None, log_file_name=None, log_level="info", decompose_deadlines=False, random_seed=0)
    jg = JobGraph(name="JG", jobs=mapping, completion_time=T(1000),
                  release_policy=JobGraph.ReleasePolicy.fixed(period=T(50), num_invocations=2))
    try:
        if case["route"] == "next":
            graphs = [jg.get_next_task_graph(T(0), _flags=fl), jg.get_next_task_graph(T(7), _flags=fl)]
            fn = "JobGraph.get_next_task_graph"
        else:
            graphs = list(jg.generate_task_graphs(T(1000), _flags=fl).values())
            fn = "JobGraph.generate_task_graphs"
    except Exception as e:
        return [("resolve.generation_raised", "%r. shape=%s weights=%s resolve=%r route=%s" % (
            e, case["shape"], weights, case["resolve"], case["route"]))], True
    if stats is not None:
        stats[fn] = stats.get(fn, 0) + 1
        stats["JobGraph._generate_task_graph"] = stats.get("JobGraph._generate_task_graph", 0) + len(graphs)
    par = dict((x, [a for a, b in edges if b == x]) for x in nm)
    chl = dict((x, [b for a, b in edges if a == x]) for x in nm)
    out = []
    for gi, tg in enumerate(graphs):
        tk = dict((x, tg.get_task(x)) for x in nm)
        probs0 = dict((x, tk[x].probability) for x in nm)
        head = "shape=%s weights=%s resolve=%r route=%s graph#%d probabilities after submission=%s" % (
            case["shape"], weights, case["resolve"], case["route"], gi, probs0)
        random.seed(case["seed"] * 7 + gi)
        clock = 0
        resolved = {}
        ran = []
        pending = list(tg.get_releasable_tasks())
        for t in pending:
            t.release(T(clock))
        guard = 0
        while pending and guard < 100:
            guard += 1
            t = pending.pop(0)
            if t.state != R_:
                continue
            x = t.name
            if x in conds:
                one = [c for c in chl[x] if abs(tk[c].probability - 1.0) < EPS]
                zero = [c for c in chl[x] if tk[c].probability < EPS]
                if case["resolve"]:
                    if len(one) != 1 or len(zero) != len(chl[x]) - 1:
                        out.append(("resolve.not_exactly_one_child_resolved",
                                    "conditional %s runs, children probabilities %s. %s" % (x, [(c, tk[c].probability) for c in chl[x]], head)))
                    else:
                        resolved[x] = one[0]
            t.schedule(T(clock), placement_for(t, clock))
            t.start(T(clock))
            t.step(T(clock), T(RT))
            clock += RT
            t.finish(T(clock))
            ran.append(x)
            try:
                rel, can = tg.notify_task_completion(t, T(clock))
            except Exception as e:
                out.append(("resolve.run_raised", "completion of %s raised %r. %s" % (x, e, head)))
                break
            if stats is not None:
                stats["TaskGraph.notify_task_completion"] = stats.get("TaskGraph.notify_task_completion", 0) + 1
            reln = [r.name for r in rel]
            if x in conds:
                if len(reln) != 1 or reln[0] not in chl[x]:
                    out.append(("resolve.conditional_not_exactly_one_released", "%s released %s. %s" % (x, reln, head)))
                elif x in resolved and reln[0] != resolved[x]:
                    out.append(("resolve.released_child_differs_from_resolved",
                                "%s was resolved to %s at submission but %s is released at run time. %s" % (x, resolved[x], reln[0], head)))
                taken = reln[0] if len(reln) == 1 else None
                resolved.setdefault(x, taken)
            for r in rel:
                if r.state in (V_, S_):
                    r.release(T(clock))
                    pending.append(r)
        # spec: which jobs run, given the branch taken at each conditional that ran
        expect = []
        for x in [nm[i] for i in topo_order(len(nm), [(nm.index(a), nm.index(b)) for a, b in edges])]:
            ps = par[x]
            live = [p for p in ps if p in expect and (p not in conds or resolved.get(p) == x)]
            if not ps or (x in joins and live) or (x not in joins and len(live) == len(ps)):
                expect.append(x)
        final = dict((x, tk[x].state) for x in nm)
        fin = " final=%s ran=%s contract-run-set=%s. " % (dict((k, v.name) for k, v in final.items()), ran, expect)
        for x in nm:
            if x in expect and final[x] != C_:
                out.append(("resolve.expected_task_did_not_run", x + fin + head))
            if x not in expect and x in ran:
                out.append(("resolve.untaken_task_ran", x + fin + head))
            if x not in expect and x not in ran and final[x] != X_:
                idx = dict((y, i) for i, y in enumerate(nm))
                n = len(nm)
                ipar, ichl = rel_maps(n, [(idx[a], idx[b]) for a, b in edges])
                fl2 = "".join("c" if y in conds else "t" if y in joins else "p" for y in nm)
                starts = [idx[c] for cnd in conds if cnd in ran for c in chl[cnd] if c != resolved.get(cnd) and c not in joins]
                simple = cascade_simple(n, ipar, ichl, fl2, set(), starts)
                out.append(("resolve.untaken_task_not_cancelled" if simple else "cancel.cascade_incomplete.via_resolved_run",
                            "%s is on a branch not taken but ends %s." % (x, final[x].name) + fin + head))
        if not tg.is_complete():
            out.append(("resolve.graph_did_not_finish", fin + head))
    return out, True


SHARED = [T, mk_job, rel_maps, topo_order, mk_graph, placement_for, idx_of, parents_done, drive,
          closure_spec, cascade_simple, names, realize_marks, eval_cancel, eval_notify, unlocked,
          frontier_clauses, eval_state, eval_lifecycle, eval_resolve]
SHARED_CONSTS = '''FUTURE = 500
POLICY = {"ALL": BranchPredictionPolicy.ALL, "BEST": BranchPredictionPolicy.BEST_CASE,
          "WORST": BranchPredictionPolicy.WORST_CASE, "MAX": BranchPredictionPolicy.MAXIMUM,
          "RANDOM": BranchPredictionPolicy.RANDOM}
LOOKAHEADS = (0, 12, 1000)
'''
EVALS = {"cancel": eval_cancel, "notify": eval_notify, "state": eval_state,
         "lifecycle": eval_lifecycle, "resolve": eval_resolve}


def make_replay(kind, case, vid):
    src = [REPLAY_HEAD, SHARED_CONSTS]
    src.append("ACTIONS = %r\n" % (ACTIONS,))
    src.append(_source_of_constants())
    for fn in SHARED:
        src.append(inspect.getsource(fn))
    src.append("\nCASE = %r\nVID = %r\n" % (case, vid))
    src.append(
        "res = eval_%s(CASE)\n"
        "viol = res[0] if res is not None else []\n"
        "hit = [x for x in viol if x[0] == VID]\n"
        "print('case:', CASE)\n"
        "for x in (hit or viol)[:6]:\n"
        "    print('VIOLATION', x[0], '--', x[1])\n"
        "if not hit:\n"
        "    print('contract', VID, 'holds on this input')\n"
        "sys.exit(1 if hit else 0)\n" % kind
    )
    return "\n".join(src)


def _source_of_constants():
    """ALLOWED / LEGAL / SHAPES as source text (copied verbatim from this file)"""
    text = open(os.path.abspath(__file__)).read()
    out = []
    for start in ("SHAPES = {",):
        i = text.index("\n" + start) + 1
        j = text.index("\n}\n", i)
        out.append(text[i:j + 3])
    out.append("ALLOWED = %r\nLEGAL = %r\n" % (ALLOWED, LEGAL))
    return "\n".join(out)


# ---------------------------------------------------------------------------------------------
# Enumeration
# ---------------------------------------------------------------------------------------------
def topo_dags(n):
    pairs = [(i, j) for i in range(n) for j in range(i + 1, n)]
    for mask in range(1 << len(pairs)):
        yield tuple(p for k, p in enumerate(pairs) if mask >> k & 1)


def labelled_dags(n):
    seen = set()
    for e in topo_dags(n):
        for perm in itertools.permutations(range(n)):
            f = tuple(sorted((perm[a], perm[b]) for a, b in e))
            seen.add(f)
    return sorted(seen)


def flag_strings(n, edges, kinds="ct", maxflag=2):
    par, chl = rel_maps(n, edges)
    opts = []
    for v in range(n):
        o = ["p"]
        if "c" in kinds and len(chl[v]) >= 2:
            o.append("c")
        if "t" in kinds and par[v]:
            o.append("t")
        opts.append(o)
    for combo in itertools.product(*opts):
        if sum(1 for x in combo if x != "p") <= maxflag:
            yield "".join(combo)


def target_vectors(n, edges, flags, alphabet="VRSUCX"):
    """target vectors that pass the statement-level reachability filter (a task is RELEASED /
    RUNNING / COMPLETED only when its inputs are available; a completed conditional leaves at most
    one child alive).  drive() still rejects what the real protocol cannot reach."""
    par, chl = rel_maps(n, edges)
    order = topo_order(n, edges)
    res = []
    cur = [None] * n

    def rec(k):
        if k == n:
            for c in range(n):
                if flags[c] == "c" and cur[c] == "C" and sum(1 for x in chl[c] if cur[x] != "X") > 1:
                    return
            res.append("".join(cur))
            return
        v = order[k]
        if not par[v]:
            ok = True
        else:
            done = [cur[p] == "C" for p in par[v]]
            ok = any(done) if flags[v] == "t" else all(done)
        for a in alphabet:
            if a in "RUC" and not ok:
                continue
            cur[v] = a
            rec(k + 1)
        cur[v] = None

    rec(0)
    return res


def plan_probs(n, edges, flags, targets, variant):
    """probabilities of the children of conditionals (and, for weighted draws, the random seed that
    makes random.choices pick the branch the target vector keeps alive)"""
    par, chl = rel_maps(n, edges)
    probs = [1.0] * n
    seeds = {}
    assigned = set()
    frac = {1: [1.0], 2: [0.3, 0.7], 3: [0.2, 0.3, 0.5], 4: [0.1, 0.2, 0.3, 0.4]}
    for c in range(n):
        if flags[c] != "c" or not chl[c]:
            continue
        ch = chl[c]
        if any(x in assigned for x in ch):
            continue
        assigned.update(ch)
        k = len(ch)
        want = None
        if targets[c] == "C":
            alive = [x for x in ch if targets[x] != "X"]
            want = alive[0] if alive else ch[0]
        if variant == "resolved" and want is not None:
            for x in ch:
                probs[x] = 1.0 if x == want else 0.0
        else:
            for x, p in zip(ch, frac[k]):
                probs[x] = p
            if want is not None:
                for s in range(200):
                    random.seed(s)
                    if random.choices(range(k), weights=frac[k], k=1)[0] == ch.index(want):
                        seeds[c] = s
                        break
    return probs, seeds


def mark_vectors(n, edges, flags, alphabet):
    """spec-consistent marks for the cancel check: reachability as in target_vectors plus a closed
    cancelled set (a non-join with a cancelled parent, or a join whose parents are all cancelled,
    is itself cancelled)"""
    par, chl = rel_maps(n, edges)
    res = []
    for tv in target_vectors(n, edges, flags, alphabet):
        good = True
        for v in range(n):
            if tv[v] == "X" or not par[v]:
                continue
            px = [tv[p] == "X" for p in par[v]]
            if (flags[v] == "t" and all(px)) or (flags[v] != "t" and any(px)):
                good = False
                break
        if good:
            res.append(tv)
    return res


def relevant_for_cancel(n, edges, start=0, flags=None):
    """every node is the start, a descendant of it, or a parent of a descendant (with flags: of a
    descendant that is a join -- the state of other outside parents cannot matter to the contract)"""
    par, chl = rel_maps(n, edges)
    desc = set()
    stack = [start]
    while stack:
        m = stack.pop()
        for c in chl[m]:
            if c not in desc:
                desc.add(c)
                stack.append(c)
    keep = set([start]) | desc
    for d in desc:
        if flags is None or flags[d] == "t":
            keep.update(par[d])
    return len(keep) == n


# ---------------------------------------------------------------------------------------------
# Work items (one per (check, dag, flags)); executed in worker processes
# ---------------------------------------------------------------------------------------------
def _h(*parts):
    return int(hashlib.blake2b(repr(parts).encode(), digest_size=8).hexdigest(), 16)


class Acc:
    def __init__(self):
        self.evals = 0
        self.distinct = 0
        self.infeasible = 0
        self.calls = {}
        self.viol = {}  # id -> [what, kind, case, count]
        self.samples = []

    def add(self, kind, case, res, weight=1, nontrivial=True):
        self.evals += weight
        if nontrivial:
            self.distinct += weight
        if len(self.samples) < 2:
            self.samples.append({kind: case})
        for rec in res:
            vid, what = rec[0], rec[1]
            if vid in self.viol:
                self.viol[vid][3] += 1
            else:
                # rec[2] (optional) narrows the case for the replay, e.g. to the failing query
                self.viol[vid] = [what, kind, dict(case, **rec[2]) if len(rec) > 2 else case, 1]


def work_cancel(item, acc, base_seed):
    """mode 'full': every start, alphabet VRSUCX; mode 'start0': cancel(N0) only (w.l.o.g. under
    relabelling), alphabet VRSUCX; mode 'n5': cancel(N0), alphabet VRCX (+ SCHEDULED start)"""
    n, edges, mode, flags = item["n"], item["edges"], item["mode"], item["flags"]
    alphabet = "VRCX" if mode == "n5" else "VRSUCX"
    for marks in mark_vectors(n, edges, flags, alphabet):
        starts = range(n) if mode == "full" else [0]
        for s in starts:
            if marks[s] not in "VRS":
                continue
            variants = [marks]
            if mode == "n5" and marks[s] != "S":
                variants.append(marks[:s] + "S" + marks[s + 1:])
            for mk in variants:
                case = {"n": n, "edges": list(edges), "flags": flags, "marks": mk, "start": s}
                random.seed(_h(base_seed, "cancel", n, edges, flags, mk, s))
                res, size = eval_cancel(case, acc.calls)
                acc.add("cancel", case, res, 1, size >= 2)


def work_states(item, acc, base_seed):
    """checks (b) (c) (d) (e2) share the reachable-state enumeration"""
    n, edges, checks, flags = item["n"], item["edges"], item["checks"], item["flags"]
    stride = item.get("stride", 1)
    allpol = item.get("allpol", False)
    others = ["BEST", "WORST", "MAX", "RANDOM"]
    for targets in target_vectors(n, edges, flags):
        # 'resolved' (0/1 weights, as after resolution at submission) differs from 'weighted'
        # only when some conditional completes in the history
        drawn = any(flags[c] == "c" and targets[c] == "C" for c in range(n))
        for variant in (["resolved", "weighted"] if drawn else ["weighted"]):
            hv = _h(base_seed, n, edges, flags, targets, variant)
            if stride > 1 and hv % stride:
                continue
            probs, seeds = plan_probs(n, edges, flags, targets, variant)
            base = {"n": n, "edges": list(edges), "flags": flags, "targets": targets,
                    "probs": probs, "seeds": seeds}
            st_checks = [c for c in checks if c != "notify"]
            if st_checks:
                case = dict(base, checks=st_checks)
                if "frontier" in st_checks and "c" in flags:
                    k = (hv // 7) % 4
                    case["policies"] = ["ALL"] + (others if allpol else [others[k], others[(k + 1) % 4]])
                if hv % 7 == 0:
                    case["via_workload"] = True
                random.seed(_h(base_seed, "state", n, edges, flags, targets, variant))
                r = eval_state(case, acc.calls)
                if r is None:
                    acc.infeasible += 1
                else:
                    acc.add("state", case, r[0], r[2], r[1])
            if "notify" in checks:
                for v in range(n):
                    if targets[v] != "U":
                        continue
                    for case in notify_cases(base, v):
                        random.seed(_h(base_seed, "notify", n, edges, flags, targets, variant, v, case.get("seed"), tuple(case["probs"])))
                        r = eval_notify(case, acc.calls)
                        if r is None:
                            acc.infeasible += 1
                        else:
                            acc.add("notify", case, r[0], 1, r[1])


WEIGHTS = {
    2: [(0.0, 1.0), (1.0, 0.0), (0.3, 0.7), (0.7, 0.3), (0.0, 0.0)],
    3: [(0.3, 0.7, 0.0), (0.0, 0.3, 0.7), (0.7, 0.0, 0.3), (0.0, 0.0, 1.0), (1.0, 0.0, 0.0), (0.0, 0.0, 0.0), (0.3, 0.0, 0.7)],
}


def notify_cases(base, v):
    n, edges, flags = base["n"], base["edges"], base["flags"]
    par, chl = rel_maps(n, edges)
    if flags[v] != "c" or not chl[v]:
        c = dict(base, v=v)
        if _h("nw", v, base["targets"]) % 5 == 0:
            c["via_workload"] = True
        yield c
        return
    for wv in WEIGHTS[len(chl[v])]:
        probs = list(base["probs"])
        for c, p in zip(chl[v], wv):
            probs[c] = p
        for seed in (0, 1, 2):
            if seed and (max(wv) == 1.0 or max(wv) == 0.0):
                continue
            yield dict(base, v=v, probs=probs, seed=seed)


def work_lifecycle(item, acc, base_seed):
    prefix, length = item["prefix"], item["length"]
    for rest in itertools.product(range(len(ACTIONS)), repeat=length - len(prefix)):
        seq = tuple(prefix) + rest
        case = {"seq": seq}
        random.seed(_h(base_seed, "life", seq))
        res, moved = eval_lifecycle(case, acc.calls)
        acc.add("lifecycle", case, res, 1, moved)


def work_resolve(item, acc, base_seed):
    shape = item["shape"]
    nm, edges, conds, joins = SHAPES[shape]
    kids = [b for a, b in edges if a in conds]
    vals = (0.0, 0.3, 0.7, 1.0)
    combos = list(itertools.product(vals, repeat=len(kids)))
    stride = item.get("stride", 1)
    for ci, combo in enumerate(combos):
        if ci % item.get("parts", 1) != item.get("part", 0):
            continue
        if stride > 1 and _h(base_seed, shape, combo) % stride:
            continue
        weights = dict(zip(kids, combo))
        for resolve in (True, False):
            if not resolve:
                # without resolution the run-time draw needs a well-formed distribution
                good = all(abs(sum(weights[b] for a, b in edges if a == c) - 1.0) <= EPS for c in conds)
                if not good:
                    continue
            for route in ("next", "generate"):
                for order in (None, list(reversed(nm))):
                    for seed in (0, 1, 2):
                        case = {"shape": shape, "weights": weights, "resolve": resolve, "route": route,
                                "seed": seed, "order": order}
                        random.seed(_h(base_seed, "resolve", shape, combo, resolve, route, seed, order is None))
                        res, nt = eval_resolve(case, acc.calls)
                        acc.add("resolve", case, res, 1, nt)


WORKERS = {"cancel": work_cancel, "states": work_states, "lifecycle": work_lifecycle, "resolve": work_resolve}


def run_chunk(arg):
    items, base_seed = arg
    quiet_logging()
    acc = Acc()
    t0 = _time.time()
    for item in items:
        WORKERS[item["work"]](item, acc, base_seed)
    return acc.evals, acc.distinct, acc.infeasible, acc.calls, acc.viol, acc.samples, _time.time() - t0


class _Bag:
    """distinct-case counter: work items are disjoint by construction (each case key contains the
    item identity), so the per-item counts add up"""

    def __init__(self):
        self.n = 0

    def add(self, key):
        self.n += 1

    def __len__(self):
        return self.n


def _uneven_join_with_tail(n, edges):
    par, chl = rel_maps(n, edges)
    if sum(1 for v in range(n) if not par[v]) < 2 or any(not par[v] and not chl[v] for v in range(n)):
        return False
    depth = {}
    for v in topo_order(n, edges):
        depth[v] = 1 + max([depth[p] for p in par[v]], default=0)
    return any(len(par[v]) >= 2 and chl[v] and len({depth[p] for p in par[v]}) >= 2 for v in range(n))


def build_items(pid, tier, seed):
    items = []
    rnd = random.Random(seed)
    thorough = tier == "thorough"
    exhaustive = thorough
    dags = {n: labelled_dags(n) for n in (1, 2, 3, 4)}
    topo4 = list(topo_dags(4))
    notes = []

    def add(work, n, es, kinds, **kw):
        for e in es:
            for flags in flag_strings(n, e, kinds):
                if kw.get("mode") in ("start0", "n5") and not relevant_for_cancel(n, e, 0, flags):
                    continue  # same contract instance as a smaller graph
                items.append(dict(kw, work=work, n=n, edges=e, flags=flags))

    if pid in ("C06", "C07"):
        for n in (1, 2, 3):
            add("cancel", n, dags[n], "ct", mode="full")
        d5 = [e for e in labelled_dags(5) if relevant_for_cancel(5, e)]
        if thorough:
            add("cancel", 4, dags[4], "ct", mode="full")
            add("cancel", 5, d5, "t", mode="n5")
            notes.append("cancel: all labelled DAGs <=4 nodes x cond/join flags (<=2) x reachable marks over 6 states x every start; "
                         "all labelled 5-node DAGs x join flags (<=2) in which every node matters to cancel(N0) [start, descendant, or "
                         "parent of a descendant join; %d DAGs] x marks over V/R/C/X (+SCHEDULED start)" % len(d5))
        else:
            d4 = [e for e in dags[4] if relevant_for_cancel(4, e)]
            add("cancel", 4, d4, "t", mode="start0")
            add("cancel", 5, rnd.sample(d5, 500), "t", mode="n5")
            notes.append("cancel: all labelled DAGs <=3 x cond/join flags x marks x every start; all labelled 4-node DAGs x join flags in which every "
                         "node matters to cancel(N0) [%d DAGs]; 500 sampled of %d such 5-node DAGs" % (len(d4), len(d5)))
    if pid == "C06":
        for a in range(len(ACTIONS)):
            for b in range(len(ACTIONS)):
                items.append({"work": "lifecycle", "prefix": (a, b), "length": 5})
        for L in (1, 2, 3, 4):
            items.append({"work": "lifecycle", "prefix": (), "length": L})
        notes.append("lifecycle: all call sequences of length <=5 over %d actions on a fresh task" % len(ACTIONS))
        for n in (1, 2, 3):
            add("states", n, dags[n], "ct", checks=["is_complete"])
        add("states", 4, dags[4] if thorough else topo4, "ct", checks=["is_complete"], stride=1 if thorough else 2)
        notes.append("is_complete: reachable state vectors of labelled DAGs <=3 and %s" % (
            "all labelled 4-node DAGs" if thorough else "1/2 of the states of topologically labelled 4-node DAGs"))
    if pid in ("C07", "C18"):
        for n in (1, 2, 3):
            add("states", n, dags[n], "ct", checks=["notify"])
        add("states", 4, dags[4] if thorough else topo4, "ct", checks=["notify"])
        notes.append("notify: reachable states x running task x child weights x 3 seeds, labelled DAGs <=3 and %s 4-node DAGs" % (
            "labelled" if thorough else "topologically labelled"))
    if pid == "C18":
        for n in (1, 2, 3):
            add("states", n, dags[n], "ct", checks=["frontier", "releasable"], allpol=thorough)
        stride = 2 if thorough else 5
        add("states", 4, dags[4] if thorough else topo4, "ct", checks=["frontier", "releasable"], stride=stride, allpol=thorough)
        notes.append("frontier/releasable: every reachable state of labelled DAGs <=3 x 2 times x lookahead {0,12,1000} x preemption x retraction x "
                     "release_taskgraphs x policies; 4-node %s DAGs: 1/%d of the states (hash-sampled)"
                     % ("labelled" if thorough else "topologically labelled", stride))
        # 5 nodes: a join whose parents lie at different depths below two or more sources, with a task below the join (the
        # estimate of the join is raised after the join was already expanded: seed C18-9); no conditional / terminal flags
        d5u = [e for e in topo_dags(5) if len(e) <= 5 and _uneven_join_with_tail(5, e)]
        add("states", 5, d5u, "", checks=["frontier"], stride=1 if thorough else 2)
        notes.append("frontier on %d topologically labelled 5-node DAGs (<=5 edges, >=2 sources, a join with parents at different depths and a child below it): %s of the reachable states" % (len(d5u), "all" if thorough else "1/2"))
        exhaustive = False
    if pid == "C07":
        for shape in SHAPES:
            k = len([b for a, b in SHAPES[shape][1] if a in SHAPES[shape][2]])
            stride = 1 if (thorough or k <= 3) else 4
            if stride > 1:
                exhaustive = False
            for part in range(8):
                items.append({"work": "resolve", "shape": shape, "stride": stride, "parts": 8, "part": part})
        notes.append("resolution at submission: 6 job-graph shapes (1-2 conditional/join pairs) x child weights in {0,.3,.7,1} x 2 routes x 2 insertion orders x 3 seeds")
    return items, notes, exhaustive


RULES = {
    "C06": "case = (graph, flags, marks, cancelled task) | call sequence | state vector; non-trivial: "
           "the cancellation closure has >=2 members / the sequence moved the task / the graph has an edge and a live task",
    "C07": "case = (graph, flags, marks, cancelled task) | (state, completing task, weights, seed) | "
           "(job-graph shape, weights, route, seed); non-trivial: closure >=2 members / completing task has children / always",
    "C18": "case = (state, completing task) | one frontier call (state, time, lookahead, switches, policy) | "
           "one get_releasable_tasks call; non-trivial: the completing task has children / the graph has an edge and a live task",
}


def _extra(ap):
    ap.add_argument("--only", default="", help="development aid: comma list of cancel,lifecycle,is_complete,notify,frontier,resolve")


def main():
    args = parse_args(_extra)
    quiet_logging()
    if args.pid not in RULES:
        raise SystemExit("taskgraph.py serves C06, C07, C18")
    random.seed(args.seed)
    items, notes, exhaustive = build_items(args.pid, args.tier, args.seed)
    if args.only:
        only = set(args.only.split(","))
        items = [it for it in items if it["work"] in only or (it["work"] == "states" and only & set(it["checks"]))]
        notes.append("RESTRICTED by --only=%s" % args.only)
        exhaustive = False
    R = Result(args, rule=RULES[args.pid], bound="; ".join(notes))
    R.distinct = _Bag()
    # shuffled round-robin into chunks (items differ a lot in cost)
    chunks = {}
    nchunks = max(64, min(3000, len(items) // 6))
    order = list(range(len(items)))
    random.Random(args.seed).shuffle(order)
    for k, i in enumerate(order):
        chunks.setdefault(k % nchunks, []).append(items[i])
    jobs = [(c, args.seed) for c in chunks.values()]
    nproc = min(16, os.cpu_count() or 1)
    infeasible = 0
    merged = {}
    all_samples = []
    import gc

    gc.collect()
    gc.freeze()  # keep the forked workers from copying the parent's heap page by page
    ctx = multiprocessing.get_context("fork")
    with ctx.Pool(nproc) as pool:
        for evals, distinct, infs, calls, viol, samples, secs in pool.imap_unordered(run_chunk, jobs):
            R.evaluations += evals
            R.distinct.n += distinct
            infeasible += infs
            for k, v in calls.items():
                R.called(k, v)
            all_samples.extend(samples)
            for vid, rec in viol.items():
                if vid in merged:
                    merged[vid][3] += rec[3]
                    # keep the smallest witness (deterministic whatever the arrival order)
                    if (len(repr(rec[2])), repr(rec[2])) < (len(repr(merged[vid][2])), repr(merged[vid][2])):
                        merged[vid][0:3] = rec[0:3]
                else:
                    merged[vid] = rec
    for vid in sorted(merged):
        what, kind, case, count = merged[vid]
        R.violation(vid, what, make_replay(kind, case, vid))
        R.violations[vid]["count"] = count
    R.samples = sorted(all_samples, key=lambda x: (len(repr(x)), repr(x)))[-5:]  # deterministic pick
    R.exhaustive = exhaustive
    R.extra["unreachable_state_vectors_skipped"] = infeasible
    R.extra["work_items"] = len(items)
    R.finish()


if __name__ == "__main__":
    main()
