#!/usr/bin/env python3
"""Bounded stand-in for C16 (cross-check of the pyvc proof, gives concrete replays):
 (a) EventTime algebra: all pairs / triples over a value lattice x units {us, ms, s} against microsecond integers;
 (b) EventQueue: operation sequences (add / remove / in-place re-time + reheapify / pop) on the REAL queue against a
     reference model: every pop must be a minimum of the pending events under the documented key
     (time in us, event-type priority), hence pops are non-decreasing.
Protocol: bounded/common.py."""
import itertools
import random
import sys

from bounded.common import Result, parse_args, quiet_logging

CORE = r'''
from utils import EventTime
U = EventTime.Unit
F = {U.US: 1, U.MS: 1000, U.S: 1000000}
UNITS = {"US": U.US, "MS": U.MS, "S": U.S}


def us(t):
    return t.time * F[t.unit]


def mk(v, u):
    return EventTime(v, UNITS[u])


def check_pair(a, b):
    """a, b = (value, unit-name). Returns list of (id, text)."""
    out = []
    x, y = mk(*a), mk(*b)
    ux, uy = us(x), us(y)
    def want(cond, vid, txt):
        if not cond:
            out.append((vid, "%s with a=%r b=%r (us: %d, %d)" % (txt, a, b, ux, uy)))
    want((x == y) == (ux == uy), "time.eq_disagrees", "== disagrees with the microsecond integers")
    want((x != y) == (ux != uy), "time.ne_disagrees", "!= disagrees")
    want((x < y) == (ux < uy), "time.lt_disagrees", "< disagrees")
    want((x <= y) == (ux <= uy), "time.le_disagrees", "<= disagrees")
    want((x > y) == (ux > uy), "time.gt_disagrees", "> disagrees")
    want((x >= y) == (ux >= uy), "time.ge_disagrees", ">= disagrees")
    if ux == uy:
        want(hash(x) == hash(y), "time.hash_disagrees", "equal values hash differently")
    want(us(x + y) == ux + uy, "time.add_loses", "a + b != us(a) + us(b)")
    want(us(x - y) == ux - uy, "time.sub_loses", "a - b != us(a) - us(b)")
    want(us((x - y) + y) == ux, "time.sub_add_not_inverse", "(a - b) + b != a")
    want(min(x, y) == (x if ux <= uy else y) and max(x, y) == (y if ux <= uy else x), "time.minmax_disagrees", "min/max disagree")
    for name, unit in UNITS.items():
        try:
            r = x.to(unit)
            if F[unit] > F[x.unit]:
                out.append(("time.coarsening_not_refused", "%r.to(%s) returned %r instead of raising" % (a, name, (r.time, r.unit))))
            elif us(r) != ux or r.unit != unit:
                out.append(("time.to_changes_value", "%r.to(%s) = %r" % (a, name, (r.time, r.unit))))
        except ValueError:
            if F[unit] <= F[x.unit]:
                out.append(("time.refining_conversion_refused", "%r.to(%s) raised" % (a, name)))
    return out


def check_triple(a, b, c):
    out = []
    x, y, z = mk(*a), mk(*b), mk(*c)
    if x < y and y < z and not (x < z):
        out.append(("time.lt_not_transitive", "%r < %r < %r but not a < c" % (a, b, c)))
    if x == y and y == z and not (x == z):
        out.append(("time.eq_not_transitive", "%r == %r == %r but not a == c" % (a, b, c)))
    if x < y and not ((x + z) < (y + z)):
        out.append(("time.add_not_monotone", "%r < %r but a + c !< b + c for c=%r" % (a, b, c)))
    return out


def run_queue_ops(ops):
    """ops: list of tuples. ('add', key, time_us_or_(v,unit), type_name, task_name|None) | ('remove', key) |
    ('retime', key, (v,unit)) | ('pop',). Returns list of (id, text)."""
    import random as _r
    _r.seed(7)
    from simulator import Event, EventQueue, EventType
    from workload import Job, Task
    q = EventQueue()
    pending = {}
    out = []
    tasks = {}
    def task_of(name):
        if name is None:
            return None
        if name not in tasks:
            tasks[name] = Task(name=name, task_graph="G", job=Job(name=name), deadline=EventTime(10**6, U.US))
        return tasks[name]
    def key(e):
        return (us(e.time), e.event_type.value)
    last = None
    for op in ops:
        if op[0] == "add":
            _, k, tm, ty, tn = op
            kw = {}
            et_ = EventType[ty]
            if tn is not None:
                kw["task"] = task_of(tn)
            if ty in ("TASK_PLACEMENT", "TASK_MIGRATION"):
                from workload import Placement
                kw["placement"] = Placement.create_task_placement(task=task_of(tn), placement_time=mk(*tm), worker_pool_id="p")
            if ty == "TASK_GRAPH_RELEASE":
                kw["task_graph"] = "G"
            e = Event(event_type=et_, time=mk(*tm), **kw)
            pending[k] = e
            q.add_event(e)
        elif op[0] == "remove":
            if op[1] in pending:
                q.remove_event(pending.pop(op[1]))
        elif op[0] == "retime":
            if op[1] in pending:
                # the simulator's discipline at its two re-timing sites: write the key in place, then reheapify
                pending[op[1]]._time = mk(*op[2])
                q.reheapify()
        elif op[0] == "pop":
            if len(q) == 0:
                continue
            e = q.next()
            ks = [k for k, v in pending.items() if v is e]
            if not ks:
                out.append(("queue.pop_returns_unknown_event", "popped an event that is not pending: %r" % (e,)))
                continue
            del pending[ks[0]]
            best = min([key(e)] + [key(v) for v in pending.values()])
            if key(e) != best:
                out.append(("queue.pop_not_minimum", "popped %r (time %dus, priority %d) while an earlier / higher-priority event is pending (key %r); ops=%r" % (ks[0], key(e)[0], key(e)[1], best, ops)))
        if len(q) != len(pending):
            out.append(("queue.length_mismatch", "len(queue)=%d pending=%d after %r" % (len(q), len(pending), op)))
    # drain
    prev = None
    while len(q) > 0:
        e = q.next()
        ks = [k for k, v in pending.items() if v is e]
        if ks:
            del pending[ks[0]]
        if prev is not None and key(e) < prev:
            out.append(("queue.pops_decreasing", "drain popped key %r after %r; ops=%r" % (key(e), prev, ops)))
        prev = key(e)
    return out
'''

exec(CORE)

VALUES = [-2000001, -1000, -1, 0, 1, 2, 999, 1000, 1001, 1500, 999999, 1000000, 2000001]
SMALL = [-1, 0, 1, 2, 3]
UNIT_NAMES = ["US", "MS", "S"]
TYPES = ["TASK_FINISHED", "TASK_RELEASE", "TASK_PLACEMENT", "SCHEDULER_START", "SCHEDULER_FINISHED", "TASK_CANCEL", "UPDATE_WORKLOAD", "SIMULATOR_END"]
TASK_TYPES = {"TASK_FINISHED", "TASK_RELEASE", "TASK_PLACEMENT", "TASK_CANCEL"}


def replay(kind, payload):
    return CORE + "\nimport sys\nr = %s(*%r)\nfor vid, txt in r:\n    print(vid, txt)\nsys.exit(1 if r else 0)\n" % (kind, payload)


def gen_ops(rng, n):
    ops = []
    keys = []
    nk = 0
    for _ in range(n):
        c = rng.random()
        if c < 0.5 or not keys:
            ty = rng.choice(TYPES)
            tm = (rng.choice([0, 1, 2, 3, 5, 8]), rng.choice(UNIT_NAMES)) if rng.random() < 0.3 else (rng.choice([0, 1, 2, 3, 5, 8, 1000, 2000, 3000]), "US")
            tn = rng.choice(["a", "b", "c", "zz"]) if ty in TASK_TYPES else None
            ops.append(("add", nk, tm, ty, tn))
            keys.append(nk)
            nk += 1
        elif c < 0.65:
            ops.append(("remove", rng.choice(keys)))
        elif c < 0.8:
            # re-timing in place bypasses Event.__init__: also with a coarser unit than the queued events use (seed C16-3)
            ops.append(("retime", rng.choice(keys), (rng.choice([0, 1, 2, 3]), rng.choice(["MS", "S"])) if rng.random() < 0.35 else (rng.choice([0, 1, 4, 7, 2500]), "US")))
        else:
            ops.append(("pop",))
    return ops


def main():
    args = parse_args()
    quiet_logging()
    thorough = args.tier == "thorough"
    R = Result(args, rule="(a) every ordered pair of (value, unit) over a value lattice incl. negatives, the -1 marker and unit boundaries; triples over a smaller lattice; non-trivial = mixed units or distinct values. (b) seeded operation sequences on the real EventQueue against a reference model; non-trivial = at least one remove or retime and one pop", bound="")
    pts = [(v, u) for v in (VALUES if thorough else VALUES[1:-1]) for u in UNIT_NAMES]
    for a, b in itertools.product(pts, pts):
        v = check_pair(a, b)
        R.case(("pair", a, b), a != b, sample={"pair": [a, b]} if a[1] != b[1] else None)
        for vid, txt in v:
            R.violation(vid, txt, replay("check_pair", (a, b)))
    small = [(v, u) for v in SMALL for u in UNIT_NAMES]
    for a, b, c in itertools.product(small, small, small):
        v = check_triple(a, b, c)
        R.case(("triple", a, b, c), len({a[1], b[1], c[1]}) > 1)
        for vid, txt in v:
            R.violation(vid, txt, replay("check_triple", (a, b, c)))
    R.called("EventTime.__eq__/__lt__/__add__/__sub__/__hash__/to", len(pts) ** 2)
    rng = random.Random(args.seed)
    nseq = 6000 if thorough else 1200
    for i in range(nseq):
        ops = gen_ops(rng, rng.choice([6, 10, 16, 24] if not thorough else [6, 10, 16, 24, 40]))
        try:
            v = run_queue_ops(ops)
        except Exception as e:  # a crash of the real queue on a legal sequence
            v = [("queue.raised." + type(e).__name__, "%s on ops=%r" % (e, ops))]
        nt = any(o[0] in ("remove", "retime") for o in ops) and any(o[0] == "pop" for o in ops)
        R.case(("ops", tuple(ops)), nt, sample={"ops": ops[:8]} if nt and i < 3 else None)
        for vid, txt in v:
            R.violation(vid, txt, replay("run_queue_ops", (ops,)))
    R.called("EventQueue.add_event/remove_event/reheapify/next", nseq)
    R.exhaustive = False
    R.bound = "%d (value, unit) points -> %d pairs; %d triples; %d queue operation sequences of length 6-%d" % (len(pts), len(pts) ** 2, len(small) ** 3, nseq, 40 if thorough else 24)
    R.finish()


if __name__ == "__main__":
    main()
