"""Bounded stand-in (E2b): end-to-end *small worlds*.

RUNS the real simulator (Simulator.simulate, the real schedulers, workers, workload classes, the
real YAML loader and the project's own CSV reader) on enumerated small worlds and checks the
run-level clauses of C01, C02, C03, C05, C06, C08, C09, C12 against an independent observer that is
written from the property statements:

  * recording wrappers around Task mutators, Worker/WorkerPool place/remove, the event handler and
    scheduler.schedule (installed in the checking process only),
  * the CSV trace captured in memory,
  * the world description (spec) itself: graph structure, capacities, demands, runtimes, deadlines
    are taken from the spec, never from the repository's helpers.

    python bounded/worlds.py --pid C08 --tier quick --seed 0 --out /tmp/x.json

Everything above the END-HARNESS marker is copied verbatim into replay scripts (stand-alone; they
run with PYTHONPATH=repo, cwd=repo).
"""
# ==== BEGIN HARNESS (copied verbatim into replay scripts) ====================================
import collections
import copy as _copy
import hashlib
import json
import logging
import math
import os
import random
import shutil
import signal
import subprocess
import sys
import tempfile
import time
import traceback

REPO = os.environ.get("PYVC_REPO") or (
    os.getcwd() if os.path.exists(os.path.join(os.getcwd(), "simulator.py")) else "/repo"
)
if REPO not in sys.path:
    sys.path.insert(0, REPO)

MAXT = sys.maxsize
WORK_CONSERVING = ("EDF", "FIFO", "LSF")


# ---------------------------------------------------------------------------------------------
# logging: everything silent except the simulator's CSV logger, which is captured in memory
# ---------------------------------------------------------------------------------------------
OBS = None  # the active observation (one run at a time per process)


class _CsvCaptureLogger(logging.Logger):
    """Pre-registered as 'Simulator_CSV' so that utils.setup_csv_logging returns it unchanged.
    It ignores logging.disable() and forwards every formatted row to the active observation."""

    def isEnabledFor(self, level):
        return True

    def handle(self, record):
        o = OBS
        if o is not None:
            o.on_row(record.getMessage())


_LOGGING_READY = False


def setup_logging_capture():
    global _LOGGING_READY
    if _LOGGING_READY:
        return
    old = logging.getLoggerClass()
    logging.setLoggerClass(_CsvCaptureLogger)
    lg = logging.getLogger("Simulator_CSV")
    logging.setLoggerClass(old)
    assert isinstance(lg, _CsvCaptureLogger), "Simulator_CSV logger was created too early"
    lg.addHandler(logging.NullHandler())  # setup_logging() returns early when handlers exist
    lg.propagate = False
    lg.setLevel(logging.DEBUG)
    logging.disable(logging.CRITICAL)
    _LOGGING_READY = True


_REPO_MODS = None


def repo():
    """import the repository lazily (after the logging capture is in place)"""
    global _REPO_MODS
    if _REPO_MODS is None:
        setup_logging_capture()
        import simulator as m_sim
        import utils as m_utils
        import workers as m_workers
        import workload as m_workload
        import schedulers as m_sched
        import data as m_data
        from data.workload_loader import WorkloadLoader
        from data.csv_reader import CSVReader

        ns = type("NS", (), {})()
        ns.sim, ns.utils, ns.workers, ns.workload, ns.sched, ns.data = (
            m_sim, m_utils, m_workers, m_workload, m_sched, m_data)
        ns.WorkloadLoader, ns.CSVReader = WorkloadLoader, CSVReader
        ns.EventTime = m_utils.EventTime
        ns.US = m_utils.EventTime.Unit.US
        _REPO_MODS = ns
        install_wrappers()
    return _REPO_MODS


# ---------------------------------------------------------------------------------------------
# world description helpers (pure data; no repository code)
# ---------------------------------------------------------------------------------------------
def spec_key(spec):
    s = json.dumps(spec, sort_keys=True)
    return "%s:%s" % (spec.get("id", "w"), hashlib.sha1(s.encode()).hexdigest()[:12])


def g_parents(g, i):
    return [a for a, b in g["edges"] if b == i]


def g_children(g, i):
    return [b for a, b in g["edges"] if a == i]


def g_sinks(g):
    return [i for i in range(len(g["tasks"])) if not g_children(g, i)]


def g_sources(g):
    return [i for i in range(len(g["tasks"])) if not g_parents(g, i)]


def g_index(g, name):
    for i, t in enumerate(g["tasks"]):
        if t["name"] == name:
            return i
    raise KeyError(name)


def spec_graph_of(spec, instance_name):
    base = instance_name.split("@")[0]
    for g in spec["graphs"]:
        if g["name"] == base:
            return g
    raise KeyError(instance_name)


def demand_fits(dem, cap):
    return all(cap.get(n, 0) >= q for n, q in dem.items())


def task_fits_empty_cluster(spec, t):
    return any(demand_fits(s["res"], w) for s in t["strategies"] for p in spec["pools"] for w in p)


def expected_release_times(spec, g):
    """release instants of the instances of graph g that the release policy asks for up front
    (closed loop: only the first `concurrency`); written from the policy definitions"""
    r = g["release"]
    pol = r["policy"]
    if pol == "at":
        return [r["time"]]
    if pol == "fixed":
        return [r.get("start", 0) + k * r["period"] for k in range(r["n"])]
    if pol == "periodic":
        out, t = [], r.get("start", 0)
        while t < spec["horizon"]:
            out.append(t)
            t += r["period"]
        return out
    if pol == "closed_loop":
        return [r.get("start", 0)] * min(r["concurrency"], r["n"])
    return None  # random policies


def expected_instances(spec, g):
    r = g["release"]
    if r["policy"] in ("closed_loop", "poisson", "gamma"):
        return r["n"]
    return len(expected_release_times(spec, g))


# ---------------------------------------------------------------------------------------------
# building a world from its spec with the real classes
# ---------------------------------------------------------------------------------------------
def _mk_strategies(R, slist):
    W = R.workload
    out = []
    for s in slist:
        res = W.Resources(
            resource_vector={W.Resource(name=n, _id="any"): q for n, q in sorted(s["res"].items())}
        )
        out.append(W.ExecutionStrategy(resources=res, batch_size=1,
                                       runtime=R.EventTime(s["rt"], R.US)))
    return W.ExecutionStrategies(out)


def _mk_release_policy(R, r):
    RP = R.workload.JobGraph.ReleasePolicy
    ET, US = R.EventTime, R.US
    start = ET(r.get("start", 0), US)
    pol = r["policy"]
    if pol == "fixed":
        return RP.fixed(period=ET(r["period"], US), num_invocations=r["n"], start=start)
    if pol == "periodic":
        return RP.periodic(period=ET(r["period"], US), start=start)
    if pol == "closed_loop":
        return RP.closed_loop(concurrency=r["concurrency"], num_invocations=r["n"], start=start)
    raise ValueError(pol)


def workload_yaml_dict(spec):
    graphs, profiles = [], []
    for g in spec["graphs"]:
        nodes = []
        for i, t in enumerate(g["tasks"]):
            pname = "%s_%s_P" % (g["name"], t["name"])
            profiles.append({
                "name": pname,
                "execution_strategies": [
                    dict({"batch_size": 1, "resource_requirements":
                          {"%s:any" % n: q for n, q in sorted(s["res"].items())}},
                         **({} if s.get("rt_default") else {"runtime": s["rt"]}))
                    for s in t["strategies"]],
            })
            node = {"name": t["name"], "work_profile": pname, "slo": t["slo"]}
            ch = [g["tasks"][j]["name"] for j in g_children(g, i)]
            if ch:
                node["children"] = ch
            if t.get("cond"):
                node["conditional"] = True
            if t.get("term"):
                node["terminal"] = True
            if t.get("prob", 1.0) != 1.0:
                node["probability"] = t["prob"]
            nodes.append(node)
        r = g["release"]
        gd = {"name": g["name"], "graph": nodes, "release_policy": r["policy"]}
        if "start" in r:
            gd["start"] = r["start"]
        for k_spec, k_yaml in (("period", "period"), ("n", "invocations"),
                               ("concurrency", "concurrency"), ("rate", "rate"),
                               ("coefficient", "coefficient")):
            if k_spec in r:
                gd[k_yaml] = r[k_spec]
        if "deadline_variance" in g:
            gd["deadline_variance"] = list(g["deadline_variance"])
        graphs.append(gd)
    return {"graphs": graphs, "profiles": profiles}


def worker_yaml_list(spec):
    out = []
    for p, pool in enumerate(spec["pools"]):
        out.append({"name": "WP%d" % p, "workers": [
            {"name": "W%d_%d" % (p, w), "resources": [{"name": n, "quantity": q}
                                                       for n, q in sorted(cap.items())]}
            for w, cap in enumerate(pool)]})
    return out


def build_workload_loader(R, spec, tmpdir):
    """returns a BaseWorkloadLoader (hand-written subclass, or the real WorkloadLoader on YAML)"""
    W = R.workload
    ET, US = R.EventTime, R.US
    mode = spec["mode"]
    if mode == "yaml":
        import yaml

        path = os.path.join(tmpdir, "workload.yaml")
        with open(path, "w") as f:
            yaml.safe_dump(workload_yaml_dict(spec), f, sort_keys=False)
        return R.WorkloadLoader(path)

    class OneShotLoader(R.data.BaseWorkloadLoader):
        def __init__(self, workload):
            self._w, self._done = workload, False

        def get_next_workload(self, current_time):
            if self._done:
                return None
            self._done = True
            return self._w

    task_logger = logging.getLogger("Task")
    if mode == "hand":
        tgs = {}
        for g in spec["graphs"]:
            rel = g["release"]["time"]
            jg = W.JobGraph(name=g["name"], release_policy=None)
            tasks = []
            for i, t in enumerate(g["tasks"]):
                job = W.Job(
                    name=t["name"],
                    profile=W.WorkProfile(name="%s_%s_P" % (g["name"], t["name"]),
                                          execution_strategies=_mk_strategies(R, t["strategies"])),
                    conditional=bool(t.get("cond")), probability=t.get("prob", 1.0),
                    terminal=bool(t.get("term")))
                tasks.append(W.Task(
                    name=t["name"], task_graph=g["name"], job=job,
                    deadline=ET(rel + t["deadline"], US), timestamp=0,
                    release_time=ET(rel if not g_parents(g, i) else -1, US),
                    _logger=task_logger))
            tgs[g["name"]] = W.TaskGraph(
                name=g["name"],
                tasks={tasks[i]: [tasks[j] for j in g_children(g, i)] for i in range(len(tasks))},
                job_graph=jg)
        return OneShotLoader(W.Workload.from_task_graphs(tgs))
    if mode == "jg":
        jgs = {}
        for g in spec["graphs"]:
            jg = W.JobGraph(name=g["name"], release_policy=_mk_release_policy(R, g["release"]),
                            deadline_variance=(0, 0))
            jobs = []
            for t in g["tasks"]:
                jobs.append(W.Job(
                    name=t["name"],
                    profile=W.WorkProfile(name="%s_%s_P" % (g["name"], t["name"]),
                                          execution_strategies=_mk_strategies(R, t["strategies"])),
                    slo=ET(t["slo"], US), conditional=bool(t.get("cond")),
                    probability=t.get("prob", 1.0), terminal=bool(t.get("term"))))
            for j in jobs:
                jg.add_job(j)
            for a, b in g["edges"]:
                jg.add_child(jobs[a], jobs[b])
            jgs[g["name"]] = jg
        wl = W.Workload.from_job_graphs(jgs)
        wl.populate_task_graphs(completion_time=ET(spec["horizon"], US))
        return OneShotLoader(wl)
    raise ValueError(mode)


def build_cluster(R, spec):
    W, K = R.workload, R.workers
    pools, caps = [], {}
    for p, pool in enumerate(spec["pools"]):
        ws = []
        for w, cap in enumerate(pool):
            wk = K.Worker(name="W%d_%d" % (p, w),
                          resources=W.Resources({W.Resource(name=n): q
                                                 for n, q in sorted(cap.items())}))
            ws.append(wk)
            caps[id(wk)] = dict(cap)
        pools.append(K.WorkerPool(name="WP%d" % p, workers=ws))
    return K.WorkerPools(pools), pools, caps


def build_scheduler(R, spec):
    s = spec["sched"]
    rt = R.EventTime(s["runtime"], R.US)
    if s["name"] == "EDF":
        return R.sched.EDFScheduler(preemptive=False, runtime=rt,
                                    enforce_deadlines=bool(s["enforce"]))
    if s["name"] == "FIFO":
        return R.sched.FIFOScheduler(preemptive=False, runtime=rt,
                                     enforce_deadlines=bool(s["enforce"]))
    if s["name"] == "LSF":
        return R.sched.LSFScheduler(preemptive=False, runtime=rt)
    if s["name"] == "ILP":
        return R.sched.ILPScheduler(preemptive=False, runtime=rt, lookahead=R.EventTime.zero(),
                                    enforce_deadlines=bool(s["enforce"]))
    raise ValueError(s["name"])


# ---------------------------------------------------------------------------------------------
# the observer
# ---------------------------------------------------------------------------------------------
def strategy_demand(strategy):
    """{resource name: quantity} asked for by a strategy (its requirement vector, plain data)"""
    d = collections.Counter()
    for res, q in strategy.resources.resources:
        d[res.name] += q
    return dict(d)


class Obs:
    def __init__(self, spec, wpools, pools, caps):
        self.spec = spec
        self.sim = None
        self.wpools = wpools
        self.pools = pools  # list of real WorkerPool
        self.caps = caps  # id(real worker) -> capacity dict from the spec
        self.real_workers = {}
        self.pool_of_worker = {}
        for p in pools:
            for w in p.workers:
                self.real_workers[id(w)] = w
                self.pool_of_worker[id(w)] = p
        self.real_pools = {id(p): p for p in pools}
        self.shadow = {wid: {} for wid in self.real_workers}  # worker -> {task.id: (task, strat)}
        self._seq = 0
        self.rows = []  # (seq, now, text, extra)
        self.tev = []  # task mutator calls
        self.wev = []  # worker place/remove on real workers
        self.pev = []  # worker pool place_task on real pools
        self.hev = []  # handled events
        self.sched = []  # scheduler invocations
        self.attempts = []  # TASK_PLACEMENT event handlings
        self.calls = collections.Counter()
        self.c01 = []  # violations found on the fly
        self.outcome = None
        self.exc = None
        self.tasks = {}  # task.id -> Task (all tasks that belonged to the workload at the end)
        self.seen_tasks = {}

    def seq(self):
        self._seq += 1
        return self._seq

    def now(self):
        s = self.sim
        if s is None:
            return 0
        t = s._simulator_time
        return t.to(repo().US).time

    # --- CSV rows -------------------------------------------------------------------------
    def on_row(self, text):
        extra = None
        if ",WORKER_POOL_UTILIZATION," in text:
            extra = self.shadow_pool_allocation()
        self.rows.append((self.seq(), self.now(), text, extra))

    def shadow_pool_allocation(self):
        out = {}
        for p in self.pools:
            alloc, cap = collections.Counter(), collections.Counter()
            for w in p.workers:
                for n, q in self.caps[id(w)].items():
                    cap[n] += q
                seen = set()
                for _, (task, strat) in self.shadow[id(w)].items():
                    if type(strat).__name__ == "BatchStrategy":
                        if id(strat) in seen:
                            continue
                        seen.add(id(strat))
                    for n, q in strategy_demand(strat).items():
                        alloc[n] += q
            out[p.id] = (dict(alloc), dict(cap))
        return out

    # --- workers --------------------------------------------------------------------------
    def worker_free(self, w):
        cap = dict(self.caps[id(w)])
        seen = set()
        for _, (task, strat) in self.shadow[id(w)].items():
            if type(strat).__name__ == "BatchStrategy":
                if id(strat) in seen:
                    continue
                seen.add(id(strat))
            for n, q in strategy_demand(strat).items():
                cap[n] = cap.get(n, 0) - q
        return cap

    def pool_can_hold(self, pool, strategy, worker_id=None):
        if strategy is None:
            return None
        dem = strategy_demand(strategy)
        for w in pool.workers:
            if worker_id is not None and w.id != worker_id:
                continue
            if type(strategy).__name__ == "BatchStrategy" and any(
                    st is strategy for _, (_, st) in self.shadow[id(w)].items()):
                return True
            if demand_fits(dem, self.worker_free(w)):
                return True
        return False

    def on_worker_place(self, w, task, strategy):
        now = self.now()
        for wid, sh in self.shadow.items():
            if task.id in sh:
                self.c01.append(("worker.task_resident_on_two_workers" if wid != id(w)
                                 else "worker.task_placed_twice_on_worker",
                                 "t=%d task %s placed on %s while still resident on %s" % (
                                     now, task.unique_name, w.name, self.real_workers[wid].name)))
        self.shadow[id(w)][task.id] = (task, strategy)
        self.wev.append((self.seq(), now, "place", w, task, strategy))
        self.check_capacity(w, now, "place of %s" % task.unique_name)

    def on_worker_remove(self, w, task):
        now = self.now()
        strat = self.shadow[id(w)].pop(task.id, (None, None))[1]
        self.wev.append((self.seq(), now, "remove", w, task, strat))
        self.check_capacity(w, now, "remove of %s" % task.unique_name)

    def check_capacity(self, w, now, what):
        """C01: per resource name, sum of the demands of the strategies of the tasks the real
        worker says are resident (a batch once) <= the capacity the spec gave the worker"""
        cap = self.caps[id(w)]
        total, seen = collections.Counter(), set()
        for task, strat in list(w._placed_tasks.items()):
            if type(strat).__name__ == "BatchStrategy":
                if id(strat) in seen:
                    continue
                seen.add(id(strat))
            for n, q in strategy_demand(strat).items():
                total[n] += q
        for n, q in total.items():
            if q > cap.get(n, 0):
                self.c01.append(("worker.oversubscribed",
                                 "t=%d worker %s resource %s: resident demand %s > capacity %s "
                                 "after %s; residents=%s" % (
                                     now, w.name, n, q, cap.get(n, 0), what,
                                     [(t.unique_name, strategy_demand(s))
                                      for t, s in w._placed_tasks.items()])))
        # a task the real worker holds must not be held by another real worker
        for task in w._placed_tasks:
            for wid, other in self.real_workers.items():
                if wid != id(w) and task in other._placed_tasks:
                    self.c01.append(("worker.task_resident_on_two_workers",
                                     "t=%d task %s resident on %s and %s" % (
                                         now, task.unique_name, w.name, other.name)))

    # --- independent readiness ---------------------------------------------------------------
    def pred_status(self, task):
        """(all_done, any_done, all_done_or_cancelled) over the predecessors named by the spec"""
        try:
            g = spec_graph_of(self.spec, task.task_graph)
            i = g_index(g, task.name)
        except KeyError:
            return None
        pnames = [g["tasks"][j]["name"] for j in g_parents(g, i)]
        fin = self.finished_ids()
        can = self.cancelled_ids()
        st = []
        for n in pnames:
            pt = self.find_task(task.task_graph, n)
            st.append(("done" if pt is not None and pt.id in fin else
                       "cancelled" if pt is not None and pt.id in can else "pending", n))
        return st

    def ready_by_spec(self, task):
        st = self.pred_status(task)
        if st is None:
            return None
        if not st:
            return True
        g = spec_graph_of(self.spec, task.task_graph)
        t = g["tasks"][g_index(g, task.name)]
        if t.get("term"):
            return any(s == "done" for s, _ in st) and all(s != "pending" for s, _ in st)
        return all(s == "done" for s, _ in st)

    def find_task(self, graph_instance, name):
        wl = self.sim._workload if self.sim is not None else None
        if wl is None:
            return None
        tg = wl.get_task_graph(graph_instance)
        if tg is None:
            return None
        for t in tg.get_nodes():
            if t.name == name:
                return t
        return None

    def finished_ids(self):
        return {e[3].id for e in self.tev if e[2] == "finish" and e[7] is None
                and e[5].name == "COMPLETED"}

    def cancelled_ids(self):
        return {e[3].id for e in self.tev if e[2] == "cancel" and e[7] is None}


# ---------------------------------------------------------------------------------------------
# recording wrappers (class level, transparent when no observation is active)
# ---------------------------------------------------------------------------------------------
_WRAPPED = False
TASK_MUTATORS = ("release", "schedule", "unschedule", "start", "finish", "cancel", "preempt",
                 "resume")


def install_wrappers():
    global _WRAPPED
    if _WRAPPED:
        return
    _WRAPPED = True
    R = _REPO_MODS
    Task = R.workload.Task
    Worker, WorkerPool = R.workers.Worker, R.workers.WorkerPool
    Simulator = R.sim.Simulator

    def wrap_task(mname):
        orig = getattr(Task, mname)

        def w(self, *a, **k):
            o = OBS
            if o is None:
                return orig(self, *a, **k)
            o.calls["Task." + mname] += 1
            before = self.state
            now = o.now()
            targ = None
            for x in list(a) + list(k.values()):
                if type(x).__name__ == "EventTime":
                    targ = x.to(R.US).time
                    break
            plc = None
            if mname == "schedule":
                plc = a[1] if len(a) > 1 else k.get("placement")
            o.seen_tasks[self.id] = self
            try:
                r = orig(self, *a, **k)
            except Exception as e:
                o.tev.append((o.seq(), now, mname, self, before, self.state, targ, repr(e), plc))
                raise
            o.tev.append((o.seq(), now, mname, self, before, self.state, targ, None, plc))
            return r

        w.__name__ = mname
        setattr(Task, mname, w)

    for m in TASK_MUTATORS:
        wrap_task(m)

    o_wplace, o_wremove = Worker.place_task, Worker.remove_task

    def w_place(self, task, execution_strategy):
        o = OBS
        if o is None or id(self) not in o.real_workers:
            return o_wplace(self, task, execution_strategy)
        o.calls["Worker.place_task"] += 1
        r = o_wplace(self, task, execution_strategy)
        o.on_worker_place(self, task, execution_strategy)
        return r

    def w_remove(self, current_time, task):
        o = OBS
        if o is None or id(self) not in o.real_workers:
            return o_wremove(self, current_time=current_time, task=task)
        o.calls["Worker.remove_task"] += 1
        r = o_wremove(self, current_time=current_time, task=task)
        o.on_worker_remove(self, task)
        return r

    Worker.place_task, Worker.remove_task = w_place, w_remove

    o_pplace = WorkerPool.place_task

    def p_place(self, task, execution_strategy=None, worker_id=None):
        o = OBS
        if o is None or id(self) not in o.real_pools:
            return o_pplace(self, task, execution_strategy=execution_strategy,
                            worker_id=worker_id)
        o.calls["WorkerPool.place_task"] += 1
        can = o.pool_can_hold(self, execution_strategy, worker_id)
        now = o.now()
        r = o_pplace(self, task, execution_strategy=execution_strategy, worker_id=worker_id)
        o.pev.append((o.seq(), now, self, task, execution_strategy, can, r))
        return r

    WorkerPool.place_task = p_place

    o_handle = Simulator._Simulator__handle_event

    def h_event(self, event):
        o = OBS
        if o is None or o.sim is not self:
            return o_handle(self, event)
        o.calls["Simulator.__handle_event"] += 1
        o.hev.append((o.seq(), event.time.to(R.US).time, event.event_type.name, o.now()))
        return o_handle(self, event)

    Simulator._Simulator__handle_event = h_event

    o_hplace = Simulator._Simulator__handle_task_placement

    def h_place(self, event, workload):
        o = OBS
        if o is None or o.sim is not self:
            return o_hplace(self, event, workload)
        o.calls["Simulator.__handle_task_placement"] += 1
        task, plc = event.task, event.placement
        now = o.now()
        ready = o.ready_by_spec(task)
        pool = self._worker_pools.get_worker_pool(plc.worker_pool_id)
        can = o.pool_can_hold(pool, plc.execution_strategy, plc.worker_id) if pool else None
        before = task.state
        nstart = sum(1 for e in o.tev if e[2] == "start" and e[3] is task and e[7] is None)
        r = o_hplace(self, event, workload)
        nstart2 = sum(1 for e in o.tev if e[2] == "start" and e[3] is task and e[7] is None)
        o.attempts.append((o.seq(), now, task, plc, ready, can, before, nstart2 > nstart))
        return r

    Simulator._Simulator__handle_task_placement = h_place


def wrap_scheduler(o, scheduler):
    R = repo()
    orig = scheduler.schedule
    cname = type(scheduler).__name__

    def sched(sim_time, workload, worker_pools):
        o.calls[cname + ".schedule"] += 1
        now = o.now()
        resident = sum(len(sh) for sh in o.shadow.values())
        pl = orig(sim_time, workload, worker_pools)
        decisions = []
        if pl is not None:
            for p in pl:
                kind = p.placement_type.name
                if kind in ("PLACE_TASK", "CANCEL_TASK"):
                    decisions.append({
                        "kind": kind, "task": p.task, "placed": p.is_placed(),
                        "time": None if p.placement_time is None
                        else p.placement_time.to(R.US).time,
                        "pool": p.worker_pool_id, "worker": p.worker_id,
                        "strategy": p.execution_strategy if kind == "PLACE_TASK" else None,
                        "deadline": p.task.deadline.to(R.US).time,
                        "fastest": min(s.runtime.to(R.US).time
                                       for s in p.task.available_execution_strategies),
                        "state": p.task.state.name,
                    })
                else:
                    decisions.append({"kind": kind})
        o.sched.append({"seq": o.seq(), "now": now, "t": sim_time.to(R.US).time,
                        "decisions": decisions,
                        "runtime": None if pl is None else pl.runtime.to(R.US).time,
                        "resident": resident})
        return pl

    scheduler.schedule = sched


# ---------------------------------------------------------------------------------------------
# running one world
# ---------------------------------------------------------------------------------------------
class RunAlarm(BaseException):
    pass


def _on_alarm(signum, frame):
    raise RunAlarm()


def run_world(spec, alarm=10):
    """build the world from the spec, run Simulator.simulate() under an alarm of `alarm` CPU
    seconds, return the Obs"""
    global OBS
    R = repo()
    random.seed(spec["seed"])
    tmpdir = tempfile.mkdtemp(prefix="bworlds_")
    o = None
    try:
        wpools, pools, caps = build_cluster(R, spec)
        o = Obs(spec, wpools, pools, caps)
        # hang detection counts the CPU time of this process (robust on a loaded machine); a
        # generous wall-clock alarm is the backstop for a run that blocks without using CPU
        old = signal.signal(signal.SIGALRM, _on_alarm)
        old_prof = signal.signal(signal.SIGPROF, _on_alarm)
        if alarm:
            signal.setitimer(signal.ITIMER_PROF, alarm)
            signal.alarm(alarm * 6 + 60)
        OBS = o
        try:
            loader = build_workload_loader(R, spec, tmpdir)
            scheduler = build_scheduler(R, spec)
            wrap_scheduler(o, scheduler)
            timeout = spec.get("timeout") or MAXT
            o.sim = None
            sim = R.sim.Simulator(
                worker_pools=wpools, scheduler=scheduler, workload_loader=loader,
                loop_timeout=R.EventTime(timeout, R.US),
                scheduler_frequency=R.EventTime(spec["sched"]["freq"], R.US))
            o.sim = sim
            if spec["sched"].get("at_worker_free"):
                # what main.py's --scheduler_run_at_worker_free sets (the Simulator reads it from the flags)
                sim._run_scheduler_at_worker_free = True
            o.calls["Simulator.simulate"] += 1
            sim.simulate()
            o.outcome = "ended"
        except RunAlarm:
            o.outcome = "hang"
        except Exception as e:
            o.outcome = "raised"
            tb = traceback.extract_tb(e.__traceback__)
            where = [("%s:%d:%s" % (os.path.basename(f.filename), f.lineno, f.name))
                     for f in tb if "/bounded/" not in f.filename][-3:]
            o.exc = (type(e).__name__, str(e)[:300], where)
        finally:
            signal.setitimer(signal.ITIMER_PROF, 0)
            signal.alarm(0)
            signal.signal(signal.SIGALRM, old)
            signal.signal(signal.SIGPROF, old_prof)
            OBS = None
        if o.sim is not None:
            for tg in o.sim._workload.task_graphs.values():
                for t in tg.get_nodes():
                    o.tasks[t.id] = t
        for tid, t in o.seen_tasks.items():
            o.tasks.setdefault(tid, t)
    finally:
        shutil.rmtree(tmpdir, ignore_errors=True)
    return o


# ---------------------------------------------------------------------------------------------
# clause checkers (contracts written from the property statements). Each returns a list of
# (violation id, text) and a bool "non-trivial".
# ---------------------------------------------------------------------------------------------
def us(et):
    return et.to(repo().US).time


def ok_calls(o, method):
    """successful calls of a Task mutator: {task.id: [(seq, now, time_arg, before, after, plc)]}"""
    out = collections.defaultdict(list)
    for e in o.tev:
        if e[2] == method and e[7] is None:
            out[e[3].id].append((e[0], e[1], e[6], e[4].name, e[5].name, e[8]))
    return out


def split_rows(o):
    return [(seq, now, text.split(","), extra) for seq, now, text, extra in o.rows]


def tname(o, tid):
    t = o.tasks.get(tid)
    return t.unique_name if t is not None else tid


def last_decision_before(o, task, seq):
    """the most recent scheduler decision that placed `task`, taken before sequence number seq"""
    best = None
    for s in o.sched:
        if s["seq"] > seq:
            break
        for d in s["decisions"]:
            if d["kind"] == "PLACE_TASK" and d["task"] is task and d["placed"]:
                best = (s, d)
    return best


def check_C01(o):
    v = list(o.c01)
    places = [e for e in o.wev if e[2] == "place"]
    # non-trivial: at least two placements and at some instant two tasks resident in the cluster,
    # or a placement that had to wait for capacity
    resident, peak = 0, 0
    for e in o.wev:
        resident += 1 if e[2] == "place" else -1
        peak = max(peak, resident)
    waited = any(a[5] is False for a in o.attempts)
    return v, (len(places) >= 2 and (peak >= 2 or waited))


def check_C02(o):
    v = []
    starts, finishes, releases = ok_calls(o, "start"), ok_calls(o, "finish"), ok_calls(o, "release")
    nontrivial = False
    for tid, ss in starts.items():
        task = o.tasks[tid]
        if len(ss) > 1:
            v.append(("task.started_more_than_once", "%s started at %s" % (
                task.unique_name, [s[1] for s in ss])))
        seq, s_now = ss[0][0], ss[0][1]
        rel = [r for r in releases.get(tid, []) if r[0] < seq]
        if not rel:
            v.append(("start.before_release_event", "%s started at t=%d but was never released "
                      "before that" % (task.unique_name, s_now)))
        else:
            rt = max(r[2] if r[2] is not None else r[1] for r in rel)
            if s_now < rt:
                v.append(("start.before_release_time", "%s started at t=%d, released at %d" % (
                    task.unique_name, s_now, rt)))
        irt = us(task.intended_release_time)
        if irt >= 0 and s_now < irt:
            v.append(("start.before_intended_release_time", "%s started at t=%d, intended "
                      "release %d" % (task.unique_name, s_now, irt)))
        # predecessors (from the spec) must have completed before the start
        g = spec_graph_of(o.spec, task.task_graph)
        i = g_index(g, task.name)
        preds = g_parents(g, i)
        if preds:
            nontrivial = True
        status = []
        for j in preds:
            pt = o.find_task(task.task_graph, g["tasks"][j]["name"])
            pf = [f for f in finishes.get(pt.id, []) if f[0] < seq and f[4] == "COMPLETED"] \
                if pt is not None else []
            pc = [c for c in ok_calls(o, "cancel").get(pt.id, []) if c[0] < seq] \
                if pt is not None else []
            status.append(("done" if pf else "cancelled" if pc else "pending",
                           g["tasks"][j]["name"]))
        if preds:
            if g["tasks"][i].get("term"):
                good = any(s == "done" for s, _ in status) and all(
                    s != "pending" for s, _ in status)
            else:
                good = all(s == "done" for s, _ in status)
            if not good:
                v.append(("start.before_predecessors_completed",
                          "%s started at t=%d with predecessors %s" % (
                              task.unique_name, s_now, status)))
    for tid, ff in finishes.items():
        if len(ff) > 1:
            v.append(("task.completed_more_than_once", "%s finished at %s" % (
                tname(o, tid), [f[1] for f in ff])))
    return v, nontrivial


def check_C03(o):
    v = []
    starts, finishes = ok_calls(o, "start"), ok_calls(o, "finish")
    rows = split_rows(o)
    fin_rows = {r[2][7]: r for r in rows if len(r[2]) > 7 and r[2][1] == "TASK_FINISHED"}
    # the clock never moves backwards; events are handled at their own time, in time order
    samples = sorted([(e[0], e[1]) for e in o.tev] + [(e[0], e[1]) for e in o.wev] +
                     [(e[0], e[3]) for e in o.hev] + [(r[0], r[1]) for r in o.rows])
    for (s1, t1), (s2, t2) in zip(samples, samples[1:]):
        if t2 < t1:
            v.append(("clock.moved_backwards", "clock %d then %d" % (t1, t2)))
            break
    last = None
    for seq, etime, etype, now in o.hev:
        if now != etime:
            v.append(("event.handled_at_wrong_time", "%s with time %d handled at clock %d" % (
                etype, etime, now)))
        if last is not None and etime < last[0]:
            v.append(("event.handled_out_of_time_order", "%s(t=%d) handled after %s(t=%d)" % (
                etype, etime, last[1], last[0])))
        last = (etime, etype)
    for tid, ss in starts.items():
        task = o.tasks[tid]
        seq, s_now, s_arg = ss[0][0], ss[0][1], ss[0][2]
        if s_arg is not None and s_arg != s_now:
            v.append(("start.time_argument_differs_from_clock", "%s start(%d) at clock %d" % (
                task.unique_name, s_arg, s_now)))
        dec = last_decision_before(o, task, seq)
        if dec is None:
            v.append(("start.without_scheduler_decision", "%s started at %d" % (
                task.unique_name, s_now)))
            continue
        s_inv, d = dec
        chosen, r = d["time"], us(d["strategy"].runtime)
        if s_now < chosen:
            v.append(("start.earlier_than_chosen", "%s started at %d, scheduler chose %d" % (
                task.unique_name, s_now, chosen)))
        # attempts to apply this decision
        atts = [a for a in o.attempts if a[2] is task and s_inv["seq"] < a[0]]
        if atts and atts[0][1] != max(chosen, s_inv["now"] + (s_inv["runtime"] or 0)):
            v.append(("start.first_attempt_not_at_chosen_time",
                      "%s: chosen %d, first attempt at %d" % (
                          task.unique_name, chosen, atts[0][1])))
        # the worker must hold the task from s to exactly s+r under the chosen strategy
        wp = [e for e in o.wev if e[4] is task]
        pl = [e for e in wp if e[2] == "place"]
        rm = [e for e in wp if e[2] == "remove"]
        if len(pl) != 1 or pl[0][1] != s_now:
            v.append(("start.not_placed_on_worker_at_start", "%s started %d, worker places at "
                      "%s" % (task.unique_name, s_now, [e[1] for e in pl])))
        elif us(pl[0][5].runtime) != r:
            v.append(("start.strategy_differs_from_decision", "%s placed with runtime %d, "
                      "decision says %d" % (task.unique_name, us(pl[0][5].runtime), r)))
        ff = finishes.get(tid, [])
        if ff:
            f_now = ff[0][1]
            ct = us(task.completion_time)
            if f_now != s_now + r or ct != s_now + r:
                v.append(("finish.not_at_start_plus_runtime",
                          "%s: start %d runtime %d, finish() at clock %d, completion_time %d" % (
                              task.unique_name, s_now, r, f_now, ct)))
            if len(rm) != 1 or rm[0][1] != s_now + r:
                v.append(("finish.resources_not_held_until_start_plus_runtime",
                          "%s: start %d runtime %d, removed from worker at %s" % (
                              task.unique_name, s_now, r, [e[1] for e in rm])))
            row = fin_rows.get(tid)
            if row is None or int(row[2][0]) != s_now + r or int(row[2][5]) != s_now + r:
                v.append(("finish.reported_at_wrong_time", "%s: start %d runtime %d, "
                          "TASK_FINISHED row %s" % (task.unique_name, s_now, r,
                                                    None if row is None else row[2])))
        elif o.outcome == "ended":
            end = [int(x[2][0]) for x in rows if x[2][1] == "SIMULATOR_END"]
            if end and end[0] > s_now + r:
                v.append(("finish.never_reported", "%s started %d runtime %d never finished, "
                          "run ended at %d" % (task.unique_name, s_now, r, end[0])))
    # "starts exactly then whenever its predecessors are done and the chosen pool can hold it"
    for seq, now, task, plc, ready, can, before, started in o.attempts:
        if before.name != "SCHEDULED":
            continue
        if ready and can and not started:
            v.append(("start.not_started_although_ready_and_pool_can_hold",
                      "t=%d %s: predecessors done, pool can hold the strategy, not started" % (
                          now, task.unique_name)))
        if started and (ready is False):
            v.append(("start.started_although_not_ready", "t=%d %s" % (now, task.unique_name)))
    for seq, now, pool, task, strat, can, result in o.pev:
        if can is True and result is False:
            v.append(("place.refused_although_pool_can_hold", "t=%d %s on %s" % (
                now, task.unique_name, pool.name)))
    return v, bool(finishes)


def check_C05(o):
    v = []
    spec = o.spec
    rows = split_rows(o)
    zero = any(s["rt"] == 0 for g in spec["graphs"] for t in g["tasks"] for s in t["strategies"])
    nontrivial = any(r[2][1] == "TASK_RELEASE" for r in rows)
    if o.outcome == "hang":
        vid = "simulate.zero_runtime_livelock" if zero else (
            "simulate.hang.scheduler_frequency_0" if spec["sched"]["freq"] == 0 else
            "simulate.hang")
        last = o.hev[-1] if o.hev else None
        v.append((vid, "simulate() did not return within the CPU-time alarm; clock at %d, last "
                  "handled event %s, %d events handled" % (o.now_at_end, last, len(o.hev))))
        return v, nontrivial
    if o.outcome == "raised":
        name, msg, where = o.exc
        if "occurred in the past" in msg:
            vid = "simulate.raises.placement_in_past"
            if spec["sched"]["runtime"] > 0:
                vid += ".nonzero_scheduler_runtime"
        else:
            vid = "simulate.raises.%s.%s" % (name, where[-1].split(":")[-1] if where else "x")
        v.append((vid, "simulate() raised %s: %s at %s (clock %d)" % (
            name, msg, where, o.now_at_end)))
        return v, nontrivial
    ends = [r for r in rows if r[2][1] == "SIMULATOR_END"]
    timeout = spec.get("timeout") or MAXT
    if len(ends) != 1:
        v.append(("end.no_single_end_event", "%d SIMULATOR_END rows" % len(ends)))
        return v, nontrivial
    end_t = int(ends[0][2][0])
    if end_t > timeout:
        v.append(("end.after_loop_timeout", "ended at %d, timeout %d" % (end_t, timeout)))
    if rows[-1][2][1] != "SIMULATOR_END":
        v.append(("end.rows_after_end_event", "last row %s" % rows[-1][2]))
    states = {tid: t.state.name for tid, t in o.tasks.items()}
    fits = {}
    for tid, t in o.tasks.items():
        g = spec_graph_of(spec, t.task_graph)
        fits[tid] = task_fits_empty_cluster(spec, g["tasks"][g_index(g, t.name)])
    if end_t < timeout:
        # it never ends while released, runnable work remains
        for tid, st in states.items():
            if st in ("RELEASED", "SCHEDULED", "RUNNING") and fits[tid]:
                v.append(("end.while_released_runnable_work_remains",
                          "ended at %d with %s in state %s" % (end_t, tname(o, tid), st)))
    wc = spec["sched"]["name"] in WORK_CONSERVING and not spec["sched"]["enforce"]
    all_fit = all(task_fits_empty_cluster(spec, t) for g in spec["graphs"] for t in g["tasks"])
    if wc and all_fit and not zero:
        if end_t >= timeout and timeout == MAXT:
            v.append(("end.feasible_work_conserving_run_hit_timeout", "ended at %d" % end_t))
        if timeout == MAXT:
            by_graph = collections.defaultdict(dict)
            for tid, t in o.tasks.items():
                by_graph[t.task_graph][t.name] = t.state.name
            # every instance the release policy asks for exists
            for g in spec["graphs"]:
                want = expected_instances(spec, g)
                have = [n for n in by_graph if n.split("@")[0] == g["name"]]
                open_cond = any(t.get("cond") for t in g["tasks"]) and not any(
                    t.get("term") for t in g["tasks"])
                if g["release"]["policy"] == "closed_loop" and open_cond:
                    # a conditional without a join always leaves a sink on the untaken branch
                    # uncompleted, so the graph never "finishes" and a closed loop has nothing to
                    # wait for: the statement does not say how many invocations must follow
                    continue
                if want is not None and len(have) != want:
                    v.append(("end.missing_graph_invocations", "graph %s: release policy %s "
                              "asks for %d instances, the run had %s" % (
                                  g["name"], g["release"], want, sorted(have))))
            for gname, sts in by_graph.items():
                g = spec_graph_of(spec, gname)
                conds = [i for i, t in enumerate(g["tasks"]) if t.get("cond")]
                if not conds:
                    bad = {n: s for n, s in sts.items() if s != "COMPLETED"}
                    if bad:
                        v.append(("end.feasible_task_not_completed",
                                  "work-conserving %s, every task fits, ended at %d: graph %s "
                                  "has %s" % (spec["sched"]["name"], end_t, gname, bad)))
                else:
                    # exactly one branch of each conditional runs; everything that is neither a
                    # branch-only descendant must complete
                    c = conds[0]
                    branches = g_children(g, c)
                    done = [g["tasks"][b]["name"] for b in branches
                            if sts.get(g["tasks"][b]["name"]) == "COMPLETED"]
                    must = [t["name"] for i, t in enumerate(g["tasks"])
                            if i not in branches and (i == c or t.get("term")
                                                      or i in g_sources(g))]
                    bad = {n: sts.get(n) for n in must if sts.get(n) != "COMPLETED"}
                    if len(done) != 1 or bad:
                        v.append(("end.feasible_task_not_completed",
                                  "conditional graph %s: completed branches %s, others %s" % (
                                      gname, done, bad)))
    return v, nontrivial


ALLOWED = {
    ("VIRTUAL", "RELEASED"), ("VIRTUAL", "SCHEDULED"), ("RELEASED", "SCHEDULED"),
    ("SCHEDULED", "SCHEDULED"), ("SCHEDULED", "RELEASED"), ("SCHEDULED", "VIRTUAL"),
    ("SCHEDULED", "RUNNING"), ("RUNNING", "COMPLETED"),
    ("VIRTUAL", "CANCELLED"), ("RELEASED", "CANCELLED"), ("SCHEDULED", "CANCELLED"),
}


def cancel_closure(g, ts, cancels):
    """indices of the tasks of graph g (instance tasks `ts` by name) that were cancelled or can no
    longer receive their inputs: a non-join task with some dead predecessor, a conditional's join
    with all predecessors dead (least fixpoint; structure from the spec)"""
    dead = {i for i, t in enumerate(g["tasks"])
            if t["name"] in ts and ts[t["name"]].id in cancels}
    changed = True
    while changed:
        changed = False
        for i, t in enumerate(g["tasks"]):
            if i in dead:
                continue
            ps = g_parents(g, i)
            if not ps:
                continue
            gone = all(p in dead for p in ps) if t.get("term") else any(p in dead for p in ps)
            if gone:
                dead.add(i)
                changed = True
    return dead


def check_C06(o):
    v = []
    rows = split_rows(o)
    last = {}
    nontrivial = False
    for e in o.tev:
        seq, now, m, task, before, after = e[0], e[1], e[2], e[3], e[4].name, e[5].name
        prev = last.get(task.id, "VIRTUAL")
        if before != prev:
            # the state changed between two mutator calls
            if (prev, before) not in ALLOWED:
                v.append(("lifecycle.illegal_transition.%s_to_%s" % (prev, before),
                          "%s changed %s -> %s outside a mutator before %s() at t=%d" % (
                              task.unique_name, prev, before, m, now)))
        if before != after and (before, after) not in ALLOWED:
            v.append(("lifecycle.illegal_transition.%s_to_%s" % (before, after),
                      "%s: %s() at t=%d moved %s -> %s" % (task.unique_name, m, now, before,
                                                            after)))
        if before in ("COMPLETED", "CANCELLED") and after != before:
            v.append(("lifecycle.final_state_left", "%s: %s() moved %s -> %s" % (
                task.unique_name, m, before, after)))
        last[task.id] = after
        if after in ("COMPLETED", "CANCELLED"):
            nontrivial = True
    for tid, t in o.tasks.items():
        fin = t.state.name
        prev = last.get(tid, "VIRTUAL")
        if fin != prev and (prev, fin) not in ALLOWED:
            v.append(("lifecycle.illegal_transition.%s_to_%s" % (prev, fin),
                      "%s ended in %s, last observed %s" % (t.unique_name, fin, prev)))
    starts, cancels = ok_calls(o, "start"), ok_calls(o, "cancel")
    for tid, cc in cancels.items():
        for s in starts.get(tid, []):
            v.append(("cancel.cancelled_task_started", "%s cancelled at %d, started at %d" % (
                tname(o, tid), cc[0][1], s[1])))
    # cancellation is closed downstream (structure from the spec)
    cancel_rows = {r[2][4] for r in rows if r[2][1] == "TASK_CANCEL"}
    if o.outcome == "ended":
        by_graph = collections.defaultdict(dict)
        for tid, t in o.tasks.items():
            by_graph[t.task_graph][t.name] = t
        for gname, ts in by_graph.items():
            g = spec_graph_of(o.spec, gname)
            dead = cancel_closure(g, ts, cancels)
            for i in dead:
                t = ts.get(g["tasks"][i]["name"])
                if t is None:
                    continue
                if t.id in starts:
                    v.append(("cancel.descendant_of_cancelled_started", "%s" % t.unique_name))
                if t.state.name != "CANCELLED" or t.id not in cancel_rows:
                    # on a single path (the dead predecessor has no other child) nothing can
                    # distract the cascade; otherwise a sibling was abandoned
                    dps = [p for p in g_parents(g, i) if p in dead]
                    single = all(len(g_children(g, p)) == 1 for p in dps) and not g["tasks"][
                        i].get("term")
                    v.append(("cancel.descendant_left_uncancelled." + (
                        "single_path" if single else "sibling_abandoned"),
                              "graph %s: %s can no longer receive its inputs (cancelled: %s) but "
                              "ended in state %s, TASK_CANCEL row: %s" % (
                                  gname, t.unique_name,
                                  sorted(x.name for x in ts.values() if x.id in cancels),
                                  t.state.name, t.id in cancel_rows)))
        # a graph is reported finished exactly when all its sinks completed
        finishes = ok_calls(o, "finish")
        gf = collections.defaultdict(list)
        for r in rows:
            if r[2][1] == "TASK_GRAPH_FINISHED":
                gf[r[2][2]].append(int(r[2][0]))
        for gname, ts in by_graph.items():
            g = spec_graph_of(o.spec, gname)
            sinks = [ts.get(g["tasks"][i]["name"]) for i in g_sinks(g)]
            done = [t is not None and t.id in finishes and t.state.name == "COMPLETED"
                    for t in sinks]
            if all(done):
                when = max(finishes[t.id][0][1] for t in sinks)
                if gf.get(gname) != [when]:
                    v.append(("graph.finished_row_missing_or_wrong",
                              "graph %s: all sinks completed by %d, TASK_GRAPH_FINISHED rows at "
                              "%s" % (gname, when, gf.get(gname))))
            elif gf.get(gname):
                v.append(("graph.reported_finished_before_all_sinks_completed",
                          "graph %s: sinks %s, TASK_GRAPH_FINISHED at %s" % (
                              gname, [(t.name, t.state.name) for t in sinks if t], gf[gname])))
        for gname in gf:
            if gname not in by_graph:
                v.append(("graph.finished_row_for_unknown_graph", gname))
    return v, nontrivial


def _triples(cols):
    return [(cols[i], cols[i + 1], cols[i + 2]) for i in range(0, len(cols) - 2, 3)]


def check_C08(o):
    v = []
    spec = o.spec
    if o.outcome != "ended":
        return v, False  # termination is C05's clause
    R = repo()
    rows = split_rows(o)
    releases, starts = ok_calls(o, "release"), ok_calls(o, "start")
    finishes, cancels = ok_calls(o, "finish"), ok_calls(o, "cancel")
    tasks = o.tasks

    def bad(vid, msg):
        v.append((vid, msg))

    def strategies_of(t):
        return [(us(s.runtime), strategy_demand(s)) for s in t.available_execution_strategies]

    by_type = collections.defaultdict(list)
    for r in rows:
        by_type[r[2][1]].append(r)

    # ---- summary -------------------------------------------------------------------------
    completed = {tid for tid, t in tasks.items() if t.state.name == "COMPLETED"}
    cancelled = {tid for tid, t in tasks.items() if t.state.name == "CANCELLED"}
    missed = {tid for tid in completed if us(tasks[tid].completion_time) > us(tasks[tid].deadline)}
    by_graph = collections.defaultdict(dict)
    for tid, t in tasks.items():
        by_graph[t.task_graph][t.name] = t
    g_fin, g_can_sink, g_can_any, g_miss = set(), set(), set(), set()
    for gname, ts in by_graph.items():
        g = spec_graph_of(spec, gname)
        sinks = [ts[g["tasks"][i]["name"]] for i in g_sinks(g) if g["tasks"][i]["name"] in ts]
        if sinks and all(t.id in completed for t in sinks):
            g_fin.add(gname)
            if max(us(t.completion_time) for t in sinks) > max(us(t.deadline) for t in ts.values()):
                g_miss.add(gname)
        if any(t.id in cancelled for t in sinks):
            g_can_sink.add(gname)
        if gname not in g_fin and any(t.id in cancelled for t in ts.values()):
            g_can_any.add(gname)
    end = by_type["SIMULATOR_END"][0][2]
    got = [int(x) for x in end[2:8]]
    want = [len(completed), len(cancelled), len(missed), len(g_fin), None, len(g_miss)]
    names = ["finished_tasks", "cancelled_tasks", "missed_task_deadlines", "finished_task_graphs",
             "cancelled_task_graphs", "missed_task_graph_deadlines"]
    for n, g_, w_ in zip(names, got, want):
        if w_ is not None and g_ != w_:
            bad("summary.%s_wrong" % n, "SIMULATOR_END says %s=%d, the tasks say %d" % (n, g_, w_))
    if got[4] not in (len(g_can_sink), len(g_can_any)):
        bad("summary.cancelled_task_graphs_wrong", "SIMULATOR_END says %d, graphs with a "
            "cancelled sink: %d, unfinished graphs with a cancelled task: %d" % (
                got[4], len(g_can_sink), len(g_can_any)))

    # ---- per task rows -------------------------------------------------------------------
    rel_rows = collections.defaultdict(list)
    for r in by_type["TASK_RELEASE"]:
        rel_rows[r[2][7]].append(r)
    for tid, rr in rel_rows.items():
        t = tasks.get(tid)
        if t is None:
            bad("row.TASK_RELEASE.unknown_task", str(rr[0][2]))
            continue
        obs = [x[1] for x in releases.get(tid, [])]
        for r in rr:
            c = r[2]
            slow = max(strategies_of(t), key=lambda s: s[0])
            res = collections.Counter()
            for n, _id, q in _triples(c[10:]):
                res[n] += float(q)
            truth = [t.name, str(t.timestamp), str(us(t.intended_release_time)), None,
                     str(us(t.deadline)), t.id, t.task_graph, str(slow[0])]
            seen = [c[2], c[3], c[4], None, c[6], c[7], c[8], c[9]]
            if int(c[0]) not in obs or int(c[5]) != int(c[0]) or seen != truth:
                bad("row.TASK_RELEASE.wrong_field", "row %s; observed release() at %s, truth %s"
                    % (c, obs, truth))
            if dict(res) != {n: float(q) for n, q in slow[1].items()} and \
                    not any(dict(res) == {n: float(q) for n, q in s[1].items()}
                            for s in strategies_of(t) if s[0] == slow[0]):
                bad("row.TASK_RELEASE.wrong_resources", "row %s; slowest strategy %s" % (c, slow))
    for tid in releases:
        if tid in tasks and tid not in rel_rows:
            bad("row.TASK_RELEASE.missing", tname(o, tid))

    plc_rows = collections.defaultdict(list)
    for r in by_type["TASK_PLACEMENT"]:
        plc_rows[r[2][5]].append(r)
    for tid, ss in starts.items():
        t = tasks[tid]
        rr = plc_rows.get(tid, [])
        wp = [e for e in o.wev if e[2] == "place" and e[4] is t]
        if len(rr) != len(ss) or not wp:
            bad("row.TASK_PLACEMENT.missing_or_duplicate", "%s started %d times, %d rows" % (
                t.unique_name, len(ss), len(rr)))
            continue
        c = rr[0][2]
        worker, strat = wp[0][3], wp[0][5]
        pool = o.pool_of_worker[id(worker)]
        res = collections.Counter()
        own_ids = {r_.id for r_, _ in worker.resources.resources}
        foreign = []
        for n, _id, q in _triples(c[8:]):
            res[n] += float(q)
            if _id not in own_ids:
                foreign.append(_id)
        truth = [str(ss[0][1]), t.name, t.task_graph, str(t.timestamp), t.id, pool.id,
                 str(us(strat.runtime))]
        seen = [c[0], c[2], c[3], c[4], c[5], c[6], c[7]]
        if seen != truth:
            bad("row.TASK_PLACEMENT.wrong_field", "row %s, truth %s" % (c, truth))
        if dict(res) != {n: float(q) for n, q in strategy_demand(strat).items()} or foreign:
            bad("row.TASK_PLACEMENT.wrong_resources", "row %s; strategy demand %s on worker %s, "
                "resource ids not of that worker: %s" % (c, strategy_demand(strat), worker.name,
                                                        foreign))
    for tid in plc_rows:
        if tid not in starts:
            bad("row.TASK_PLACEMENT.for_task_that_never_started", tname(o, tid))

    fin_rows = collections.defaultdict(list)
    for r in by_type["TASK_FINISHED"]:
        fin_rows[r[2][7]].append(r)
    for tid, ff in finishes.items():
        t = tasks[tid]
        rr = fin_rows.get(tid, [])
        if len(rr) != 1:
            bad("row.TASK_FINISHED.missing_or_duplicate", "%s: %d rows" % (t.unique_name, len(rr)))
            continue
        c = rr[0][2]
        truth = [str(ff[0][1]), t.name, str(t.timestamp), t.task_graph, str(ff[0][1]),
                 str(us(t.deadline)), t.id]
        if c[0:1] + c[2:8] != truth:
            bad("row.TASK_FINISHED.wrong_field", "row %s, truth %s" % (c, truth))
    for tid in fin_rows:
        if tid not in finishes:
            bad("row.TASK_FINISHED.for_task_that_never_finished", tname(o, tid))

    can_rows = collections.defaultdict(list)
    for r in by_type["TASK_CANCEL"]:
        can_rows[r[2][4]].append(r)
    for tid, cc in cancels.items():
        t = tasks.get(tid)
        if t is None:
            continue
        rr = can_rows.get(tid, [])
        if len(rr) != 1:
            bad("row.TASK_CANCEL.missing_or_duplicate", "%s cancelled at %d: %d rows" % (
                t.unique_name, cc[0][1], len(rr)))
            continue
        c = rr[0][2]
        truth = [str(cc[0][1]), t.name, str(t.timestamp), t.id, t.task_graph]
        if c[0:1] + c[2:6] != truth:
            bad("row.TASK_CANCEL.wrong_field", "row %s, truth %s" % (c, truth))
    for tid in can_rows:
        if tid not in cancels:
            bad("row.TASK_CANCEL.for_task_that_was_not_cancelled", tname(o, tid))

    miss_rows = collections.defaultdict(list)
    for r in by_type["MISSED_DEADLINE"]:
        miss_rows[r[2][5]].append(r)
    for tid in set(miss_rows) | missed:
        t = tasks.get(tid)
        late = tid in missed
        if (len(miss_rows.get(tid, [])) == 1) != late:
            bad("row.MISSED_DEADLINE.not_iff_completion_after_deadline",
                "%s: completion %s deadline %s, MISSED_DEADLINE rows %d" % (
                    tname(o, tid), t and us(t.completion_time), t and us(t.deadline),
                    len(miss_rows.get(tid, []))))
        elif late:
            c = miss_rows[tid][0][2]
            truth = [str(us(t.completion_time)), t.name, str(t.timestamp), str(us(t.deadline)),
                     t.id]
            if c[0:1] + c[2:6] != truth:
                bad("row.MISSED_DEADLINE.wrong_field", "row %s truth %s" % (c, truth))
    # deadlines on rows are the true deadlines (hand mode: the spec knows them)
    if spec["mode"] == "hand":
        for tid, t in tasks.items():
            g = spec_graph_of(spec, t.task_graph)
            want_dl = g["release"]["time"] + g["tasks"][g_index(g, t.name)]["deadline"]
            for r in rel_rows.get(tid, []):
                if int(r[2][6]) != want_dl:
                    bad("row.TASK_RELEASE.wrong_deadline", "row %s, spec deadline %d" % (
                        r[2], want_dl))

    # ---- scheduler rows ------------------------------------------------------------------
    s_start, s_fin = by_type["SCHEDULER_START"], by_type["SCHEDULER_FINISHED"]
    if len(s_start) != len(o.sched) or len(s_fin) > len(o.sched):
        bad("row.SCHEDULER.count_differs", "%d schedule() calls, %d START rows, %d FINISHED rows"
            % (len(o.sched), len(s_start), len(s_fin)))
    sched_rows = collections.defaultdict(list)
    skip_rows = collections.defaultdict(list)
    cur = -1
    for r in rows:
        k = r[2][1]
        if k == "SCHEDULER_FINISHED":
            cur += 1
        elif k == "TASK_SCHEDULED":
            sched_rows[cur].append(r[2])
        elif k == "TASK_SKIP":
            skip_rows[cur].append(r[2])
    for i, s in enumerate(o.sched):
        dec = [d for d in s["decisions"] if d["kind"] in ("PLACE_TASK", "CANCEL_TASK")]
        placed = [d for d in dec if d["kind"] == "PLACE_TASK" and d["placed"]]
        unplaced = [d for d in dec if d["kind"] == "PLACE_TASK" and not d["placed"]]
        cancel = [d for d in dec if d["kind"] == "CANCEL_TASK"]
        if i < len(s_start):
            c = s_start[i][2]
            if int(c[0]) != s["t"] or int(c[0]) != s["now"]:
                bad("row.SCHEDULER_START.wrong_time", "row %s, schedule() at %d" % (c, s["now"]))
            if int(c[2]) != len(dec):
                bad("row.SCHEDULER_START.wrong_number_offered", "row %s: the scheduler decided "
                    "on %d tasks (%s)" % (c, len(dec), [(d["task"].unique_name, d["state"])
                                                        for d in dec]))
            if int(c[3]) != s["resident"]:
                bad("row.SCHEDULER_START.wrong_number_running", "row %s: %d tasks resident" % (
                    c, s["resident"]))
        if i < len(s_fin):
            c = s_fin[i][2]
            if int(c[0]) != s["now"] + s["runtime"] or int(c[2]) != s["runtime"]:
                bad("row.SCHEDULER_FINISHED.wrong_time", "row %s: started %d, runtime %d" % (
                    c, s["now"], s["runtime"]))
            if int(c[3]) != len(placed):
                bad("sched_row.num_placed_wrong", "row %s: %d placed" % (c, len(placed)))
            # "left unplaced" = answered with a PLACE_TASK decision that is not placed (each gets a TASK_SKIP row); a task
            # answered with a cancellation was not left unplaced, it was cancelled (seed C08-8)
            if int(c[4]) != len(unplaced):
                bad("sched_row.num_unplaced_always_zero" if int(c[4]) == 0
                    else "sched_row.num_unplaced_wrong",
                    "row %s: the scheduler returned %d placed, %d unplaced (%s), %d cancelled "
                    "decisions" % (c, len(placed), len(unplaced),
                                   [d["task"].unique_name for d in unplaced], len(cancel)))
            want_rows = sorted((d["task"].id, str(d["deadline"]), str(d["time"]), d["pool"],
                                str(us(d["strategy"].runtime))) for d in placed)
            got_rows = sorted((x[5], x[6], x[7], x[8], x[9]) for x in sched_rows.get(i, []))
            if want_rows != got_rows:
                bad("row.TASK_SCHEDULED.differs_from_decisions", "invocation %d at %d: rows %s, "
                    "decisions %s" % (i, s["now"], got_rows, want_rows))
            want_skip = sorted(d["task"].id for d in unplaced)
            got_skip = sorted(x[5] for x in skip_rows.get(i, []))
            if want_skip != got_skip:
                bad("row.TASK_SKIP.differs_from_decisions", "invocation %d at %d: rows %s, "
                    "unplaced decisions %s" % (i, s["now"], got_skip, want_skip))
    # ---- utilisation rows ----------------------------------------------------------------
    for seq, now, c, extra in by_type["WORKER_POOL_UTILIZATION"]:
        alloc, cap = extra.get(c[2], ({}, {}))
        a, f = alloc.get(c[3], 0), cap.get(c[3], 0) - alloc.get(c[3], 0)
        if float(c[4]) != a or float(c[5]) != f:
            bad("row.WORKER_POOL_UTILIZATION.wrong_quantities", "row %s: resident demand %s, "
                "free %s" % (c, a, f))
            break
    # ---- graph rows ----------------------------------------------------------------------
    for seq, now, c, extra in by_type["TASK_GRAPH_RELEASE"]:
        ts = by_graph.get(c[4])
        if ts is None:
            bad("row.TASK_GRAPH_RELEASE.unknown_graph", str(c))
            continue
        g = spec_graph_of(spec, c[4])
        srcs = [ts[g["tasks"][i]["name"]] for i in g_sources(g)]
        truth = [str(min(us(t.intended_release_time) for t in srcs)),
                 str(max(us(t.deadline) for t in ts.values())), c[4], str(len(g["tasks"]))]
        if c[2:6] != truth:
            bad("row.TASK_GRAPH_RELEASE.wrong_field", "row %s truth %s" % (c, truth))

    # ---- the project's own reader ------------------------------------------------------------
    v.extend(check_reader(o, rows, by_graph, completed, cancelled, missed, g_fin, g_can_sink,
                          g_can_any, starts, finishes, cancels, releases))
    nontrivial = bool(by_type["TASK_FINISHED"] or by_type["TASK_CANCEL"])
    return v, nontrivial


def check_reader(o, rows, by_graph, completed, cancelled, missed, g_fin, g_can_sink, g_can_any,
                 starts, finishes, cancels, releases):
    v = []
    R = repo()
    tasks = o.tasks
    tmp = tempfile.mkdtemp(prefix="bworlds_csv_")
    path = os.path.join(tmp, "trace.csv")
    try:
        with open(path, "w") as f:
            for _, _, text, _ in o.rows:
                f.write(text + "\n")
        o.calls["CSVReader.parse_events"] += 1
        devnull = open(os.devnull, "w")
        old_out = sys.stdout
        sys.stdout = devnull
        try:
            rd = R.CSVReader([path])
        except BaseException as e:
            if isinstance(e, (RunAlarm, KeyboardInterrupt)):
                raise
            cause = e.__cause__ or e
            tb = traceback.extract_tb(cause.__traceback__)
            line = str(e)
            fresh = [g for g in by_graph if "@" in g and not any(
                r[2][1] == "TASK_GRAPH_RELEASE" and r[2][4] == g for r in rows)]
            if isinstance(cause, KeyError) and fresh and any(
                    str(cause).strip("'\"") == g for g in fresh):
                vid = "reader.closed_loop_graph_without_release_row"
            elif isinstance(cause, AssertionError) and tb and tb[-1].name == "parse_events":
                what = (tb[-1].line or "").replace("assert simulator.", "").split(" ")[0]
                vid = "reader.sanity_assertion_fails.%s" % what
                if what == "dropped_taskgraphs":
                    # why do reader and simulator disagree on the number of cancelled graphs?
                    partial = False
                    for gname, ts in by_graph.items():
                        g = spec_graph_of(o.spec, gname)
                        for i in cancel_closure(g, ts, cancels):
                            t = ts.get(g["tasks"][i]["name"])
                            if t is not None and t.state.name != "CANCELLED":
                                partial = True
                    if partial:
                        vid += ".cancel_cascade_incomplete"
                    elif len(g_can_any) != len(g_can_sink):
                        # the known disagreement: a graph with a cancelled non-sink task that never finished is
                        # "dropped" for the reader but not for the simulator
                        vid += ".unfinished_conditional_graph"
                    else:
                        # reader and simulator agree on which graphs were dropped according to the trace's own
                        # rows, yet the reader's census differs: the reader mis-reads the trace
                        vid += ".reader_census_disagrees_with_trace"
            else:
                vid = "reader.rejects_trace.%s" % type(cause).__name__
            v.append((vid, "CSVReader raised %s: %s (cause %s: %s); graphs without a "
                      "TASK_GRAPH_RELEASE row: %s" % (type(e).__name__, line[:300],
                                                      type(cause).__name__, str(cause)[:200],
                                                      fresh)))
            return v
        finally:
            sys.stdout = old_out
            devnull.close()
        rtasks = {t.task_id: t for t in rd.get_tasks(path)}
        rgraphs = rd.get_task_graph(path)

        def bad(vid, msg):
            v.append((vid, msg))

        # skips of the run: times at which the scheduler returned an unplaced decision for the task
        skips = collections.defaultdict(list)
        for s in o.sched:
            for d in s["decisions"]:
                if d["kind"] == "PLACE_TASK" and not d["placed"]:
                    skips[d["task"].id].append(s["now"] + s["runtime"])
        for tid, rel in releases.items():
            t = tasks.get(tid)
            if t is None:
                continue
            rt = rtasks.get(tid)
            if rt is None:
                bad("reader.task_missing", t.unique_name)
                continue
            truth = {
                "name": t.name, "task_graph": t.task_graph, "timestamp": t.timestamp,
                "release_time": rel[-1][1], "deadline": us(t.deadline),
                "completion_time": finishes[tid][0][1] if tid in finishes else None,
                "missed_deadline": tid in missed,
                "cancelled": tid in cancels,
                "cancelled_at": cancels[tid][0][1] if tid in cancels else None,
                "start_time": starts[tid][0][1] if tid in starts else None,
                "placements": [s[1] for s in starts.get(tid, [])],
            }
            seen = {
                "name": rt.name, "task_graph": rt.task_graph, "timestamp": rt.timestamp,
                "release_time": rt.release_time, "deadline": rt.deadline,
                "completion_time": rt.completion_time, "missed_deadline": rt.missed_deadline,
                "cancelled": rt.cancelled, "cancelled_at": rt.cancelled_at,
                "start_time": rt.start_time,
                "placements": [p.placement_time for p in rt.placements],
            }
            diff = {k: (seen[k], truth[k]) for k in truth if seen[k] != truth[k]}
            if diff:
                bad("reader.task_differs_from_run." + sorted(diff)[0],
                    "%s: reader vs run: %s" % (t.unique_name, diff))
            if tid in starts and rt.placements:
                wp = [e for e in o.wev if e[2] == "place" and e[4] is t]
                pool = o.pool_of_worker[id(wp[0][3])]
                if rt.placements[0].worker_pool.id != pool.id or rt.runtime != us(
                        wp[0][5].runtime):
                    bad("reader.task_differs_from_run.placement", t.unique_name)
            if sorted(rt.skipped_times) != sorted(skips.get(tid, [])):
                bad("reader.task_skip_wrong_column",
                    "%s: the scheduler left it unplaced at %s (TASK_SKIP rows written), the "
                    "reader reconstructed skipped_times=%s" % (
                        t.unique_name, sorted(skips.get(tid, [])), sorted(rt.skipped_times)))
        for gname, ts in by_graph.items():
            rg = rgraphs.get(gname)
            if rg is None:
                norow = not any(r[2][1] == "TASK_GRAPH_RELEASE" and r[2][4] == gname
                                for r in rows)
                bad("reader.closed_loop_graph_without_release_row" if norow and "@" in gname
                    else "reader.graph_missing", "graph %s of the run is unknown to the reader; "
                    "TASK_GRAPH_RELEASE row written: %s" % (gname, not norow))
                continue
            g = spec_graph_of(o.spec, gname)
            sinks = [ts[g["tasks"][i]["name"]] for i in g_sinks(g)]
            truth = {"num_tasks": len(g["tasks"]),
                     "deadline": max(us(t.deadline) for t in ts.values()),
                     "was_completed": gname in g_fin,
                     "completion_at": max(finishes[t.id][0][1] for t in sinks)
                     if gname in g_fin else None}
            seen = {"num_tasks": rg.num_tasks, "deadline": rg.deadline,
                    "was_completed": rg.was_completed, "completion_at": rg.completion_at}
            diff = {k: (seen[k], truth[k]) for k in truth if seen[k] != truth[k]}
            if bool(rg.cancelled) not in (gname in g_can_sink, gname in g_can_any):
                diff["cancelled"] = (rg.cancelled, gname in g_can_sink)
            if diff:
                bad("reader.graph_differs_from_run." + sorted(diff)[0],
                    "%s: reader vs run: %s" % (gname, diff))
    finally:
        shutil.rmtree(tmp, ignore_errors=True)
    return v


def check_C12(o):
    """run level: with enforcement on, a task that cannot finish by its deadline even with its
    fastest strategy starting now is answered with a cancellation (EDF, FIFO), never placed; for
    the planners (ILP) every task that completes does so by its deadline"""
    v = []
    nontrivial = False
    name = o.spec["sched"]["name"]
    if not o.spec["sched"]["enforce"]:
        return v, False
    starts, finishes = ok_calls(o, "start"), ok_calls(o, "finish")
    for s in o.sched:
        for d in s["decisions"]:
            if d["kind"] not in ("PLACE_TASK", "CANCEL_TASK"):
                continue
            hopeless = d["deadline"] < s["now"] + d["fastest"]
            if not hopeless:
                continue
            nontrivial = True
            t = d["task"]
            if name in ("EDF", "FIFO") and d["kind"] != "CANCEL_TASK":
                v.append(("admit.hopeless_task_not_cancelled", "t=%d %s deadline %d fastest "
                          "runtime %d: decision %s placed=%s" % (
                              s["now"], t.unique_name, d["deadline"], d["fastest"], d["kind"],
                              d["placed"])))
            if d["kind"] == "PLACE_TASK" and d["placed"]:
                v.append(("admit.hopeless_task_placed", "t=%d %s deadline %d fastest %d placed "
                          "at %s" % (s["now"], t.unique_name, d["deadline"], d["fastest"],
                                     d["time"])))
            later = [x for x in starts.get(t.id, []) if x[0] > s["seq"]]
            if later and name in ("EDF", "FIFO"):
                v.append(("admit.hopeless_task_started_later", "%s hopeless at %d, started at %d"
                          % (t.unique_name, s["now"], later[0][1])))
    if name == "ILP":
        for tid, ff in finishes.items():
            t = o.tasks[tid]
            nontrivial = True
            if ff[0][1] > us(t.deadline):
                v.append(("planner_run.completed_after_deadline", "%s completed %d deadline %d" % (
                    t.unique_name, ff[0][1], us(t.deadline))))
    return v, nontrivial


CHECKERS = {"C01": check_C01, "C02": check_C02, "C03": check_C03, "C05": check_C05,
            "C06": check_C06, "C08": check_C08, "C12": check_C12}


# ---------------------------------------------------------------------------------------------
# C09: the same world twice, through main.py, in fresh processes with different hash seeds
# ---------------------------------------------------------------------------------------------
def main_py_flags(spec, outdir, tag):
    s = spec["sched"]
    fl = ["--execution_mode=yaml",
          "--workload_profile_path=%s" % os.path.join(outdir, "workload.yaml"),
          "--worker_profile_path=%s" % os.path.join(outdir, "workers.yaml"),
          "--scheduler=%s" % s["name"], "--scheduler_runtime=%d" % s["runtime"],
          "--scheduler_frequency=%d" % s["freq"], "--random_seed=%d" % spec["seed"],
          "--log_dir=%s" % outdir, "--log_file_name=run_%s.log" % tag,
          "--csv_file_name=run_%s.csv" % tag, "--log_level=warning", "--runtime_variance=0",
          "--min_deadline_variance=%d" % spec.get("min_dv", 0),
          "--max_deadline_variance=%d" % spec.get("max_dv", 0)]
    if s["enforce"]:
        fl.append("--enforce_deadlines")
    if spec.get("timeout"):
        fl.append("--loop_timeout=%d" % spec["timeout"])
    return fl


def run_main_py(spec, outdir, tag, hashseed, timeout=240):
    import yaml

    with open(os.path.join(outdir, "workload.yaml"), "w") as f:
        yaml.safe_dump(workload_yaml_dict(spec), f, sort_keys=False)
    with open(os.path.join(outdir, "workers.yaml"), "w") as f:
        yaml.safe_dump(worker_yaml_list(spec), f, sort_keys=False)
    env = dict(os.environ)
    env["PYTHONHASHSEED"] = str(hashseed)
    env["PYTHONPATH"] = REPO
    cmd = [sys.executable, os.path.join(REPO, "main.py")] + main_py_flags(spec, outdir, tag)
    try:
        p = subprocess.run(cmd, cwd=REPO, env=env, stdout=subprocess.PIPE,
                           stderr=subprocess.STDOUT, timeout=timeout)
    except subprocess.TimeoutExpired:
        return {"status": "timeout", "lines": [], "out": ""}
    csv_path = os.path.join(outdir, "run_%s.csv" % tag)
    lines = []
    if os.path.exists(csv_path):
        with open(csv_path) as f:
            lines = f.read().splitlines()
    return {"status": "ok" if p.returncode == 0 else "rc%d" % p.returncode, "lines": lines,
            "out": p.stdout.decode(errors="replace")[-1500:]}


WALL_CLOCK_MASK = "<wall>"


def mask_trace(lines):
    """mask what the statement allows to differ: measured wall-clock scheduler durations (last
    column of SCHEDULER_FINISHED); and the flags that only name the output files"""
    out = []
    for ln in lines:
        c = ln.split(",")
        if c[0] == "input_flag":
            if len(c) > 1 and c[1] in ("log", "log_file_name", "csv", "csv_file_name", "log_dir"):
                continue
        elif len(c) > 5 and c[1] == "SCHEDULER_FINISHED":
            c[5] = WALL_CLOCK_MASK
        out.append(",".join(c))
    return out


def sort_utilization_blocks(lines):
    out, block = [], []
    for ln in lines:
        if ",WORKER_POOL_UTILIZATION," in ln:
            block.append(ln)
        else:
            out.extend(sorted(block))
            block = []
            out.append(ln)
    out.extend(sorted(block))
    return out


def check_C09(spec, hashseeds=(1, 3), keep=None):
    """returns (violations, nontrivial, info)"""
    v = []
    outdir = tempfile.mkdtemp(prefix="bworlds_c09_")
    try:
        runs = [run_main_py(spec, outdir, "h%s" % hs, hs) for hs in hashseeds]
    finally:
        if keep is None:
            shutil.rmtree(outdir, ignore_errors=True)
    info = {"status": [r["status"] for r in runs], "rows": [len(r["lines"]) for r in runs]}
    if any(r["status"] != "ok" for r in runs):
        # a crash/hang of main.py is not a reproducibility statement; reported as undecided
        info["undecided"] = "main.py did not complete: %s %s" % (
            info["status"], [r["out"][-300:] for r in runs if r["status"] != "ok"][:1])
        return v, False, info
    a = mask_trace(runs[0]["lines"])
    nontrivial = any(",TASK_PLACEMENT," in ln for ln in a)
    for k, r in enumerate(runs[1:], 1):
        b = mask_trace(r["lines"])
        if a == b:
            continue
        first = next((i for i, (x, y) in enumerate(zip(a, b)) if x != y), min(len(a), len(b)))
        xa = a[first] if first < len(a) else "<end>"
        xb = b[first] if first < len(b) else "<end>"
        random_release = any(g["release"]["policy"] in ("poisson", "gamma")
                             for g in spec["graphs"])
        if sort_utilization_blocks(a) == sort_utilization_blocks(b):
            vid = "trace.utilization_row_order_hashseed"
        elif random_release and [ln for ln in a if ",TASK_GRAPH_RELEASE," in ln] != [
                ln for ln in b if ",TASK_GRAPH_RELEASE," in ln]:
            vid = "release.unseeded_default_rng"
        else:
            ua, ub = sort_utilization_blocks(a), sort_utilization_blocks(b)
            first = next((i for i, (x, y) in enumerate(zip(ua, ub)) if x != y),
                         min(len(ua), len(ub)))
            xa = ua[first] if first < len(ua) else "<end>"
            xb = ub[first] if first < len(ub) else "<end>"
            kind = (xa.split(",") + ["", ""])[1] or "x"
            vid = "trace.differs.%s" % kind
        if vid == "release.unseeded_default_rng":
            ga = [ln for ln in a if ",TASK_GRAPH_RELEASE," in ln]
            gb = [ln for ln in b if ",TASK_GRAPH_RELEASE," in ln]
            j = next((i for i, (x, y) in enumerate(zip(ga, gb)) if x != y), min(len(ga), len(gb)))
            xa, xb = (ga + ["<none>"])[j], (gb + ["<none>"])[j]
        v.append((vid, "same workload, cluster, flags and --random_seed=%d, PYTHONHASHSEED %s vs "
                  "%s: traces differ (%d vs %d rows), first difference at row %d, e.g.:\n  %s\n  %s" % (
                      spec["seed"], hashseeds[0], hashseeds[k], len(a), len(b), first, xa, xb)))
    return v, nontrivial, info


# ---------------------------------------------------------------------------------------------
# replay entry point (used by the generated replay scripts)
# ---------------------------------------------------------------------------------------------
def describe(spec):
    gs = ["%s[%s;%s;%s]" % (g["name"], g.get("shape", "?"),
                             ",".join("%s:%s" % (t["name"], "|".join(
                                 "%s/%d" % ("+".join("%s%d" % kv for kv in sorted(s["res"].items())),
                                            s["rt"]) for s in t["strategies"]))
                                      for t in g["tasks"]), g["release"])
          for g in spec["graphs"]]
    return "mode=%s graphs=%s pools=%s sched=%s timeout=%s" % (
        spec["mode"], gs, spec["pools"], spec["sched"], spec.get("timeout"))


def evaluate(spec, pid, alarm=10):
    """run the world and the pid's clauses; returns (violations, nontrivial, calls, info)"""
    if pid == "C09":
        v, nt, info = check_C09(spec, tuple(spec.get("hashseeds", (1, 3))))
        return v, nt, {"main.py (fresh process)": len(spec.get("hashseeds", (1, 3)))}, info
    o = run_world(spec, alarm=alarm)
    o.now_at_end = o.now()
    v, nt = CHECKERS[pid](o)
    info = {"outcome": o.outcome, "exc": o.exc, "end_clock": o.now_at_end,
            "rows": len(o.rows), "tasks": len(o.tasks)}
    if o.outcome != "ended" and pid != "C05":
        info["undecided"] = "run did not end (%s %s); termination is checked under C05" % (
            o.outcome, o.exc)
    return v, nt, dict(o.calls), info


def replay_main(spec, pid, vid):
    if len(sys.argv) > 1 and sys.argv[1] == "--child":
        v, nt, calls, info = evaluate(spec, pid, alarm=15)
        print(json.dumps({"v": v, "info": info}, default=str))
        return 0
    print("world:", describe(spec))
    print("property %s, looking for violation %s" % (pid, vid))
    if spec.get("isolate"):
        # possible hang: run in a subprocess; the child puts a 15 s alarm around simulate(), the
        # parent kills it after 60 s whatever happens
        try:
            p = subprocess.run([sys.executable, os.path.abspath(sys.argv[0]), "--child"],
                               timeout=60, stdout=subprocess.PIPE, stderr=subprocess.PIPE)
        except subprocess.TimeoutExpired:
            print("SAW: the run did not return within 60 s")
            print("CONTRACT: every run reaches its end event")
            return 1
        try:
            res = json.loads(p.stdout.decode().strip().splitlines()[-1])
        except Exception:
            print("child failed:", p.stdout.decode()[-500:], p.stderr.decode()[-1500:])
            return 0
        v, info = [tuple(x) for x in res["v"]], res["info"]
    else:
        v, nt, calls, info = evaluate(spec, pid, alarm=20)
    print("run:", info)
    for x in v:
        print("VIOLATION %s: %s" % (x[0], x[1]))
    hit = [x for x in v if x[0] == vid]
    if hit:
        print("reproduced %s" % vid)
        return 1
    print("not reproduced")
    return 0


# ==== END HARNESS ============================================================================
# Everything below is the enumeration and the driver (not part of replay scripts).

SHAPES = {
    # name: (number of tasks, edges, conditional index, terminal index)
    "single": (1, [], None, None),
    "indep2": (2, [], None, None),
    "chain2": (2, [(0, 1)], None, None),
    "chain3": (3, [(0, 1), (1, 2)], None, None),
    "chain4": (4, [(0, 1), (1, 2), (2, 3)], None, None),
    "fork": (3, [(0, 1), (0, 2)], None, None),
    "join": (3, [(0, 2), (1, 2)], None, None),
    "diamond": (4, [(0, 1), (0, 2), (1, 3), (2, 3)], None, None),
    "fork3x": (4, [(0, 1), (0, 2), (0, 3), (3, 2)], None, None),  # T->{X,B,C}, C->B
    "cond": (4, [(0, 1), (0, 2), (1, 3), (2, 3)], 0, 3),  # if / two branches / join
    "cond_open": (3, [(0, 1), (0, 2)], 0, None),  # conditional without a join
}
GRAPHSETS = [
    ["single"], ["chain2"], ["indep2"], ["fork"], ["join"], ["chain3"], ["diamond"], ["cond"],
    ["cond_open"], ["fork3x"], ["chain4"], ["single", "single"], ["chain2", "single"],
    ["fork", "chain2"], ["diamond", "single"], ["cond", "chain2"], ["join", "join"],
    ["single", "single", "single"], ["chain2", "fork", "single"], ["diamond", "cond", "chain2"],
    ["fork3x", "chain2"], ["chain3", "join", "indep2"],
]
POOLS = {
    "c1": [[{"CPU": 1}]],
    "c2": [[{"CPU": 2}]],
    "c1c1": [[{"CPU": 1}, {"CPU": 1}]],
    "c1g1": [[{"CPU": 1, "GPU": 1}]],
    "c1|g1": [[{"CPU": 1}], [{"GPU": 1}]],
    "c2g1|c1": [[{"CPU": 2, "GPU": 1}], [{"CPU": 1}]],
    "c2g2": [[{"CPU": 2, "GPU": 2}]],
    "c1g1,c1|g1": [[{"CPU": 1, "GPU": 1}, {"CPU": 1}], [{"GPU": 1}]],
}
RUNTIMES = [(1, 2, 5, 1), (2, 2, 2, 2), (5, 1, 2, 2), (1, 1, 1, 1), (2, 5, 1, 5)]
STRATS = ["cpu1", "two", "cpu2", "both", "gpu_or_cpu"]


def strategies_for(pattern, i, rt):
    if pattern == "cpu1":
        return [{"res": {"CPU": 1}, "rt": rt}]
    if pattern == "two":
        if i % 2 == 0:
            return [{"res": {"GPU": 1}, "rt": max(1, rt // 2)}, {"res": {"CPU": 1}, "rt": rt}]
        return [{"res": {"CPU": 1}, "rt": rt}]
    if pattern == "cpu2":
        return [{"res": {"CPU": 2 if i == 0 else 1}, "rt": rt}]
    if pattern == "both":
        return [{"res": {"CPU": 1, "GPU": 1} if i % 2 else {"CPU": 1}, "rt": rt}]
    if pattern == "gpu_or_cpu":
        return [{"res": {"CPU": 1}, "rt": rt}, {"res": {"GPU": 1}, "rt": rt + 1}]
    raise ValueError(pattern)


def make_graph(name, shape, strat, rts, dl, release, mode):
    n, edges, cond, term = SHAPES[shape]
    tasks = []
    for i in range(n):
        t = {"name": "T%d" % i, "strategies": strategies_for(strat, i, rts[i % len(rts)])}
        if cond == i:
            t["cond"] = True
        if term == i:
            t["term"] = True
        if cond is not None and (cond, i) in edges:
            t["prob"] = 0.5
        tasks.append(t)
    g = {"name": name, "shape": shape, "tasks": tasks, "edges": [list(e) for e in edges],
         "release": release}
    fastest = [min(s["rt"] for s in t["strategies"]) for t in tasks]
    slowest = [max(s["rt"] for s in t["strategies"]) for t in tasks]
    # earliest possible completion of each task relative to the graph's release (fastest path)
    ecp = [0] * n
    for i in range(n):  # edges always go from a lower to a higher index except (3,2) in fork3x
        pass
    order = sorted(range(n), key=lambda i: (len(_ancestors(g, i)), i))
    for i in order:
        ecp[i] = fastest[i] + max([ecp[p] for p in g_parents(g, i)] or [0])
    total = sum(slowest)
    for i, t in enumerate(tasks):
        if mode == "hand":
            if dl == "tight":
                t["deadline"] = ecp[i]
            elif dl == "tight1":
                t["deadline"] = ecp[i] + 1
            elif dl == "loose":
                t["deadline"] = 10 * total + 20
            elif dl == "hopeless":
                t["deadline"] = max(0, fastest[i] - 1)
            elif dl == "mixed":
                t["deadline"] = max(0, fastest[i] - 1) if i == min(1, n - 1) else 10 * total + 20
            else:
                raise ValueError(dl)
        else:
            t["slo"] = {"tight": slowest[i], "tight1": slowest[i] + 1, "loose": 10 * slowest[i],
                        "hopeless": 0, "mixed": 0 if i == min(1, n - 1) else 10 * slowest[i]}[dl]
    return g


def _ancestors(g, i):
    out, todo = set(), list(g_parents(g, i))
    while todo:
        p = todo.pop()
        if p not in out:
            out.add(p)
            todo.extend(g_parents(g, p))
    return out


def balanced_column(rng, values, n):
    col = (list(values) * (n // len(values) + 1))[:n]
    rng.shuffle(col)
    return col


def gen_worlds(pid, tier, seed):
    rng = random.Random("%s/%s/%d" % (pid, "worlds", seed))
    n = {"quick": 224, "thorough": 2240}[tier]
    if pid == "C09":
        n = {"quick": 32, "thorough": 200}[tier]
    modes = ["hand", "hand", "jg", "yaml"]
    dls = ["loose", "tight", "tight1", "hopeless", "mixed"]
    scheds = ["EDF", "FIFO", "LSF"]
    enforce = [False, True]
    sruntime = [0, 0, 0, 1]
    freqs = [-1, -1, 0, 3]
    timeouts = [None] * 7 + [6]
    if pid == "C12":
        scheds, enforce, dls = ["EDF", "FIFO"], [True], ["tight", "tight1", "hopeless", "mixed"]
        sruntime = [0]
    if pid == "C05":
        freqs = [-1, 0, 0, 3, 1]
        timeouts = [None] * 5 + [6, 3]
    if pid == "C01":
        dls = ["loose", "loose", "tight", "mixed"]
    if pid in ("C01", "C02", "C03", "C06", "C08"):
        sruntime = [0] * 9 + [1]
    if pid == "C09":
        modes = ["yaml"]
        sruntime, freqs, timeouts = [0], [-1, -1, 3], [None]
    cols = {
        "gs": balanced_column(rng, GRAPHSETS, n), "pool": balanced_column(rng, sorted(POOLS), n),
        "strat": balanced_column(rng, STRATS, n), "rts": balanced_column(rng, RUNTIMES, n),
        "dl": balanced_column(rng, dls, n), "mode": balanced_column(rng, modes, n),
        "sched": balanced_column(rng, scheds, n), "enf": balanced_column(rng, enforce, n),
        "srt": balanced_column(rng, sruntime, n), "freq": balanced_column(rng, freqs, n),
        "timeout": balanced_column(rng, timeouts, n), "off": balanced_column(rng, [0, 3], n),
        "rel": balanced_column(rng, range(6), n), "seed": [rng.randrange(1000) for _ in range(n)],
    }
    worlds, seen = [], set()
    for k in range(n):
        mode = cols["mode"][k]
        graphs = []
        for gi, shape in enumerate(cols["gs"][k]):
            if mode == "hand":
                release = {"policy": "at", "time": gi * cols["off"][k]}
            else:
                choice = (cols["rel"][k] + gi) % 6
                if pid == "C09":
                    release = [
                        {"policy": "fixed", "period": 3, "n": 2},
                        {"policy": "closed_loop", "concurrency": 1, "n": 2},
                        {"policy": "poisson", "rate": 0.2, "n": 3},
                        {"policy": "gamma", "rate": 0.2, "coefficient": 1.0, "n": 3},
                        {"policy": "fixed", "period": 0, "n": 2, "start": 1},
                        {"policy": "closed_loop", "concurrency": 2, "n": 3},
                    ][choice]
                elif mode == "jg":
                    release = [
                        {"policy": "fixed", "period": 3, "n": 2},
                        {"policy": "periodic", "period": 7, "start": 0},
                        {"policy": "closed_loop", "concurrency": 1, "n": 2},
                        {"policy": "fixed", "period": 0, "n": 2, "start": 1},
                        {"policy": "periodic", "period": 4, "start": 2},
                        {"policy": "closed_loop", "concurrency": 2, "n": 3},
                    ][choice]
                else:
                    release = [
                        {"policy": "fixed", "period": 3, "n": 2},
                        {"policy": "closed_loop", "concurrency": 1, "n": 2},
                        {"policy": "fixed", "period": 0, "n": 2, "start": 1},
                        {"policy": "closed_loop", "concurrency": 2, "n": 3},
                        {"policy": "fixed", "period": 5, "n": 1},
                        {"policy": "closed_loop", "concurrency": 1, "n": 3},
                    ][choice]
            graphs.append(make_graph("G%d" % gi, shape, cols["strat"][k], cols["rts"][k],
                                     cols["dl"][k], release, mode))
        name = cols["sched"][k]
        spec = {
            "id": "%s-%04d" % (pid, k), "seed": cols["seed"][k], "mode": mode, "graphs": graphs,
            "pools": POOLS[cols["pool"][k]], "horizon": 12,
            "sched": {"name": name, "enforce": bool(cols["enf"][k]) and name != "LSF",
                      "runtime": cols["srt"][k], "freq": cols["freq"][k]},
            "timeout": cols["timeout"][k],
        }
        if pid == "C09":
            spec["hashseeds"] = [1, 3] if tier == "quick" else [1, 3, 4]
            if k % 4 == 0:
                spec["min_dv"], spec["max_dv"] = 0, 50
            if k % 2 == 0:
                # the YAML loader takes the deadline variance per graph: deadlines are drawn from the fuzz generator,
                # so the trace depends on how that generator is seeded
                for g in spec["graphs"]:
                    g["deadline_variance"] = [20, 120]
        if pid == "C12" and spec["sched"]["name"] == "LSF":
            continue
        key = json.dumps({x: spec[x] for x in spec if x not in ("id", "seed")}, sort_keys=True)
        if key in seen:
            continue
        seen.add(key)
        worlds.append(spec)
    if pid == "C05":
        worlds.extend(zero_runtime_worlds(tier))
        worlds.extend(freq0_worlds(tier))
        worlds.extend(worker_free_worlds(tier))
    if pid == "C12":
        worlds.extend(ilp_worlds(tier))
    return worlds


def zero_runtime_worlds(tier):
    """worlds with a zero-runtime strategy (the loader's default when `runtime` is omitted);
    always run in a subprocess"""
    out = []
    combos = [("single", "c1", "EDF", "yaml", True), ("chain2", "c1", "FIFO", "hand", False),
              ("single", "c2", "LSF", "jg", False), ("fork", "c1c1", "EDF", "hand", False),
              ("indep2", "c1", "EDF", "yaml", False), ("chain2", "c1g1", "FIFO", "jg", False)]
    if tier == "thorough":
        combos += [(s, p, sc, m, False) for s in ("single", "join", "cond") for p in ("c1", "c2")
                   for sc in ("EDF", "LSF") for m in ("hand", "yaml")]
    for k, (shape, pool, sched, mode, default) in enumerate(combos):
        rel = {"policy": "at", "time": 0} if mode == "hand" else {"policy": "fixed", "period": 3,
                                                                   "n": 1}
        g = make_graph("G0", shape, "cpu1", (1, 1, 1, 1), "loose", rel, mode)
        zi = len(g["tasks"]) - 1 if k % 2 else 0
        g["tasks"][zi]["strategies"][0]["rt"] = 0
        if default:
            g["tasks"][zi]["strategies"][0]["rt_default"] = True  # YAML omits `runtime`
        out.append({"id": "C05-zero-%02d" % k, "seed": k, "mode": mode, "graphs": [g],
                    "pools": POOLS[pool], "horizon": 12,
                    "sched": {"name": sched, "enforce": False, "runtime": 0, "freq": -1},
                    "timeout": None, "isolate": True})
    return out


def freq0_worlds(tier):
    """scheduler_frequency 0 with a zero scheduler runtime, on clusters where a placement can be
    delayed (WORKER_NOT_READY retry): the next scheduler start must still move forward in time"""
    out = []
    shapes = ["fork", "indep2", "join"] if tier == "quick" else [
        "fork", "indep2", "join", "diamond", "fork3x", "chain2"]
    k = 0
    for shape in shapes:
        for pool in ("c1g1,c1|g1", "c2g1|c1", "c1g1"):
            for sched in ("LSF", "EDF"):
                for strat in (("gpu_or_cpu",) if tier == "quick" else ("gpu_or_cpu", "two")):
                    rel = {"policy": "fixed", "period": 0, "n": 2, "start": 1}
                    g = make_graph("G0", shape, strat, (2, 5, 1, 5), "loose", rel, "jg")
                    out.append({"id": "C05-freq0-%02d" % k, "seed": k, "mode": "jg",
                                "graphs": [g], "pools": POOLS[pool], "horizon": 12,
                                "sched": {"name": sched, "enforce": False, "runtime": 0,
                                          "freq": 0}, "timeout": None})
                    k += 1
    return out


def worker_free_worlds(tier):
    """--scheduler_run_at_worker_free on single-worker / homogeneous clusters with releases that arrive while
    the cluster is idle (period > runtime) or busy (period < runtime): the run must still reach its end with all
    tasks completed"""
    out = []
    k = 0
    shapes = ["single", "chain2"] if tier == "quick" else ["single", "chain2", "fork", "indep2"]
    for shape in shapes:
        for pool in ("c1", "c2"):
            for sched in ("EDF", "FIFO"):
                for period, n in ((7, 3), (1, 3)):
                    rel = {"policy": "fixed", "period": period, "n": n, "start": 2}
                    g = make_graph("G0", shape, "cpu1", (2, 2, 2, 2), "loose", rel, "jg")
                    out.append({"id": "C05-wfree-%02d" % k, "seed": k, "mode": "jg", "graphs": [g], "pools": POOLS[pool],
                                "horizon": 40, "sched": {"name": sched, "enforce": False, "runtime": 0, "freq": -1,
                                                         "at_worker_free": True}, "timeout": 2000})
                    k += 1
    return out


def ilp_worlds(tier):
    out = []
    combos = [("single", "c1", "tight1"), ("chain2", "c1", "loose"), ("indep2", "c1", "tight1"),
              ("fork", "c1c1", "loose"), ("indep2", "c2", "mixed"), ("single", "c1", "hopeless")]
    if tier == "thorough":
        combos += [(s, p, d) for s in ("chain3", "join", "diamond") for p in ("c1", "c1c1")
                   for d in ("loose", "tight1", "mixed")]
    for k, (shape, pool, dl) in enumerate(combos):
        g = make_graph("G0", shape, "cpu1", (2, 1, 2, 1), dl, {"policy": "at", "time": 0}, "hand")
        if dl in ("loose", "tight1"):
            for t in g["tasks"]:
                t["deadline"] += 3  # the ILP starts tasks at now+1 at the earliest
        out.append({"id": "C12-ilp-%02d" % k, "seed": k, "mode": "hand", "graphs": [g],
                    "pools": POOLS[pool], "horizon": 12,
                    "sched": {"name": "ILP", "enforce": True, "runtime": 0, "freq": -1},
                    "timeout": 60, "isolate": True})
    return out


# ---------------------------------------------------------------------------------------------
# driver
# ---------------------------------------------------------------------------------------------
def harness_source():
    src = open(os.path.abspath(__file__)).read()
    a = src.index("# ==== BEGIN HARNESS")
    b = src.index("# ==== END HARNESS")
    return src[a:b]


def replay_script(spec, pid, vid):
    return (harness_source() + "\n\nSPEC = json.loads(r'''%s''')\nPID = %r\nVID = %r\n\n"
            "if __name__ == '__main__':\n    sys.exit(replay_main(SPEC, PID, VID))\n" % (
                json.dumps(spec, sort_keys=True), pid, vid))


def eval_isolated(spec, pid, timeout):
    """evaluate a world in a fresh subprocess so that a hang cannot hang the check"""
    fd, path = tempfile.mkstemp(prefix="bworlds_spec_", suffix=".json")
    with os.fdopen(fd, "w") as f:
        json.dump(spec, f)
    env = dict(os.environ)
    env["PYTHONPATH"] = REPO + os.pathsep + os.path.dirname(os.path.dirname(
        os.path.abspath(__file__)))
    try:
        p = subprocess.run([sys.executable, os.path.abspath(__file__), "--pid", pid,
                            "--out", os.devnull, "--eval-spec", path],
                           timeout=timeout, stdout=subprocess.PIPE, stderr=subprocess.PIPE,
                           env=env)
        res = json.loads(p.stdout.decode().strip().splitlines()[-1])
        return ([tuple(x) for x in res["v"]], res["nt"], res["calls"], res["info"])
    except subprocess.TimeoutExpired:
        zero = any(s["rt"] == 0 for g in spec["graphs"] for t in g["tasks"]
                   for s in t["strategies"])
        vid = "simulate.zero_runtime_livelock" if zero else (
            "simulate.hang.scheduler_frequency_0" if spec["sched"]["freq"] == 0
            else "simulate.hang")
        v = [(vid, "the run did not return within %d s (fresh subprocess)" % timeout)]
        return (v if pid == "C05" else [], True, {"Simulator.simulate": 1},
                {"outcome": "hang", "undecided": None if pid == "C05" else "run hangs (C05)"})
    except Exception as e:
        return ([], False, {}, {"undecided": "isolated evaluation failed: %r %s" % (
            e, p.stderr.decode()[-400:] if "p" in dir() else "")})
    finally:
        os.unlink(path)


def work(job):
    spec, pid = job
    t0 = time.time()
    try:
        if spec.get("isolate"):
            v, nt, calls, info = eval_isolated(spec, pid, timeout=300)
        else:
            v, nt, calls, info = evaluate(spec, pid, alarm=10)
        return {"spec": spec, "v": v, "nt": nt, "calls": calls, "info": info,
                "secs": time.time() - t0}
    except BaseException as e:  # a failure of the check itself: never a violation
        return {"spec": spec, "v": [], "nt": False, "calls": {}, "secs": time.time() - t0,
                "info": {"undecided": "checker error: %s" % traceback.format_exc()[-1200:]}}


RULES = {
    "C01": "world counts as non-trivial when >=2 placements happened on real workers and at some "
           "instant >=2 tasks were resident in the cluster or a placement had to wait for capacity",
    "C02": "non-trivial: some task with a predecessor (per the spec) actually started",
    "C03": "non-trivial: at least one task ran to completion",
    "C05": "non-trivial: at least one task was released (or the run hung)",
    "C06": "non-trivial: at least one task reached a final state (COMPLETED/CANCELLED)",
    "C08": "non-trivial: the trace has at least one TASK_FINISHED or TASK_CANCEL row",
    "C09": "non-trivial: both main.py runs completed and the trace has a TASK_PLACEMENT row",
    "C12": "non-trivial: under enforcement some schedule() call was offered a task with deadline < "
           "now + fastest runtime (EDF/FIFO), or an ILP run completed a task",
}
CLAUSES = {
    "C01": "at every Worker.place_task/remove_task on a real worker: per resource name, sum of "
           "resident strategy demands (batch once) <= capacity from the spec; task resident on "
           "one worker only",
    "C02": "start >= observed release and intended release; every predecessor (spec edges) "
           "completed before start (conditional join: >=1 done, none pending); <=1 start, <=1 finish",
    "C03": "completion-start == runtime of the scheduler-chosen strategy; worker holds the task "
           "exactly [s,s+r]; TASK_FINISHED at s+r; clock monotone; events handled at their time in "
           "time order; start >= chosen time; first attempt at chosen time; ready & pool can hold "
           "=> started at that attempt",
    "C05": "simulate() returns (alarm / subprocess timeout), no exception; single SIMULATOR_END <= "
           "timeout, last row; work-conserving + every task fits => all tasks COMPLETED before the "
           "timeout, all invocations asked for by the release policy exist; no released runnable "
           "task left at an early end",
    "C06": "every observed transition (and every change between mutator calls) in the allowed "
           "relation; final states final; cancelled never starts; cancellation closed downstream; "
           "TASK_GRAPH_FINISHED iff all sinks completed, at that time",
    "C08": "SIMULATOR_END counters vs task final states; RELEASE/PLACEMENT/FINISHED/CANCEL/"
           "MISSED_DEADLINE/SCHEDULED/SKIP/SCHEDULER_START/SCHEDULER_FINISHED/UTILIZATION/"
           "GRAPH_RELEASE rows vs observed truth; CSVReader accepts the trace; reconstructed "
           "tasks/graphs match the run",
    "C09": "same world via main.py in fresh processes with PYTHONHASHSEED 1 and 3 (thorough: +4), "
           "same --random_seed: traces identical after masking wall-clock scheduler durations",
    "C12": "EDF/FIFO with enforcement: deadline < now + fastest runtime => CANCEL decision, never "
           "placed, never started; ILP tiny worlds: completed => by deadline",
}


def main():
    here = os.path.dirname(os.path.dirname(os.path.abspath(__file__)))
    if here not in sys.path:
        sys.path.insert(0, here)
    from bounded.common import Result, parse_args

    args = parse_args(lambda ap: ap.add_argument("--eval-spec", default=None))
    if args.eval_spec:
        spec = json.load(open(args.eval_spec))
        v, nt, calls, info = evaluate(spec, args.pid, alarm=6)
        print(json.dumps({"v": v, "nt": nt, "calls": calls, "info": info}, default=str))
        return
    pid = args.pid
    if pid not in RULES:
        raise SystemExit("unknown pid %s" % pid)
    worlds = gen_worlds(pid, args.tier, args.seed)
    R = Result(args, rule=RULES[pid] + ". Clauses: " + CLAUSES[pid], bound="")
    R.exhaustive = False
    import multiprocessing as mp

    if pid != "C09":
        repo()  # import the repository once, before forking the workers
    ctx = mp.get_context("fork")
    with ctx.Pool(14) as pool:
        results = pool.map(work, [(w, pid) for w in worlds], chunksize=1)

    def size(spec):
        return (sum(len(g["tasks"]) for g in spec["graphs"]), len(spec["graphs"]),
                sum(len(p) for p in spec["pools"]), len(json.dumps(spec)))

    outcomes = collections.Counter()
    best = {}
    und = {}
    for r in results:
        spec = r["spec"]
        R.case(spec_key(spec), r["nt"], sample=describe(spec)[:400] if r["nt"] else None)
        for fn, n in r["calls"].items():
            R.called(fn, n)
        outcomes[str(r["info"].get("outcome", r["info"].get("status", "?")))] += 1
        if r["info"].get("undecided"):
            u = str(r["info"]["undecided"])
            cls = "checker error" if u.startswith("checker error") else u.split("Task ")[0][:160]
            und.setdefault(cls, []).append((spec["id"], u))
        for vid, what in r["v"]:
            if vid not in best or size(spec) < size(best[vid][0]):
                best[vid] = (spec, what)
    for vid, (spec, what) in sorted(best.items()):
        R.violation(vid, "%s\nworld: %s" % (what, describe(spec)), replay_script(spec, pid, vid))
    for r in results:
        for vid, what in r["v"]:
            if r["spec"] is not best[vid][0]:
                R.violation(vid, what)
    not_ended = []
    for cls, items in sorted(und.items()):
        if cls.startswith("run did not end") or cls.startswith("run hangs"):
            # termination / crashes are decided under C05 (where they are violations); for the other
            # clauses such a world simply offers nothing to evaluate. Guard against vacuity: if a large
            # share of the worlds ends like that, this pid's clauses were not really exercised.
            not_ended.append((cls, len(items), items[0][0], items[0][1][:400]))
            continue
        R.undecided.append("%d world(s), e.g. %s: %s" % (len(items), items[0][0], items[0][1][:700]))
    n_not_ended = sum(x[1] for x in not_ended)
    R.extra["worlds_not_evaluated_because_the_run_did_not_end"] = {"count": n_not_ended, "examples": not_ended[:3], "decided_under": "C05"}
    if results and n_not_ended > 0.4 * len(results):
        R.undecided.append("%d of %d worlds did not reach their end event (decided under C05): too few evaluable worlds for %s" % (n_not_ended, len(results), args.pid))
    R.bound = ("%d sampled worlds (balanced over: %d graph sets of <=3 graphs x <=4 tasks from "
               "shapes %s; %d clusters of 1-2 pools x 1-2 workers x 1-2 resource types; %d "
               "strategy patterns (1-2 strategies); runtimes {1,2,5}%s; deadlines loose/tight/"
               "tight+1/hopeless/mixed; hand-built TaskGraphs, JobGraph fixed/periodic/closed-loop, "
               "real WorkloadLoader on YAML fixed/closed-loop; EDF/FIFO/LSF x enforce_deadlines x "
               "scheduler runtime {0,1} x scheduler_frequency {-1,0,1,3}; loop timeout default/6; "
               "runtime variance 0, no preemption); outcomes %s; sampled, not exhaustive" % (
                   len(worlds), len(GRAPHSETS), sorted(SHAPES), len(POOLS), len(STRATS),
                   " + 0 in dedicated C05 worlds" if pid == "C05" else "", dict(outcomes)))
    if pid == "C09":
        R.bound = ("%d sampled worlds, each run through `python main.py` in %d fresh processes "
                   "with different PYTHONHASHSEED and the same --random_seed (YAML workload + "
                   "YAML cluster written to a temp dir): %d graph sets of <=3 graphs x <=4 tasks "
                   "(shapes %s), %d clusters (1-2 pools, 1-2 workers, 1-2 resource types), release "
                   "policies fixed/closed_loop/poisson/gamma, per-graph deadline variance none or 20..120%% (every second world), "
                   "EDF/FIFO/LSF, enforce_deadlines on/off, scheduler_runtime 0 (fixed by flag), "
                   "scheduler_frequency -1/3, runtime variance 0; outcomes %s; sampled, not "
                   "exhaustive" % (len(worlds), len(worlds[0]["hashseeds"]) if worlds else 0,
                                   len(GRAPHSETS), sorted(SHAPES), len(POOLS), dict(outcomes)))
    R.extra["slowest_world_seconds"] = round(max([r["secs"] for r in results] or [0]), 2)
    R.finish()


if __name__ == "__main__":
    main()
