"""Shared protocol for bounded stand-ins (E2b/E3). Run under /venv/bin/python with
PYTHONPATH=$PYVC_REPO:/verif (set by vlib/check.py).

    python bounded/<script>.py --pid Cxx --tier quick|thorough --seed N --out <json>

The script checks *contracts* (spec functions written from the property statement, brute force)
against the REAL functions imported from the repository, over all inputs up to a stated bound.
It never compares against recorded outputs. Result JSON (written by Result.finish):
  evaluations, distinct_nontrivial, rule, samples, exhaustive, bound, functions (real functions
  exercised, with call counts), violations [{id, what, replay}], undecided [text]
A violation id is stable and specific ("depth_first.duplicate_yield"): known_findings.json matches
on it by prefix, so a *different* violation of the same property is still reported.
"""
import argparse
import json
import os
import sys
import time

VERIF = os.path.dirname(os.path.dirname(os.path.abspath(__file__)))
REPO = os.environ.get("PYVC_REPO", "/repo")


def parse_args(extra=None):
    ap = argparse.ArgumentParser()
    ap.add_argument("--pid", required=True)
    ap.add_argument("--tier", default="quick")
    ap.add_argument("--seed", type=int, default=0)
    ap.add_argument("--out", required=True)
    if extra:
        extra(ap)
    return ap.parse_args()


def quiet_logging():
    import logging

    logging.disable(logging.CRITICAL)


class Result:
    def __init__(self, args, rule, bound):
        self.args = args
        self.rule = rule
        self.bound = bound
        self.evaluations = 0
        self.distinct = set()
        self.samples = []
        self.violations = {}
        self.undecided = []
        self.functions = {}
        self.exhaustive = True
        self.t0 = time.time()
        self.extra = {}

    def case(self, key, nontrivial=True, sample=None):
        """count one evaluated case; key identifies it for distinctness"""
        self.evaluations += 1
        if nontrivial:
            self.distinct.add(key)
        if sample is not None and len(self.samples) < 5:
            self.samples.append(sample)

    def called(self, fn, n=1):
        self.functions[fn] = self.functions.get(fn, 0) + n

    def violation(self, vid, what, replay_script=None):
        """record (first occurrence per id); replay_script: python source that exits 1 when the
        violation reproduces on the real code (run with PYTHONPATH=repo)"""
        if vid in self.violations:
            self.violations[vid]["count"] += 1
            return
        path = None
        if replay_script is not None:
            d = os.path.join(os.environ.get("VERIF_REPLAY_DIR") or os.path.join(VERIF, "replays"), self.args.pid)
            os.makedirs(d, exist_ok=True)
            safe = "".join(ch if ch.isalnum() or ch in "._-" else "_" for ch in vid)[:120]
            path = os.path.join(d, "bounded_%s.py" % safe)
            with open(path, "w") as f:
                f.write('"""Replay for property %s, bounded check violation %s\n%s\n"""\n' % (self.args.pid, vid, str(what).replace('"""', "'''")))
                f.write(replay_script)
        self.violations[vid] = {"id": vid, "what": str(what)[:1500], "replay": path, "count": 1}

    def finish(self):
        out = {
            "evaluations": self.evaluations,
            "distinct_nontrivial": len(self.distinct),
            "rule": self.rule,
            "bound": self.bound,
            "samples": self.samples,
            "exhaustive": self.exhaustive,
            "functions": self.functions,
            "violations": list(self.violations.values()),
            "undecided": self.undecided,
            "seconds": round(time.time() - self.t0, 2),
            "level": "bounded",
        }
        out.update(self.extra)
        with open(self.args.out, "w") as f:
            json.dump(out, f, indent=1, default=str)
        print("bounded %s: evaluations=%d distinct=%d violations=%d" % (os.path.basename(sys.argv[0]), self.evaluations, len(self.distinct), len(self.violations)))
