"""Bounded stand-in for C04 (resource ledger conservation) and C01 (no worker oversubscribed).

    python bounded/ledger.py --pid C04|C01 --tier quick|thorough --seed N --out file.json

Technique: exhaustive enumeration of *operation histories* over the REAL `Resources`, `Worker`,
`WorkerPool` (and `WorkerPools` for copying) of the repository, over small resource vectors.
After the last operation of every history the real objects are compared with an independent
abstract ledger kept by this script (who is resident with which demand), written from the
property statement; the demand of a strategy is taken from this script's own table, not from
the repository.  Every prefix of a history is itself a history, so every step of every history
is checked.

Level 1: histories over a bare `Resources` (allocate / allocate_multiple / deallocate / copy /
         deepcopy), request ids 'any' and specific, quantities 0..3.
Level 2: histories over a `Worker` and over a `WorkerPool` of two workers (place / place in a
         batch / remove / load_profile / evict_profile / step / copy / deepcopy, for the pool also
         with explicit worker ids and copying through `WorkerPools`).  After a copy the history
         continues on BOTH the original (A) and the copy (B); each has its own ledger (copy: a clone
         of A's ledger, deepcopy: empty), so "same occupancy", "independent" and "deepcopy is
         empty" are all the same comparison real-vs-ledger.

Clauses (C04), checked after every step for every instance and worker:
  conservation    per resource name available(any)+allocated(any)==configured total; per key
                  0<=available<=total; key set unchanged
  refusal         an operation that raised (or pool.place_task returning False) changed nothing
                  observable (per-key availability, allocation entries, placed tasks, batches,
                  profiles, pool map, sharing of pending-profile strategy objects)
  holdings        every resident non-batch task holds exactly its strategy's demand, every batch
                  with >=1 member holds its demand exactly once, every loaded/pending profile holds
                  its loading strategy's demand, nobody else holds anything; no batch registered
                  with zero members; resident set == ledger
  draw            an allocation only draws from keys matching the request
  drain           removing every resident and evicting every profile restores available==total
  copy/deepcopy   via the per-instance ledgers (see above), including profile loading progress
  must_succeed    removing a resident / evicting a loaded profile / deallocating a holder works
  can_accomodate  can_accomodate_strategy(s) True => place_task(t, s) does not raise
Clauses (C01): per worker and resource name the sum of the demands of the strategies of the
  residents (a batch once) and of the loaded/pending profiles <= configured capacity; available
  never negative; a task is resident on at most one worker; pool map agrees with the workers.

Every history is run from scratch on freshly built real objects (cast and cluster), except that a
history whose last operation was refused and verifiably changed nothing hands its objects to the
next sibling history.  Ids of violations encode <operation>.<failed clause> (not the history);
two root causes get fixed ids wherever they surface: `allocate_multiple.partial_on_refusal`
(refused request with two keys matching one worker key leaves the first key allocated) and
`remove_task.phantom_batch` (C01: `remove_task.phantom_batch.oversubscribed`).  A clause failing on
the instance the operation was NOT applied to is `<copy op>.not_independent.<operation>.<clause>`.
Each recorded violation's replay is executed once against the repository before it is reported;
a replay that does not exit 1 is listed under `undecided`.

Pruning (stated in `bound`): (a) a refused operation ends the history (it changed nothing, so
every extension equals the history without it); (b) a violation ends the history; (c) tasks /
computations are interchangeable, so only histories using them in first-use order are run;
(d) a subtree is skipped when the same concrete state (full observation of all instances +
pending-strategy sharing + ledger) was already expanded with at least the same remaining depth
(reset per depth-1 subtree so that counts are deterministic).
Preconditions of the enumeration (documented, derived from the task state machine): a task is
placed only when it is not resident in that cluster instance; a profile is loaded on a worker only
when it is not loaded there.
Resource vectors mixing an 'any' key with specific keys of the same name are explored too; what
fails there in `__copy__` (the copy replays allocations against different keys and can even
raise) is reported under `observations`, not `violations` (both workload loaders build
homogeneous vectors); every other clause failing there is a violation as everywhere else.
"""
import hashlib
import multiprocessing
import os
import subprocess
import sys
import time

try:
    from bounded.common import REPO, Result, parse_args, quiet_logging
except ImportError:  # pragma: no cover
    sys.path.insert(0, os.path.dirname(os.path.abspath(__file__)))
    from common import REPO, Result, parse_args, quiet_logging

# --------------------------------------------------------------------------------------------
# Source shared verbatim between this harness and every replay script (single source of truth
# for how objects are built and how the real objects are observed).
# --------------------------------------------------------------------------------------------
PRELUDE = r'''
import logging
import random
import sys

logging.disable(logging.CRITICAL)
from copy import copy, deepcopy

from utils import EventTime
from workers import Worker, WorkerPool, WorkerPools
from workload import (BatchStrategy, ExecutionStrategy, Job, Resource, Resources, Task,
                      WorkProfile)

US = EventTime.Unit.US
ZERO = EventTime.zero()
LABELS = {}
PROFILES = []
JOB = Job(name="J", profile=WorkProfile(name="JP"))


def mk_res(vec):
    return Resources(resource_vector={Resource(name=n, _id=i): q for n, i, q in vec})


def mk_strategy(vec, runtime=10, batch=False):
    s = ExecutionStrategy(resources=mk_res(vec), batch_size=2, runtime=EventTime(runtime, US))
    return BatchStrategy(s) if batch else s


def mk_task(name):
    return Task(name=name, task_graph="G", job=JOB, deadline=EventTime(1000, US))


def register(ns, names):
    LABELS.clear()
    del PROFILES[:]
    for n in names:
        LABELS[id(ns[n])] = n
        if isinstance(ns[n], WorkProfile):
            PROFILES.append(ns[n])


def lab(c):
    return LABELS.get(id(c)) or ("?" + str(getattr(c, "name", c)))


def demand_of(strategy):
    """per-name demand of a REAL strategy object (used for the C01 sum only)"""
    d = {}
    for k, q in strategy.resources.resources:
        d[k.name] = d.get(k.name, 0) + q
    return d


def obs_res(r, holders=None):
    """observation of a Resources: per-key availability (internal dict, read only to state the
    conservation sum), everything else through public getters that do not mutate"""
    holders = holders or {}
    tot = {}
    for k, q in r.resources:
        tot[(k.name, k.id)] = q
    keys = [[k.name, k.id, q, tot.get((k.name, k.id))] for k, q in r._resource_vector.items()]
    seen = set((k[0], k[1]) for k in keys)
    for (n, i), q in tot.items():
        if (n, i) not in seen:
            keys.append([n, i, None, q])
    names = sorted(set(k[0] for k in keys))
    per_name, held = {}, {}
    for n in names:
        a = Resource(name=n, _id="any")
        per_name[n] = [r.get_available_quantity(a), r.get_allocated_quantity(a), r.get_total_quantity(a)]
        for c, q in r.get_allocated_computation(a):
            if q != 0:
                h = held.setdefault(holders.get(id(c)) or lab(c), {})
                h[n] = h.get(n, 0) + q
    entries = [[holders.get(id(c)) or lab(c), [[k.name, k.id, q] for k, q in al]]
               for c, al in r._current_allocations.items()]
    return {"keys": keys, "names": per_name, "held": held, "entries": entries}


def obs_worker(w):
    holders = dict((id(bt), "batch:" + lab(b)) for b, bt in w._batch_tasks_for_strategy.items())
    d = obs_res(w.resources, holders)
    d["placed"] = [lab(t) for t in w.get_placed_tasks()]
    d["strategies"] = dict((lab(t), lab(s)) for t, s in w._placed_tasks.items())
    d["batches"] = dict((lab(b), sorted(lab(t) for t in m)) for b, m in w._placed_batches.items())
    d["batch_holders"] = sorted(lab(b) for b in w._batch_tasks_for_strategy)
    av, pe = w.get_available_profiles(), w.get_pending_profiles()
    d["avail_profiles"] = sorted(lab(p) for p in av)
    d["pending_profiles"] = sorted(lab(p) for p in pe)
    d["profile_time"] = dict((lab(p), w.is_available(p).to(US).time) for p in PROFILES)
    # C01 left-hand side: demands of the strategies of whoever occupies the worker, batch once
    dem, batches_seen = {}, set()
    occupants = []
    for t, s in w._placed_tasks.items():
        if isinstance(s, BatchStrategy):
            if id(s) in batches_seen:
                continue
            batches_seen.add(id(s))
        occupants.append(s)
    occupants.extend(w._available_profiles.values())
    occupants.extend(w._pending_profiles.values())
    for s in occupants:
        for n, q in demand_of(s).items():
            dem[n] = dem.get(n, 0) + q
    d["c01_demand"] = dem
    return d


def observe(x):
    if isinstance(x, Resources):
        return {"workers": [obs_res(x)]}
    if isinstance(x, Worker):
        return {"workers": [obs_worker(x)]}
    ws = x.workers
    idx = dict((w.id, i) for i, w in enumerate(ws))
    return {"workers": [obs_worker(w) for w in ws],
            "pool_placed": dict((lab(t), idx.get(wid, "?")) for t, wid in x._placed_tasks.items()),
            "pool_placed_public": sorted(lab(t) for t in x.get_placed_tasks()),
            "pools_placed_public": sorted(lab(t) for t in WorkerPools([x]).get_placed_tasks())}


def workers_of(x):
    if isinstance(x, Resources):
        return []
    if isinstance(x, Worker):
        return [x]
    return x.workers


def observe_all(ns):
    out = {}
    shared, sig = {}, []
    for name in ("A", "B"):
        if name in ns:
            out[name] = observe(ns[name])
            for i, w in enumerate(workers_of(ns[name])):
                for p, s in w._pending_profiles.items():
                    sig.append([name, i, lab(p), shared.setdefault(id(s), len(shared))])
    out["pending_strategy_sharing"] = sig
    return out


def dig(o, path):
    for k in path:
        o = o[k]
    return o


def conservation_problems(wobs, vec):
    """vec: configured [(name, id, total)] of this worker"""
    out = []
    want_keys = [[n, i, q] for n, i, q in vec]
    if [[k[0], k[1], k[3]] for k in wobs["keys"]] != want_keys:
        out.append("key set / per-key totals %r != configured %r" % ([[k[0], k[1], k[3]] for k in wobs["keys"]], want_keys))
    for n, i, av, tot in wobs["keys"]:
        if av is None or tot is None or not (0 <= av <= tot):
            out.append("key %s:%s available=%r outside [0, total=%r]" % (n, i, av, tot))
    cfg = {}
    for n, i, q in vec:
        cfg[n] = cfg.get(n, 0) + q
    for n in sorted(set(cfg) | set(wobs["names"])):
        av, al, tot = wobs["names"].get(n, [None, None, None])
        if tot != cfg.get(n) or av is None or av + al != tot:
            out.append("%s: available(any)=%r + allocated(any)=%r vs total(any)=%r, configured %r" % (n, av, al, tot, cfg.get(n)))
        # get_allocated_quantity is total-available by definition; the real conservation sum uses
        # what the computations actually hold (the allocation entries)
        held = sum(h.get(n, 0) for h in wobs["held"].values())
        if av is not None and av + held != cfg.get(n):
            out.append("%s: available(any)=%r + sum of quantities held by computations=%r != configured total %r" % (n, av, held, cfg.get(n)))
    per_key = {}
    for _c, al in wobs["entries"]:
        for n, i, q in al:
            per_key[(n, i)] = per_key.get((n, i), 0) + q
            if q < 0:
                out.append("negative allocation entry %s:%s %d" % (n, i, q))
    for n, i, av, tot in wobs["keys"]:
        if av is not None and tot is not None and av + per_key.get((n, i), 0) != tot:
            out.append("key %s:%s available=%r + allocated entries=%r != total %r" % (n, i, av, per_key.get((n, i), 0), tot))
    for (n, i) in per_key:
        if [n, i] not in [k[:2] for k in wobs["keys"]]:
            out.append("allocation entry on unknown key %s:%s" % (n, i))
    return out


def c01_problems(wobs, vec):
    out = []
    cap = {}
    for n, i, q in vec:
        cap[n] = cap.get(n, 0) + q
    for n, q in sorted(wobs.get("c01_demand", {}).items()):
        if q > cap.get(n, 0):
            out.append("%s: demands of occupants sum to %d > capacity %d" % (n, q, cap.get(n, 0)))
    for n, i, av, tot in wobs["keys"]:
        if av is not None and av < 0:
            out.append("key %s:%s available=%d < 0" % (n, i, av))
    return out


def _match(a, b):
    return a == "any" or b == "any" or a == b


def draw_problems(before, after, req):
    """the step may only lower the availability of keys matching a request key, by the requested
    total per name; req: [(name, id, q)]"""
    out = []
    want = {}
    for n, i, q in req:
        want[n] = want.get(n, 0) + q
    got = {}
    for kb, ka in zip(before["keys"], after["keys"]):
        if kb[:2] != ka[:2]:
            return ["key order changed"]
        d = kb[2] - ka[2]
        if d < 0:
            out.append("key %s:%s availability grew by %d" % (kb[0], kb[1], -d))
        if d != 0 and not any(n == kb[0] and _match(i, kb[1]) for n, i, q in req):
            out.append("drew %d from %s:%s which matches no request key" % (d, kb[0], kb[1]))
        got[kb[0]] = got.get(kb[0], 0) + d
    for n in sorted(set(want) | set(got)):
        if got.get(n, 0) != want.get(n, 0):
            out.append("%s: drew %d, requested %d" % (n, got.get(n, 0), want.get(n, 0)))
    return out


def run_stmt(src, ns):
    ns["_ret"] = None
    try:
        exec(src, ns)
        return ["ok", ns.get("_ret")]
    except Exception as e:  # a refusal
        return ["raise", type(e).__name__ + ": " + str(e)[:160]]
'''

_P = {"__name__": "ledger_prelude"}
_CODE_CACHE = {}


def _prelude():
    if "observe" not in _P:
        exec(compile(PRELUDE, "<ledger-prelude>", "exec"), _P)
    return _P


def _code(src):
    c = _CODE_CACHE.get(src)
    if c is None:
        c = _CODE_CACHE[src] = compile(src, "<op>", "exec")
    return c


# --------------------------------------------------------------------------------------------
# Configurations
# --------------------------------------------------------------------------------------------
def _match(a, b):
    return a == "any" or b == "any" or a == b


def overlap(req, vec):
    """two distinct request keys match a common key of the worker vector"""
    for x in range(len(req)):
        for y in range(x + 1, len(req)):
            (n1, i1, _), (n2, i2, _) = req[x], req[y]
            if n1 != n2:
                continue
            for (n, i, _) in vec:
                if n == n1 and _match(i1, i) and _match(i2, i):
                    return True
    return False


def homogeneous(vec):
    names_any = set(n for n, i, _ in vec if i == "any")
    names_spec = set(n for n, i, _ in vec if i != "any")
    return not (names_any & names_spec)


def dem(vec):
    d = {}
    for n, i, q in vec:
        if q:
            d[n] = d.get(n, 0) + q
    return d


G, C = "GPU", "CPU"


class Config(object):
    def __init__(self, name, kind, vecs, reqs=None, multis=None, comps=None, strategies=None, loads=None, ntasks=0, profiles=(), depth=None, all_q=False):
        self.name, self.kind, self.vecs = name, kind, [list(v) for v in vecs]
        self.level = 1 if kind == "resources" else 2
        self.reqs = reqs or []  # level 1: [(name, id)]
        self.multis = multis or []  # level 1: [vec]
        self.comps = comps or []  # level 1: labels; c1.. tasks, last may be a profile ("cp")
        self.strategies = strategies or []  # [(label, vec, is_batch)]
        self.loads = loads or []  # [(label, vec, runtime)]
        self.tasks = ["t%d" % (i + 1) for i in range(ntasks)]
        self.profiles = list(profiles)
        self.homog = all(homogeneous(v) for v in self.vecs)
        self.all_q = all_q
        self.index = 0
        self.depth = depth  # (quick, thorough) history length, None: default of the kind
        self.DEM, self.REQ, self.RT = {}, {}, {}
        self.batch = set()
        for lbl, vec, b in self.strategies:
            self.DEM[lbl], self.REQ[lbl] = dem(vec), list(vec)
            if b:
                self.batch.add(lbl)
        for lbl, vec, rt in self.loads:
            self.DEM[lbl], self.REQ[lbl], self.RT[lbl] = dem(vec), list(vec), rt
        for j, vec in enumerate(self.multis):
            self.DEM["m%d" % j], self.REQ["m%d" % j] = dem(vec), list(vec)
        self.sym = self.tasks if self.level == 2 else [c for c in self.comps if c != "cp"]
        self.build_src = self._build_src()

    def quantities(self, j):
        """level 1: quantities tried for request j. 0..3 for the first ('any') request, 1..3 for the
        others in the quick tier (a zero allocation always succeeds and multiplies the histories)"""
        return (0, 1, 2, 3) if (j == 0 or self.all_q) else (1, 2, 3)

    def _build_src(self):
        """-> (static part: tasks / strategies / profiles / requests, never mutated by the
        operations; cluster part: the object under test `A`). A replay runs both in sequence; the
        harness runs the static part once per process and the cluster part once per history."""
        L = ["random.seed(SEED)"]
        names = []
        if self.level == 1:
            for c in self.comps:
                L.append('%s = %s' % (c, 'WorkProfile(name="cp")' if c == "cp" else 'mk_task("%s")' % c))
                names.append(c)
            for j, (n, i) in enumerate(self.reqs):
                L.append('rq%d = Resource(name=%r, _id=%r)' % (j, n, i))
            for j, vec in enumerate(self.multis):
                L.append("m%d = mk_res(%r)" % (j, vec))
            cluster = "A = mk_res(%r)" % (self.vecs[0],)
        else:
            for t in self.tasks:
                L.append('%s = mk_task("%s")' % (t, t))
                names.append(t)
            for lbl, vec, b in self.strategies:
                L.append("%s = mk_strategy(%r, batch=%r)" % (lbl, vec, b))
                names.append(lbl)
            for lbl, vec, rt in self.loads:
                L.append("%s = mk_strategy(%r, runtime=%d)" % (lbl, vec, rt))
                names.append(lbl)
            for p in self.profiles:
                L.append('%s = WorkProfile(name="%s")' % (p, p))
                names.append(p)
            if self.kind == "worker":
                cluster = 'A = Worker("w0", mk_res(%r))' % (self.vecs[0],)
            else:
                cluster = 'A = WorkerPool("pool", [%s])' % ", ".join('Worker("w%d", mk_res(%r))' % (j, v) for j, v in enumerate(self.vecs))
        self.static_src = "\n".join(L) + "\n"
        self.cluster_src = "random.seed(SEED + 1)\n" + cluster + "\nregister(globals(), %r)\n" % (names,)
        return self.static_src + self.cluster_src


def configs(tier, pid):
    th = tier == "thorough"
    out = []
    if pid == "C04":
        comps = ["c1", "c2", "cp"] if th else ["c1", "c2"]
        out += [
            Config("R.any2", "resources", [[(G, "any", 2)]], reqs=[(G, "any"), (G, "1")],
                   multis=[[(G, "any", 1)], [(G, "any", 1), (G, "1", 1)], [(G, "any", 2), (G, "1", 1)]], comps=comps, depth=(4, 6)),
            Config("R.g1g2", "resources", [[(G, "1", 1), (G, "2", 1)]], reqs=[(G, "any"), (G, "1"), (G, "2")],
                   multis=[[(G, "any", 1), (G, "1", 1)], [(G, "1", 1), (G, "2", 1)], [(G, "any", 2)]], comps=comps, depth=(5, 6)),
            Config("R.cany2_g1", "resources", [[(C, "any", 2), (G, "1", 1)]], reqs=[(C, "any"), (G, "any"), (G, "2")],
                   multis=[[(C, "any", 1), (G, "any", 1)], [(C, "any", 2), (G, "1", 1)], [(C, "any", 1), (G, "2", 1)]], comps=comps, depth=(4, 5)),
            Config("R.g1_g2x2", "resources", [[(G, "1", 1), (G, "2", 2)]], reqs=[(G, "any"), (G, "2")],
                   multis=[[(G, "any", 2), (G, "2", 1)]], comps=["c1", "c2"], depth=(4, 6)),
            Config("R.g1", "resources", [[(G, "1", 1)]], reqs=[(G, "any"), (G, "1")],
                   multis=[[(G, "any", 1), (G, "1", 1)], [(G, "1", 1)]], comps=comps, depth=(5, 7), all_q=th),
            # mixed vectors (outside the loaders' homogeneity precondition): observations only
            Config("R.mixed_any_g1", "resources", [[(G, "any", 1), (G, "1", 1)]], reqs=[(G, "any"), (G, "1"), (G, "2")],
                   multis=[[(G, "1", 1), (G, "2", 1)]], comps=comps, depth=(4, 5)),
            Config("R.mixed_g1_any_g2", "resources", [[(G, "1", 1), (G, "any", 1), (G, "2", 1)]], reqs=[(G, "any"), (G, "1"), (G, "2"), (G, "3")],
                   multis=[], comps=["c1", "c2", "c3"] if th else ["c1", "c2"], depth=(4, 5)),
        ]
    nt = 3
    out += [
        Config("W.g1", "worker", [[(G, "1", 1)]],
               strategies=[("sA", [(G, "any", 1)], False), ("sO", [(G, "any", 1), (G, "1", 1)], False), ("bA", [(G, "any", 1)], True),
                           ("sZ", [(C, "any", 0)], False)],
               loads=[("lA", [(G, "any", 1)], 2)], ntasks=nt, profiles=["p1"], depth=(5, 8)),
        Config("W.g1g2", "worker", [[(G, "1", 1), (G, "2", 1)]],
               strategies=[("sA", [(G, "any", 1)], False), ("sC", [(G, "1", 1)], False), ("sB", [(G, "any", 2)], False),
                           ("bA", [(G, "any", 1)], True), ("bB", [(G, "any", 2)], True)],
               loads=[("lA", [(G, "any", 1)], 2)], ntasks=nt, profiles=["p1"], depth=(5, 7)),
        Config("W.cany2_g1", "worker", [[(C, "any", 2), (G, "1", 1)]],
               strategies=[("sA", [(C, "any", 1)], False), ("sB", [(C, "any", 1), (G, "any", 1)], False),
                           ("sO", [(G, "any", 1), (G, "1", 1)], False), ("bA", [(C, "any", 1), (G, "1", 1)], True)],
               loads=[("lA", [(G, "any", 1)], 1), ("lB", [(C, "any", 1)], 3)], ntasks=nt, profiles=["p1"], depth=(5, 7)),
        Config("P.g1+g1", "pool", [[(G, "1", 1)], [(G, "1", 1)]],
               strategies=[("sA", [(G, "any", 1)], False), ("bA", [(G, "any", 1)], True)],
               loads=[("lA", [(G, "any", 1)], 2)], ntasks=nt, profiles=["p1"], depth=(5, 7)),
        Config("P.g1g2+c1g1", "pool", [[(G, "1", 1), (G, "2", 1)], [(C, "any", 1), (G, "1", 1)]],
               strategies=[("sA", [(G, "any", 1)], False), ("sB", [(G, "any", 2)], False), ("sO", [(G, "any", 1), (G, "1", 1)], False),
                           ("bA", [(G, "any", 1), (C, "any", 1)], True)],
               loads=[("lA", [(G, "any", 1)], 2)], ntasks=nt, profiles=["p1"], depth=(4, 6)),
    ]
    if th:
        out += [
            Config("W.gany2", "worker", [[(G, "any", 2)]],
                   strategies=[("sA", [(G, "any", 1)], False), ("sC", [(G, "1", 1)], False), ("sO", [(G, "any", 2), (G, "1", 1)], False),
                               ("bA", [(G, "any", 1)], True), ("bB", [(G, "2", 2)], True)],
                   loads=[("lA", [(G, "any", 1)], 2)], ntasks=nt, profiles=["p1", "p2"], depth=(5, 7)),
            Config("W.mixed_any_g1", "worker", [[(G, "any", 1), (G, "1", 1)]],
                   strategies=[("sA", [(G, "any", 1)], False), ("sC", [(G, "1", 1)], False), ("sD", [(G, "2", 1)], False), ("bA", [(G, "1", 1)], True)],
                   loads=[("lA", [(G, "2", 1)], 2)], ntasks=nt, profiles=["p1"], depth=(5, 6)),
        ]
    for j, c in enumerate(out):
        c.index = j
    return out


def depth_for(cfg, tier, pid):
    if cfg.depth:
        return cfg.depth[1 if tier == "thorough" else 0]
    if tier == "thorough":
        return {"resources": 7, "worker": 8, "pool": 7}[cfg.kind]
    return {"resources": 5, "worker": 5, "pool": 4}[cfg.kind]


# --------------------------------------------------------------------------------------------
# Operations: tuples (kind, inst, ...) with a source statement executed on the real objects
# --------------------------------------------------------------------------------------------
def op_src(cfg, op):
    k, X = op[0], op[1]
    if k == "alloc":
        return "%s.allocate(rq%d, %s, %d)" % (X, op[2], op[3], op[4])
    if k == "multi":
        return "%s.allocate_multiple(m%d, %s)" % (X, op[2], op[3])
    if k == "dealloc":
        return "%s.deallocate(%s)" % (X, op[2])
    if k == "copy":
        return "B = copy(A)"
    if k == "deepcopy":
        return "B = deepcopy(A)"
    if k == "copyP":
        return "B = list(copy(WorkerPools([A])).worker_pools)[0]"
    if k == "deepcopyP":
        return "B = list(deepcopy(WorkerPools([A])).worker_pools)[0]"
    if k == "step":
        return "_ret = %s.step(ZERO)" % X
    if k == "view":
        # the read-only views the simulator and the policies take of a cluster (utilisation logging, fit tests)
        if cfg.kind == "pool":
            return "_ret = (str(%s.resources), %s.get_utilization(), %s.is_full(), len(%s.get_placed_tasks()))" % (X, X, X, X)
        return "_ret = (str(%s.resources), %s.is_full(), len(%s.get_placed_tasks()), len(%s.get_available_profiles()))" % (X, X, X, X)
    pool = cfg.kind == "pool"
    if k == "place":
        if pool and op[4] is not None:
            return "_ret = %s.place_task(%s, %s, worker_id=%s.workers[%d].id)" % (X, op[2], op[3], X, op[4])
        return "_ret = %s.place_task(%s, %s)" % (X, op[2], op[3])
    if k == "remove":
        return "%s.remove_task(ZERO, %s)" % (X, op[2])
    if k == "load":
        if pool and op[4] is not None:
            return "%s.load_profile(%s, %s, %s.workers[%d].id)" % (X, op[2], op[3], X, op[4])
        return "%s.load_profile(%s, %s)" % (X, op[2], op[3])
    if k == "evict":
        if pool and op[3] is not None:
            return "%s.evict_profile(%s, %s.workers[%d].id)" % (X, op[2], X, op[3])
        return "%s.evict_profile(%s)" % (X, op[2])
    raise ValueError(op)


def op_name(cfg, op, scope):
    """name used in violation ids; scope 'worker' for per-worker clauses, 'pool' for pool-level"""
    k = op[0]
    if cfg.level == 1:
        return {"alloc": "allocate", "multi": "allocate_multiple", "dealloc": "deallocate",
                "copy": "Resources.__copy__", "deepcopy": "Resources.__deepcopy__"}[k]
    base = {"place": "place_task", "remove": "remove_task", "load": "load_profile", "evict": "evict_profile", "step": "step", "view": "read_only_views"}
    if k in base:
        return ("WorkerPool." if scope == "pool" else "") + base[k]
    deep = k.startswith("deep")
    if scope == "pool":
        return ("WorkerPools." if k.endswith("P") else "WorkerPool.") + ("__deepcopy__" if deep else "__copy__")
    return "Worker." + ("__deepcopy__" if deep else "__copy__")


def repo_fn(cfg, op):
    k = op[0]
    if cfg.level == 1:
        return "Resources." + {"alloc": "allocate", "multi": "allocate_multiple", "dealloc": "deallocate", "copy": "__copy__", "deepcopy": "__deepcopy__"}[k]
    cls = "WorkerPool" if cfg.kind == "pool" else "Worker"
    if k in ("copyP", "deepcopyP"):
        return "WorkerPools." + ("__deepcopy__" if k.startswith("deep") else "__copy__")
    return cls + "." + {"place": "place_task", "remove": "remove_task", "load": "load_profile", "evict": "evict_profile", "step": "step",
                        "copy": "__copy__", "deepcopy": "__deepcopy__", "view": "resources/get_utilization/is_full/get_placed_tasks"}[k]


# --------------------------------------------------------------------------------------------
# The abstract ledger (this script's own model of who is resident with what)
# --------------------------------------------------------------------------------------------
def new_wl():
    return {"res": {}, "bat": {}, "pend": {}, "avail": {}, "raw": {}}


def new_il(cfg):
    return {"W": [new_wl() for _ in cfg.vecs], "where": {}}


def clone(o):
    if isinstance(o, dict):
        return dict((k, clone(v)) for k, v in o.items())
    if isinstance(o, list):
        return [clone(v) for v in o]
    return o


def freeze(o):
    if isinstance(o, dict):
        return tuple(sorted((k, freeze(v)) for k, v in o.items()))
    if isinstance(o, (list, tuple)):
        return tuple(freeze(v) for v in o)
    return o


def state_key(after, L):
    """memo key: digest of the full concrete observation of all instances + the ledger"""
    return hashlib.blake2b(repr(freeze((after, L))).encode(), digest_size=16).digest()


def ledger_nonempty(L):
    for X in ("A", "B"):
        if X in L:
            for wl in L[X]["W"]:
                if wl["res"] or wl["pend"] or wl["avail"] or any(any(q for q in d.values()) for d in wl["raw"].values()):
                    return True
    return False


def expected_held(cfg, wl):
    exp = {}

    def put(h, d):
        d = dict((n, q) for n, q in d.items() if q)
        if d:
            cur = exp.setdefault(h, {})
            for n, q in d.items():
                cur[n] = cur.get(n, 0) + q

    for c, d in wl["raw"].items():
        put(c, d)
    for t, s in wl["res"].items():
        if s not in cfg.batch:
            put(t, cfg.DEM[s])
    for b, m in wl["bat"].items():
        if m:
            put("batch:" + b, cfg.DEM[b])
    for p, (l, _rem) in wl["pend"].items():
        put(p, cfg.DEM[l])
    for p, l in wl["avail"].items():
        put(p, cfg.DEM[l])
    return exp


def check_worker(cfg, widx, wl, wobs, mode, drain=False):
    """first failing clause of one worker: (clause, expr-suffix, want, saw) or None.
    expr-suffix is python source applied to `W` (= the worker's observation) in the replay"""
    vec = cfg.vecs[widx]
    if mode == "C04":
        probs = _P["conservation_problems"](wobs, vec)
        if probs:
            return ("conservation", "conservation_problems(W, %r)" % (vec,), [], probs)
        if cfg.level == 2:
            want = sorted(wl["res"])
            if sorted(wobs["placed"]) != want or len(set(wobs["placed"])) != len(wobs["placed"]):
                return ("resident_set", "sorted(W['placed'])", want, sorted(wobs["placed"]))
            wantb = dict((b, sorted(m)) for b, m in wl["bat"].items() if m)
            if drain:
                # the drain only states 'removing everything restores full capacity'; the batch
                # registry after a removal is judged at the explicit remove_task step
                pass
            elif wobs["batches"] != wantb:
                clause = "phantom_batch" if any(not m for m in wobs["batches"].values()) else "batch_registry"
                return (clause, "W['batches']", wantb, wobs["batches"])
            if not drain and wobs["batch_holders"] != sorted(wantb):
                return ("batch_registry", "W['batch_holders']", sorted(wantb), wobs["batch_holders"])
        exp = expected_held(cfg, wl)
        if wobs["held"] != exp:
            clause = "wrong_amount"
            for h in sorted(set(exp) | set(wobs["held"])):
                if h not in wobs["held"]:
                    clause = "batch_without_allocation" if h.startswith("batch:") else ("profile_without_allocation" if h in cfg.profiles else "resident_without_allocation")
                    break
                if h not in exp:
                    clause = "holder_not_resident"
                    break
            return (clause, "W['held']", exp, wobs["held"])
        if cfg.level == 2:
            wantp = [sorted(wl["avail"]), sorted(wl["pend"])]
            sawp = [wobs["avail_profiles"], wobs["pending_profiles"]]
            if sawp != wantp:
                return ("profile_state", "[W['avail_profiles'], W['pending_profiles']]", wantp, sawp)
            wantt = dict((p, 0 if p in wl["avail"] else (wl["pend"][p][1] if p in wl["pend"] else -1)) for p in cfg.profiles)
            if wobs["profile_time"] != wantt:
                return ("profile_progress", "W['profile_time']", wantt, wobs["profile_time"])
    if cfg.level == 2:
        probs = _P["c01_problems"](wobs, vec)
        if probs:
            return ("oversubscribed", "c01_problems(W, %r)" % (vec,), [], probs)
    return None


def check_instance(cfg, il, iobs, mode, drain=False):
    """-> (scope, widx, clause, expr on I (instance observation), want, saw) or None"""
    for widx, wl in enumerate(il["W"]):
        r = check_worker(cfg, widx, wl, iobs["workers"][widx], mode, drain)
        if r:
            return ("worker", widx, r[0], "(lambda W: %s)(I['workers'][%d])" % (r[1], widx), r[2], r[3])
    if cfg.kind == "pool":
        cnt = {}
        for w in iobs["workers"]:
            for t in w["placed"]:
                cnt[t] = cnt.get(t, 0) + 1
        multi = sorted(t for t, c in cnt.items() if c > 1)
        if multi:
            return ("pool", None, "task_on_two_workers",
                    "sorted(t for t in set(sum([w['placed'] for w in I['workers']], [])) if sum(w['placed'].count(t) for w in I['workers']) > 1)", [], multi)
        want = dict(il["where"])
        if iobs["pool_placed"] != want:
            return ("pool", None, "pool_placed_tasks", "I['pool_placed']", want, iobs["pool_placed"])
        if iobs["pool_placed_public"] != sorted(want):
            return ("pool", None, "pool_placed_tasks", "I['pool_placed_public']", sorted(want), iobs["pool_placed_public"])
        if iobs["pools_placed_public"] != sorted(want):
            return ("pool", None, "pool_placed_tasks", "I['pools_placed_public']", sorted(want), iobs["pools_placed_public"])
    return None


# --------------------------------------------------------------------------------------------
# Successor operations
# --------------------------------------------------------------------------------------------
def used_syms(cfg, hist):
    n = 0
    for op in hist:
        for a in op[2:]:
            if isinstance(a, str) and a in cfg.sym:
                n = max(n, cfg.sym.index(a) + 1)
    return n


def next_ops(cfg, hist, L):
    nsym = min(len(cfg.sym), used_syms(cfg, hist) + 1)
    syms = cfg.sym[:nsym]
    insts = [X for X in ("A", "B") if X in L]
    ops = []
    for X in insts:
        il = L[X]
        if cfg.level == 1:
            comps = syms + [c for c in cfg.comps if c not in cfg.sym]
            for c in comps:
                for j in range(len(cfg.reqs)):
                    for q in cfg.quantities(j):
                        ops.append(("alloc", X, j, c, q))
                for j in range(len(cfg.multis)):
                    ops.append(("multi", X, j, c))
                ops.append(("dealloc", X, c))
            continue
        pool = cfg.kind == "pool"
        wids = [None] + list(range(len(cfg.vecs))) if pool else [None]
        resident = set()
        for wl in il["W"]:
            resident |= set(wl["res"])
        for t in syms:
            if t not in resident:  # precondition: a task is placed only when not resident here
                for (s, _v, _b) in cfg.strategies:
                    for wi in wids:
                        ops.append(("place", X, t, s, wi))
            ops.append(("remove", X, t))
        for p in cfg.profiles:
            for wi in wids:
                targets = range(len(cfg.vecs)) if wi is None else [wi]
                loaded = [(p in il["W"][j]["pend"] or p in il["W"][j]["avail"]) for j in targets]
                if not any(loaded):  # precondition: not loaded on any targeted worker
                    for (l, _v, _rt) in cfg.loads:
                        ops.append(("load", X, p, l, wi))
                ops.append(("evict", X, p, wi))
        ops.append(("step", X))
        if ledger_nonempty(L):
            ops.append(("view", X))
    if "B" not in L:
        ops.append(("copy", "A"))
        ops.append(("deepcopy", "A"))
        if cfg.kind == "pool":
            ops.append(("copyP", "A"))
            ops.append(("deepcopyP", "A"))
    return ops


# --------------------------------------------------------------------------------------------
# Evaluation of one history
# --------------------------------------------------------------------------------------------
def target_workers(cfg, wi):
    return list(range(len(cfg.vecs))) if wi is None else [wi]


def must_succeed(cfg, op, L):
    k, X = op[0], op[1]
    il = L.get(X)
    if il is None:
        return False
    if k == "dealloc":
        return any(q for q in il["W"][0]["raw"].get(op[2], {}).values())
    if k == "remove":
        for wl in il["W"]:
            if op[2] in wl["res"]:
                return bool(cfg.DEM[wl["res"][op[2]]])
        return False
    if k == "evict":
        tg = target_workers(cfg, op[3] if cfg.kind == "pool" else None)
        return all((op[2] in il["W"][j]["pend"] or op[2] in il["W"][j]["avail"]) for j in tg)
    return k in ("copy", "deepcopy", "copyP", "deepcopyP", "step", "view")


def drain_ops(cfg, L):
    ops = []
    for X in ("A", "B"):
        if X not in L:
            continue
        for j, wl in enumerate(L[X]["W"]):
            if cfg.level == 1:
                for c, d in sorted(wl["raw"].items()):
                    if any(d.values()):
                        ops.append(("dealloc", X, c))
                continue
            for t in sorted(wl["res"]):
                if cfg.DEM[wl["res"][t]]:
                    ops.append(("remove", X, t))
            for p in sorted(set(wl["pend"]) | set(wl["avail"])):
                ops.append(("evict", X, p, j) if cfg.kind == "pool" else ("evict", X, p))
    return ops


def apply_drain(cfg, L):
    for X in ("A", "B"):
        if X in L:
            for wl in L[X]["W"]:
                if cfg.level == 1:
                    for c in list(wl["raw"]):
                        if any(wl["raw"][c].values()):
                            del wl["raw"][c]
                    continue
                for t in list(wl["res"]):
                    s = wl["res"][t]
                    if cfg.DEM[s]:
                        del wl["res"][t]
                        L[X]["where"].pop(t, None)
                        if s in cfg.batch:
                            wl["bat"][s].remove(t)
                            if not wl["bat"][s]:
                                del wl["bat"][s]
                wl["pend"].clear()
                wl["avail"].clear()


def transition(cfg, op, out, L, before, after):
    """update the ledger for a successful op. Returns a violation tuple
    (scope, clause, expr, want, saw, demand-text) for clauses that are about the step itself."""
    k, X = op[0], op[1]
    if k in ("copy", "copyP"):
        L["B"] = clone(L["A"])
        L["Bkind"] = k
        return None
    if k in ("deepcopy", "deepcopyP"):
        L["B"] = new_il(cfg)
        L["Bkind"] = k
        return None
    il = L[X]
    if k == "view":
        if before != after:
            return ("pool" if cfg.kind == "pool" else "worker", "changed_state", "BEFORE == AFTER", True, "reading the cluster changed it: %s" % diff_text(before, after),
                    "taking a read-only view of a cluster (resources, utilisation, fullness, placed tasks) changes nothing observable")
        return None
    if k == "alloc":
        n, _i = cfg.reqs[op[2]]
        d = il["W"][0]["raw"].setdefault(op[3], {})
        d[n] = d.get(n, 0) + op[4]
        req = [(n, _i, op[4])]
        probs = _P["draw_problems"](before[X]["workers"][0], after[X]["workers"][0], req)
        if probs:
            return ("worker", "draw", "draw_problems(BEFORE[%r]['workers'][0], AFTER[%r]['workers'][0], %r)" % (X, X, req), [], probs,
                    "a successful allocation lowers the availability of keys matching the request, by exactly the requested quantity")
        return None
    if k == "multi":
        d = il["W"][0]["raw"].setdefault(op[3], {})
        for n, q in cfg.DEM["m%d" % op[2]].items():
            d[n] = d.get(n, 0) + q
        req = cfg.REQ["m%d" % op[2]]
        probs = _P["draw_problems"](before[X]["workers"][0], after[X]["workers"][0], req)
        if probs:
            return ("worker", "draw", "draw_problems(BEFORE[%r]['workers'][0], AFTER[%r]['workers'][0], %r)" % (X, X, req), [], probs,
                    "a successful allocation lowers the availability of keys matching the request, by exactly the requested quantity")
        return None
    if k == "dealloc":
        il["W"][0]["raw"].pop(op[2], None)
        return None
    if k == "step":
        for wl in il["W"]:
            for p in list(wl["pend"]):
                l, rem = wl["pend"][p]
                if rem - 1 <= 0:
                    wl["avail"][p] = l
                    del wl["pend"][p]
                else:
                    wl["pend"][p] = [l, rem - 1]
        if out[1] != []:
            return ("worker", "step_reported_completion", "OUT[-1][1]", [], out[1], "no task is RUNNING, so step reports no completed task")
        return None
    if k == "place":
        t, s = op[2], op[3]
        wi = op[4] if cfg.kind == "pool" else 0
        if cfg.kind == "pool":
            gained = [j for j in range(len(cfg.vecs))
                      if t in after[X]["workers"][j]["placed"] and t not in before[X]["workers"][j]["placed"]]
            if len(gained) != 1 or (wi is not None and gained != [wi]):
                return ("pool", "single_worker",
                        "[j for j in range(%d) if %r in AFTER[%r]['workers'][j]['placed'] and %r not in BEFORE[%r]['workers'][j]['placed']]" % (len(cfg.vecs), t, X, t, X),
                        [wi] if wi is not None else "exactly one worker index", gained,
                        "place_task returning True makes the task resident on exactly one worker (the requested one if given)")
            wi = gained[0]
            il["where"][t] = wi
        wl = il["W"][wi]
        wl["res"][t] = s
        if s in cfg.batch:
            wl["bat"].setdefault(s, []).append(t)
        return None
    if k == "remove":
        t = op[2]
        for wl in il["W"]:
            if t in wl["res"]:
                s = wl["res"].pop(t)
                if s in cfg.batch:
                    wl["bat"][s].remove(t)
                    if not wl["bat"][s]:
                        del wl["bat"][s]
        il["where"].pop(t, None)
        return None
    if k == "load":
        for j in target_workers(cfg, op[4] if cfg.kind == "pool" else 0):
            il["W"][j]["pend"][op[2]] = [op[3], cfg.RT[op[3]]]
        return None
    if k == "evict":
        for j in target_workers(cfg, op[3] if cfg.kind == "pool" else 0):
            il["W"][j]["pend"].pop(op[2], None)
            il["W"][j]["avail"].pop(op[2], None)
        return None
    raise ValueError(op)


def build_world(cfg, seed):
    """fresh real objects for one history: the cast (tasks, strategies, profiles, request
    resources) and the cluster `A` are all rebuilt, so nothing leaks from one history into the next"""
    ns = dict(_prelude())
    ns["SEED"] = seed
    exec(_code(cfg.build_src), ns)
    return ns


def batch_full(cfg, op, L):
    if op[0] != "place" or op[3] not in cfg.batch:
        return False
    il = L[op[1]]
    for wl in il["W"]:
        if len(wl["bat"].get(op[3], [])) >= 2:
            return True
    return False


def evaluate(cfg, hist, pledger, mode, seed, world=None):
    """run `hist` from scratch on fresh real objects, check its LAST step against the ledger
    `pledger` (state of the ledger after hist[:-1]), then drain. Returns a dict.
    `world` = (namespace, observation) left by a sibling history whose last operation was refused
    and verified to have changed nothing: the real objects are then exactly in the state after
    hist[:-1] and are reused instead of being rebuilt."""
    P = _prelude()
    run = P["run_stmt"]
    before = None
    if world is not None:
        ns, before = world
    else:
        ns = build_world(cfg, seed)
        for op in hist[:-1]:
            o = run(_code(op_src(cfg, op)), ns)
            if o[0] != "ok":
                raise RuntimeError("non-deterministic replay: prefix op %s raised %s" % (op_src(cfg, op), o[1]))
    L = clone(pledger)
    res = {"leaf": False, "viol": None, "ledger": L, "state": None, "nontrivial": ledger_nonempty(L), "fn": None, "world": None}
    if not hist:
        after = P["observe_all"](ns)
        v = first_instance_violation(cfg, L, after, mode)
        if v:
            res["viol"] = make_viol(cfg, hist, None, mode, None, v, "initial")
            res["leaf"] = True
        res["state"] = state_key(after, L)
        return res
    op = hist[-1]
    X = op[1]
    probe = None
    can = None
    if op[0] == "place":
        target = X if (cfg.kind != "pool" or op[4] is None) else "%s.workers[%d]" % (X, op[4])
        probe = "_can = %s.can_accomodate_strategy(%s)" % (target, op[3])
        run(_code(probe), ns)
        can = ns.get("_can")
    if before is None:
        before = P["observe_all"](ns)
    out = run(_code(op_src(cfg, op)), ns)
    after = P["observe_all"](ns)
    res["fn"] = repo_fn(cfg, op)
    refused = out[0] == "raise" or (op[0] == "place" and cfg.kind == "pool" and out[1] is False)
    hwhat = None
    if refused:
        res["leaf"] = True
        if before != after and mode == "C04":
            scope, vid, demand = classify_refusal(cfg, op, out, L, before, after)
            hwhat = dict(scope=scope, id=vid, expr="(OUT[-1][0] == 'raise' or OUT[-1][1] is False) and BEFORE != AFTER",
                         demand=demand, saw="state after the refused operation differs from the state before: %s" % diff_text(before, after),
                         want="identical observations before and after")
        elif out[0] == "raise" and must_succeed(cfg, op, L) and mode == "C04":
            hwhat = dict(scope="worker", id=op_name(cfg, op, "pool" if cfg.kind == "pool" else "worker") + (".raised" if op[0] in ("copy", "deepcopy", "copyP", "deepcopyP", "step", "view") else ".refused_for_resident"),
                         expr="OUT[-1][0] == 'raise'", demand="the operation removes/evicts/deallocates a holder that is resident (or copies a cluster), so it must succeed",
                         saw=out[1], want="no exception")
        elif out[0] == "raise" and op[0] == "place" and can is True and not batch_full(cfg, op, L) and mode == "C04":
            ov = any(overlap(cfg.REQ[op[3]], v) for v in cfg.vecs)
            hwhat = dict(scope="worker", id="can_accomodate_strategy.true_but_place_raises" + (".overlapping_keys" if ov else ""),
                         expr="_can is True and OUT[-1][0] == 'raise'", demand="can_accomodate_strategy(s) returned True, so place_task(t, s) must not raise",
                         saw="can_accomodate_strategy=True, place_task raised %s" % out[1], want="no exception")
        if hwhat:
            res["viol"] = finish_viol(cfg, hist, probe, mode, None, hwhat, can)
        elif before == after:
            res["world"] = (ns, after)
        if out[0] == "raise" and op[0] == "remove" and not hwhat and any(op[2] in wl["res"] for wl in L[X]["W"]):
            # a resident whose strategy demands nothing that exists on the worker got no allocation
            # entry, so deallocate (and hence remove_task) refuses: it can never leave. Nothing leaks,
            # so this is not a clause of C04/C01; recorded as an observation.
            res["note"] = ("remove_task.refused_for_zero_demand_resident",
                           "config %s; history: %s; %s" % (cfg.name, " ; ".join(op_src(cfg, o) for o in hist), out[1]))
        return res
    # successful step
    tv = transition(cfg, op, out, L, before, after)
    if mode == "C01" and op[0] == "remove" and any(m == [] for w in after[X]["workers"] for m in w["batches"].values()):
        L["taint"] = "remove_task.phantom_batch"
    res["nontrivial"] = res["nontrivial"] or ledger_nonempty(L)
    if tv and (mode == "C04" or tv[1] == "single_worker"):
        scope, clause, expr, want, saw, demand = tv
        hwhat = dict(scope=scope, id=op_name(cfg, op, scope) + "." + clause, expr="(%s) != %r" % (expr, want) if not isinstance(want, str) else "len(%s) != 1" % expr,
                     demand=demand, saw=saw, want=want)
        res["viol"] = finish_viol(cfg, hist, probe, mode, None, hwhat, can)
        res["leaf"] = True
        return res
    v = first_instance_violation(cfg, L, after, mode)
    if v:
        res["viol"] = make_viol(cfg, hist, probe, mode, before, v, "step", can, taint=L.get("taint"))
        res["leaf"] = True
        return res
    res["state"] = state_key(after, L)
    # drain: removing everything restores full capacity (C04 only)
    if mode == "C04":
        dops = drain_ops(cfg, L)
        if dops:
            douts = [run(_code(op_src(cfg, d)), ns) for d in dops]
            L2 = clone(L)
            apply_drain(cfg, L2)
            final = P["observe_all"](ns)
            bad = [i for i, o in enumerate(douts) if o[0] == "raise"]
            if bad:
                d = dops[bad[0]]
                hwhat = dict(scope="worker", id="drain." + op_name(cfg, d, "pool" if cfg.kind == "pool" else "worker") + ".refused_for_resident",
                             expr="DRAIN_OUT[%d][0] == 'raise'" % bad[0], demand="every resident can be removed / every loaded profile evicted",
                             saw=douts[bad[0]][1], want="no exception")
                res["viol"] = finish_viol(cfg, hist, probe, mode, dops, hwhat, can)
                res["leaf"] = True
                return res
            v = first_instance_violation(cfg, L2, final, mode, drain=True)
            if v:
                res["viol"] = make_viol(cfg, hist, probe, mode, before, v, "drain", can, dops)
                res["leaf"] = True
                return res
    return res


def first_instance_violation(cfg, L, obs, mode, drain=False):
    for X in ("A", "B"):
        if X in L:
            r = check_instance(cfg, L[X], obs[X], mode, drain)
            if r:
                return (X,) + r
    return None


def diff_text(before, after):
    out = []
    for X in sorted(set(before) | set(after)):
        b, a = before.get(X), after.get(X)
        if b == a:
            continue
        if isinstance(b, dict) and isinstance(a, dict) and "workers" in b:
            for j, (wb, wa) in enumerate(zip(b["workers"], a["workers"])):
                for f in sorted(set(wb) | set(wa)):
                    if wb.get(f) != wa.get(f):
                        out.append("%s.workers[%d].%s: %r -> %r" % (X, j, f, wb.get(f), wa.get(f)))
            for f in ("pool_placed", "pool_placed_public", "pools_placed_public"):
                if b.get(f) != a.get(f):
                    out.append("%s.%s: %r -> %r" % (X, f, b.get(f), a.get(f)))
        else:
            out.append("%s: %r -> %r" % (X, b, a))
    return "; ".join(out)[:900]


def classify_refusal(cfg, op, out, L, before, after):
    """id for 'a refused request changed something'"""
    X = op[1]
    k = op[0]
    changed = []
    for Y in ("A", "B"):
        if Y in before and Y in after and before[Y] != after[Y]:
            for j, (wb, wa) in enumerate(zip(before[Y]["workers"], after[Y]["workers"])):
                if wb != wa:
                    changed.append((Y, j, wb, wa))
    req = None
    if k == "multi":
        req = cfg.REQ["m%d" % op[2]]
    elif k in ("place", "load"):
        req = cfg.REQ[op[3]]
    demand = "a refused request (exception, or place_task returning False) changes nothing"
    if cfg.kind == "pool" and k in ("load", "evict") and (op[4] if k == "load" else op[3]) is None:
        for (Y, j, wb, wa) in changed:
            if [wb["avail_profiles"], wb["pending_profiles"]] != [wa["avail_profiles"], wa["pending_profiles"]]:
                return ("pool", "WorkerPool." + ("load_profile" if k == "load" else "evict_profile") + ".partial_on_refusal",
                        demand + " (the pool-wide form loads/evicts on some workers and then raises on another)")
    elsewhere = any(Y != X for (Y, _j, _b, _a) in changed) or before.get("pending_strategy_sharing") != after.get("pending_strategy_sharing") \
        or any(before[Y].get(f) != after[Y].get(f) for Y in ("A", "B") if Y in before and Y in after for f in ("pool_placed", "pool_placed_public", "pools_placed_public"))
    if req is not None and changed and not elsewhere and all(overlap(req, cfg.vecs[j]) for (_Y, j, _b, _a) in changed):
        # the known defect: only allocation data of the requester changed, on a worker where two
        # request keys match a common key
        who = op[3] if k == "multi" else op[2]
        only_alloc = True
        for (_Y, _j, wb, wa) in changed:
            if any(wb.get(f) != wa.get(f) for f in wb if f not in ("keys", "names", "held", "entries")):
                only_alloc = False
            for h in set(wb["held"]) | set(wa["held"]):
                if wb["held"].get(h) != wa["held"].get(h) and h not in (who, "?BatchFor" + who):
                    only_alloc = False
        if only_alloc:
            via = "" if k == "multi" else " (reached through %s)" % repo_fn(cfg, op)
            return ("worker", "allocate_multiple.partial_on_refusal",
                    demand + "; the request has two keys matching a common key of the worker, the per-key feasibility pre-check passes, the first key is allocated and the second raises" + via)
    scope = "pool" if (cfg.kind == "pool" and not changed) else "worker"
    return (scope, op_name(cfg, op, scope) + ".refusal_changed_state", demand)


def make_viol(cfg, hist, probe, mode, before, v, phase, can=None, dops=None, taint=None):
    X, scope, widx, clause, expr, want, saw = v
    op = hist[-1] if hist else None
    texts = {
        "conservation": "per resource name available(any)+allocated(any)==configured total, per key 0<=available<=total, key set unchanged",
        "resident_set": "the placed tasks are exactly the tasks placed and not yet removed",
        "phantom_batch": "no batch is registered with zero members",
        "batch_registry": "the registered batches (and their holder tasks) are exactly the batches with >=1 resident member, with exactly those members",
        "resident_without_allocation": "every resident holds exactly its strategy's demand",
        "batch_without_allocation": "every batch with >=1 resident member holds its demand exactly once",
        "profile_without_allocation": "every loaded/pending profile holds its loading strategy's demand",
        "holder_not_resident": "nobody holds resources except residents, resident batches and loaded profiles (a leak)",
        "wrong_amount": "every holder holds exactly its demand (no double count, no partial allocation)",
        "profile_state": "available/pending profiles are exactly those loaded and not evicted",
        "profile_progress": "loading progress of a pending profile changes only by stepping this very cluster instance",
        "oversubscribed": "per worker and resource name, the demands of the occupants (batch once) and profiles sum to at most the capacity",
        "task_on_two_workers": "a task is resident on at most one worker of a pool",
        "pool_placed_tasks": "the pool's placed-task map agrees with the workers",
    }
    demand = texts.get(clause, clause)
    if phase == "initial":
        vid = "constructor." + clause
    elif phase == "drain":
        vid = "drain." + ("capacity_not_restored" if clause in ("conservation", "holder_not_resident", "wrong_amount") else clause)
        demand = "after removing every resident and evicting every profile: " + demand + " (i.e. available == total)"
    else:
        name = op_name(cfg, op, scope)
        if op[0] in ("copy", "deepcopy", "copyP", "deepcopyP") or X == op[1]:
            vid = name + "." + clause
        else:
            # the step was applied to the other instance: independence of the copy
            vid = "COPYOP.not_independent.%s.%s" % (name, clause)
        if clause == "oversubscribed" and taint:
            # diagnosis for the id only: earlier in this history remove_task left a batch registered
            # with zero members (not a C01 clause by itself), the known root cause
            vid = taint + ".oversubscribed"
    demand = "on instance %s%s: %s" % (X, "" if widx is None else ", worker %d" % widx, demand)
    hwhat = dict(scope=scope, id=vid, expr="(lambda I: %s)(%s[%r]) != %r" % (expr, "FINAL" if phase == "drain" else "AFTER", X, want),
                 demand=demand, saw=saw, want=want, inst=X, widx=widx, clause=clause)
    return finish_viol(cfg, hist, probe, mode, dops, hwhat, can)


def finish_viol(cfg, hist, probe, mode, dops, hwhat, can):
    return dict(hwhat, cfg=cfg.name, hist=list(hist), probe=probe, drain=list(dops or []), can=can, homog=cfg.homog, rank=(_KIND_RANK[cfg.kind], cfg.index))


# --------------------------------------------------------------------------------------------
# Post-processing of ids that need the history (copy kind, phantom diagnosis)
# --------------------------------------------------------------------------------------------
def finalize_id(cfg, v, L_before):
    vid = v["id"]
    if "COPYOP" in vid:
        ck = L_before.get("Bkind", "copy")
        scope = v["scope"]
        vid = vid.replace("COPYOP", op_name(cfg, (ck, "A"), scope))
    return vid


# --------------------------------------------------------------------------------------------
# Replay script
# --------------------------------------------------------------------------------------------
def replay_script(cfg, v, seed):
    ops = [op_src(cfg, o) for o in v["hist"]]
    L = ["# configuration %s; history of %d operations" % (cfg.name, len(ops))]
    L.append(PRELUDE)
    L.append("SEED = %d" % seed)
    L.append(cfg.build_src)
    L.append("PREFIX = %r" % (ops[:-1],))
    L.append("PROBE = %r" % (v["probe"],))
    L.append("LAST = %r" % (ops[-1] if ops else None,))
    L.append("DRAIN = %r" % ([op_src(cfg, o) for o in v["drain"]],))
    L.append(r'''
ns = globals()
OUT, DRAIN_OUT = [], []
_can = None
for src in PREFIX:
    OUT.append(run_stmt(src, ns))
    print("%-60s -> %s" % (src, OUT[-1]))
if PROBE:
    exec(PROBE, ns)
    print("%-60s -> %s" % (PROBE, _can))
BEFORE = observe_all(ns)
if LAST:
    OUT.append(run_stmt(LAST, ns))
    print("%-60s -> %s   <== step under test" % (LAST, OUT[-1]))
AFTER = observe_all(ns)
for src in DRAIN:
    DRAIN_OUT.append(run_stmt(src, ns))
    print("%-60s -> %s   (drain)" % (src, DRAIN_OUT[-1]))
FINAL = observe_all(ns)
for name in ("A", "B"):
    if name in AFTER:
        for j, w in enumerate(FINAL[name]["workers"] if DRAIN else AFTER[name]["workers"]):
            print("observed %s.workers[%d]: %s" % (name, j, dict((k, v) for k, v in w.items() if k != "entries")))
''')
    L.append("print('contract :', %r)" % (v["demand"],))
    L.append("print('demands  :', %r)" % (v["want"],))
    L.append("print('harness saw:', %r)" % (v["saw"],))
    L.append("violated = bool(%s)" % v["expr"])
    L.append("print('VIOLATION REPRODUCED' if violated else 'not reproduced')")
    L.append("sys.exit(1 if violated else 0)")
    return "\n".join(L) + "\n"


def verify_replay(path):
    env = dict(os.environ)
    env["PYTHONPATH"] = REPO
    try:
        p = subprocess.run([sys.executable, path], cwd=REPO, env=env, stdout=subprocess.PIPE, stderr=subprocess.STDOUT, timeout=120)
        return p.returncode, p.stdout.decode("utf-8", "replace")[-1500:]
    except Exception as e:  # pragma: no cover
        return -1, str(e)


# --------------------------------------------------------------------------------------------
# Exploration
# --------------------------------------------------------------------------------------------
_CFGS = {}


def _get_cfg(tier, pid, name):
    key = (tier, pid)
    if key not in _CFGS:
        _CFGS[key] = dict((c.name, c) for c in configs(tier, pid))
    return _CFGS[key][name]


_KIND_RANK = {"resources": 0, "worker": 1, "pool": 2}


def better(v, w):
    """is witness v preferable to w: homogeneous vectors first, then shorter history, then the
    simpler kind of cluster, then a fixed order"""
    def key(x):
        return (0 if x["homog"] else 1, len(x["hist"]), x["rank"], x["cfg"], repr(x["hist"]))
    return key(v) < key(w)


class Acc(object):
    def __init__(self):
        self.evals = 0
        self.nontrivial = 0
        self.pruned = 0
        self.fns = {}
        self.viol = {}  # id -> [count, witness]
        self.samples = []
        self.maxlen = 0
        self.truncated = False
        self.per_cfg = {}
        self.notes = {}

    def add(self, cfg, hist, res, L_before):
        if res.get("note"):
            cur = self.notes.setdefault(res["note"][0], [0, res["note"][1]])
            cur[0] += 1
            if len(res["note"][1]) < len(cur[1]):
                cur[1] = res["note"][1]
        self.evals += 1
        self.per_cfg[cfg.name] = self.per_cfg.get(cfg.name, 0) + 1
        self.maxlen = max(self.maxlen, len(hist))
        if res["nontrivial"]:
            self.nontrivial += 1
            if len(self.samples) < 1 and len(hist) >= 3 and not res["leaf"] and hist[0][0] not in ("copy", "deepcopy", "copyP", "deepcopyP") \
                    and len(set(o[0] for o in hist)) >= 3:
                self.samples.append({"config": cfg.name, "history": [op_src(cfg, o) for o in hist]})
        if res["fn"]:
            self.fns[res["fn"]] = self.fns.get(res["fn"], 0) + 1
        v = res["viol"]
        if v:
            v["id"] = finalize_id(cfg, v, L_before)
            cur = self.viol.get(v["id"])
            if cur is None:
                self.viol[v["id"]] = [1, v]
            else:
                cur[0] += 1
                if better(v, cur[1]):
                    cur[1] = v

    def merge(self, o):
        self.evals += o.evals
        self.nontrivial += o.nontrivial
        self.pruned += o.pruned
        self.maxlen = max(self.maxlen, o.maxlen)
        for k, n in o.per_cfg.items():
            self.per_cfg[k] = self.per_cfg.get(k, 0) + n
        for k, (n, w) in o.notes.items():
            cur = self.notes.setdefault(k, [0, w])
            cur[0] += n
            if len(w) < len(cur[1]):
                cur[1] = w
        for k, n in o.fns.items():
            self.fns[k] = self.fns.get(k, 0) + n
        for vid, (n, v) in o.viol.items():
            cur = self.viol.get(vid)
            if cur is None:
                self.viol[vid] = [n, v]
            else:
                cur[0] += n
                if better(v, cur[1]):
                    cur[1] = v
        for s in o.samples:
            if len(self.samples) < 40 and not any(x["config"] == s["config"] for x in self.samples):
                self.samples.append(s)


def dfs(cfg, hist, L, remaining, mode, seed, acc, visited, deadline):
    world = None
    for op in next_ops(cfg, hist, L):
        if deadline and time.time() > deadline:
            acc.truncated = True
            return
        h2 = hist + [op]
        res = evaluate(cfg, h2, L, mode, seed, world)
        world = res["world"]
        res["world"] = None
        acc.add(cfg, h2, res, L)
        if res["leaf"] or remaining - 1 <= 0:
            continue
        key = res["state"]
        if visited.get(key, 0) >= remaining - 1:
            acc.pruned += 1
            continue
        visited[key] = remaining - 1
        dfs(cfg, h2, res["ledger"], remaining - 1, mode, seed, acc, visited, deadline)


def task_run(arg):
    """one unit of parallel work: the history `prefix` (its ledger before the last op given) and
    everything below it up to the configuration's history length; fresh memo per task"""
    tier, pid, cname, prefix, pledger, depth, seed, deadline = arg
    quiet_logging()
    cfg = _get_cfg(tier, pid, cname)
    acc = Acc()
    res = evaluate(cfg, prefix, pledger, pid, seed)
    acc.add(cfg, prefix, res, pledger)
    remaining = depth - len(prefix)
    if not res["leaf"] and remaining > 0:
        visited = {res["state"]: remaining}
        sys.setrecursionlimit(10000)
        dfs(cfg, prefix, res["ledger"], remaining, pid, seed, acc, visited, deadline)
    return acc


class Counted(object):
    """stands in for Result.distinct: histories are distinct by construction (each (config,
    history) is executed at most once: disjoint depth-1 subtrees, DFS without repetition)"""

    def __init__(self):
        self.n = 0

    def add(self, _k):
        self.n += 1

    def __len__(self):
        return self.n


def main():
    def extra(ap):
        ap.add_argument("--only", default=None, help="(development) comma separated configuration names")
        ap.add_argument("--depth", type=int, default=None, help="(development) override the history length")
        ap.add_argument("--budget", type=int, default=None, help="wall-clock budget in seconds for the enumeration (default 75 quick / 800 thorough); "
                        "when it is hit the result says exhaustive=false")

    args = parse_args(extra)
    quiet_logging()
    pid = args.pid if args.pid in ("C04", "C01") else "C04"
    tier = args.tier
    cfgs = configs(tier, pid)
    if args.only:
        cfgs = [c for c in cfgs if c.name in args.only.split(",")]
    depths = dict((c.name, args.depth or depth_for(c, tier, pid)) for c in cfgs)
    bound = ("all operation histories up to the length given per configuration: %s; level 1 (R.*): allocate quantities 0..3 (0 only for the first request "
             "resource in the quick tier), %s computations; level 2 (W.* one worker, P.* pool of two workers): 3 tasks, batch_size 2, 1-2 profiles, "
             "at most one copy/deepcopy per history (then operations on both instances); pruning: a refused operation ends the history, a violation ends the "
             "history, first-use order of interchangeable tasks, a revisited concrete state with >= remaining depth is not expanded again (memo reset per depth-1 subtree)"
             % (", ".join("%s:%d" % (c.name, depths[c.name]) for c in cfgs), "3" if tier == "thorough" else "2"))
    rule = ("one case per executed history (checked after its last step; every prefix is its own case). non-trivial = the ledger is non-empty before or "
            "after the last step (some allocation / resident task / loaded profile exists), i.e. the comparison real-vs-ledger is not about an empty cluster")
    R = Result(args, rule=rule, bound=bound)
    R.distinct = Counted()
    tasks = []
    total = Acc()
    deadline = time.time() + (args.budget or (800 if tier == "thorough" else 75))
    _prelude()  # import the repository once, before forking
    SPLIT = 1  # histories shorter than SPLIT are evaluated here, each history of length SPLIT roots a task
    for c in cfgs:
        L0 = {"A": new_il(c)}
        res = evaluate(c, [], L0, pid, args.seed)
        total.add(c, [], res, L0)
        frontier = [([], res["ledger"])] if not res["leaf"] else []
        for level in range(1, SPLIT + 1):
            nxt = []
            for h, Lh in frontier:
                for op in next_ops(c, h, Lh):
                    if level == SPLIT:
                        tasks.append((tier, pid, c.name, h + [op], Lh, depths[c.name], args.seed, deadline))
                        continue
                    res = evaluate(c, h + [op], Lh, pid, args.seed)
                    total.add(c, h + [op], res, Lh)
                    if not res["leaf"]:
                        nxt.append((h + [op], res["ledger"]))
            frontier = nxt
    # histories containing a copy have the larger subtrees: dispatch them first
    tasks.sort(key=lambda t: 0 if any(o[0] in ("copy", "deepcopy", "copyP", "deepcopyP") for o in t[3]) else 1)
    truncated = False
    nproc = min(16, os.cpu_count() or 1)
    pool = multiprocessing.Pool(nproc)
    try:
        results = pool.map(task_run, tasks, chunksize=1)
        pool.close()
        pool.join()
    finally:
        pool.terminate()
    for acc in results:  # in task order: deterministic
        total.merge(acc)
        truncated = truncated or getattr(acc, "truncated", False)
    R.evaluations = total.evals
    R.distinct.n = total.nontrivial
    # one sample history per configuration; show the pool / worker ones first
    R.samples = sorted(total.samples, key=lambda x: {"P": 0, "W": 1, "R": 2}[x["config"][0]])[:5]
    for k, n in sorted(total.fns.items()):
        R.called(k, n)
    # observation after every history (at least once per evaluated history)
    for fn in ("Resources.get_available_quantity", "Resources.get_allocated_quantity", "Resources.get_total_quantity",
               "Resources.get_allocated_computation", "Resources.resources", "Resource.__eq__"):
        R.called(fn, total.evals)
    n2 = sum(n for k, n in total.per_cfg.items() if not k.startswith("R."))
    if n2:
        for fn in ("Worker.get_placed_tasks", "Worker.get_available_profiles", "Worker.get_pending_profiles", "Worker.is_available"):
            R.called(fn, n2)
        n_place = sum(n for k, n in total.fns.items() if k.endswith(".place_task"))
        R.called("Worker.can_accomodate_strategy / Resources.__gt__", n_place)
    n3 = sum(n for k, n in total.per_cfg.items() if k.startswith("P."))
    if n3:
        for fn in ("WorkerPool.get_placed_tasks", "WorkerPools.get_placed_tasks", "WorkerPool.can_accomodate_strategy"):
            R.called(fn, n3)
    R.exhaustive = not truncated
    if truncated:
        # the property held on everything explored; what was explored is smaller than the stated bound and is reported as such
        R.bound = "NOT FULLY COVERED (wall-clock budget reached after %d histories; the enumeration order is deterministic, the cut-off point depends on machine load). Nominal bound: " % total.evals + R.bound
    observations = []
    cfgmap = dict((c.name, c) for c in cfgs)
    recorded = []
    for vid in sorted(total.viol):
        n, v = total.viol[vid]
        cfg = cfgmap[v["cfg"]]
        what = ("[%s] config %s (worker vectors %r); history: %s; contract: %s; demanded: %r; saw: %r"
                % (vid, cfg.name, cfg.vecs, " ; ".join(op_src(cfg, o) for o in v["hist"]) or "<empty>", v["demand"], v["want"], v["saw"]))
        if v.get("can") is True and v["hist"] and v["hist"][-1][0] == "place":
            what += "; can_accomodate_strategy returned True just before"
        script = replay_script(cfg, v, args.seed)
        if not v["homog"] and "__copy__" in vid:
            # copying a vector that mixes an 'any' key with specific keys of the same name replays
            # the allocations against different keys; outside the loaders' homogeneity precondition
            observations.append({"id": "mixed_vector:" + vid, "count": n, "what": what[:1500]})
            continue
        R.violation(vid, what, script)
        R.violations[vid]["count"] = n
        R.violations[vid]["history"] = [op_src(cfg, o) for o in v["hist"]]
        recorded.append(vid)
    if recorded:
        from multiprocessing.pool import ThreadPool

        with ThreadPool(min(8, len(recorded))) as tp:
            outs = tp.map(lambda vid: verify_replay(R.violations[vid]["replay"]), recorded)
        for vid, (rc, tail) in zip(recorded, outs):
            R.violations[vid]["replay_exit"] = rc
            if rc != 1:
                R.undecided.append("replay of %s did not reproduce (exit %s): %s" % (vid, rc, tail[-400:]))
    for k, (n, w) in sorted(total.notes.items()):
        observations.append({"id": k, "count": n, "what": w})
    R.extra["observations"] = observations
    R.extra["pruned_subtrees"] = total.pruned
    R.extra["max_history_length"] = total.maxlen
    R.extra["programs"] = total.evals
    R.extra["histories_per_config"] = total.per_cfg
    R.finish()


if __name__ == "__main__":
    main()
