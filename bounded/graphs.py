"""Bounded stand-in for property C17: graph algorithms agree with their definitions on every DAG.

Real code under check (never re-used as its own oracle):
  workload/graph.py   Graph.{add_node, add_child, get_children, get_parents, get_nodes, get_edges,
                      get_sources, is_source, __len__, topological_sort, get_longest_path,
                      are_dependent, get_node_depth, breadth_first, __iter__, depth_first}
  workload/tasks.py   TaskGraph.{add_task, is_source_task, is_sink_task, get_source_tasks,
                      get_sink_tasks, critical_path_runtime}  (+ all inherited Graph routines)
  workload/jobs.py    JobGraph.{add_job, critical_path_runtime, completion_time}  (+ inherited)

Oracle: brute-force spec functions written from the property statement (class Spec below): naive
transitive closure for reachability, explicit enumeration of every path that starts at a source
for longest path / depth, in/out-degree for sources/sinks.

The block between the CORE markers is self-contained (needs only the repository on PYTHONPATH) and is
copied verbatim into every replay script, so a replay re-checks exactly the contract that failed.

    python bounded/graphs.py --pid C17 --tier quick|thorough --seed N --out file.json
"""
# ==== CORE BEGIN ====
import itertools
import random
import signal


class _Timeout(BaseException):
    pass


def _on_alarm(signum, frame):
    raise _Timeout()


CASE_TIME_LIMIT = 10.0  # seconds of CPU time (of this process) one case may take before it is called a hang


_PREFIX = {
    "Graph.topological_sort": "toposort",
    "Graph.get_longest_path": "longest_path",
    "Graph.are_dependent": "are_dependent",
    "Graph.get_node_depth": "node_depth",
    "Graph.breadth_first": "breadth_first",
    "Graph.__iter__": "iter",
    "Graph.depth_first": "depth_first",
    "Graph.get_sources": "sources",
}


def _preload():
    """import the repository before any timer is armed (an interrupted import cannot be retried)"""
    import utils  # noqa: F401
    import workload  # noqa: F401
    import workload.graph  # noqa: F401


def eff_runtimes(case):
    """runtimes of the case in microseconds: nodes listed in case['ms_nodes'] carry their runtime in MILLISECONDS (the
    same number, another EventTime unit) -- mixed units are legal input (seed C17-4)"""
    ms = set(case.get("ms_nodes") or ())
    return [r * 1000 if i in ms else r for i, r in enumerate(case["runtimes"])]


def build(case):
    """Rebuild the concrete graph of a case. Returns (graph, nodes) with nodes[i] = object of label i.

    case = {cls: graph|taskgraph|jobgraph, n, ctor: None | [[i,[children..]],..] (mapping handed to
    the constructor), ops: [["n", i, [children..]] | ["e", a, b], ..] applied afterwards in order
    (add_node/add_task/add_job and add_child), runtimes: [..] (task/job graphs), seed}
    """
    cls = case["cls"]
    n = case["n"]
    random.seed(case.get("seed", 0))  # Task / Job ids come from the `random` module
    if cls == "graph":
        from workload.graph import Graph

        nodes = ["n%d" % i for i in range(n)]

        def mk_extra():
            return "extra"

        def make(mapping):
            return Graph() if mapping is None else Graph(mapping)

        def addn(g, x, ch):
            g.add_node(x, *ch)

    else:
        import logging

        from utils import EventTime
        from workload import (
            ExecutionStrategies,
            ExecutionStrategy,
            Job,
            JobGraph,
            Resource,
            Resources,
            Task,
            TaskGraph,
            WorkProfile,
        )

        rt = case["runtimes"]
        lg = logging.getLogger("bounded.graphs")
        us = EventTime.Unit.US
        ms_nodes = set(case.get("ms_nodes") or ())

        def profile(i):
            res = Resources(resource_vector={Resource(name="CPU", _id="any"): 1})
            unit_i = EventTime.Unit.MS if i in ms_nodes else us
            strategies = [ExecutionStrategy(resources=res, batch_size=1, runtime=EventTime(rt[i], unit_i))]
            if i % 2 == 1:
                # a second, faster strategy: the slowest one (the one that counts) is still rt[i]
                strategies.insert(0, ExecutionStrategy(resources=res, batch_size=1, runtime=EventTime(1, us)))
            return WorkProfile(name="wp%d" % i, execution_strategies=ExecutionStrategies(strategies=strategies))

        rt = list(rt) + [1]
        jobs = [Job(name="j%d" % i, profile=profile(i)) for i in range(n)]
        extra_job = [None]

        def mk_extra():
            extra_job[0] = Job(name="jextra", profile=profile(n))
            if cls == "jobgraph":
                return extra_job[0]
            return Task(name="textra", task_graph="tg", job=extra_job[0], deadline=EventTime(10**6, us), timestamp=0, _logger=lg)

        if cls == "jobgraph":
            nodes = jobs

            def make(mapping):
                return JobGraph(name="jg") if mapping is None else JobGraph(name="jg", jobs=mapping)

            def addn(g, x, ch):
                g.add_job(x, ch)

        else:
            nodes = [
                Task(name="t%d" % i, task_graph="tg", job=jobs[i], deadline=EventTime(10**6, us), timestamp=0, _logger=lg)
                for i in range(n)
            ]

            def make(mapping):
                return TaskGraph(name="tg") if mapping is None else TaskGraph(name="tg", tasks=mapping)

            def addn(g, x, ch):
                g.add_task(x, ch)

    ctor = case.get("ctor")
    g = make(None if ctor is None else {nodes[i]: [nodes[c] for c in ch] for i, ch in ctor})
    for op in case.get("ops", ()):
        if op[0] == "n":
            addn(g, nodes[op[1]], [nodes[c] for c in op[2]])
        elif op[0] == "x":
            extra = mk_extra()
            addn(g, extra, [nodes[c] for c in op[1]])
            for warm in (
                lambda: g.topological_sort(),
                lambda: [g.get_node_depth(x) for x in nodes],
                lambda: [g.are_dependent(nodes[0], x) for x in nodes] if nodes else None,
                lambda: g.get_longest_path(lambda x: 1),
                lambda: list(g.breadth_first()),
                lambda: list(g.depth_first(extra)),
                lambda: list(g.breadth_first(extra)),
                lambda: g.get_sources(),
                # (the two `cached_property` attributes TaskGraph.critical_path_runtime / JobGraph.completion_time are NOT
                # warmed: they are declared as computed-once values and are stale after ANY later mutation of the graph,
                # add_task included -- recorded as an observation, not demanded by the statement)
                lambda: (g.get_sink_tasks(), g.get_source_tasks()) if hasattr(g, "get_sink_tasks") else None,
                lambda: len(g),
            ):
                try:
                    warm()
                except Exception:
                    pass  # a routine that fails on this DAG is reported by the checks on the reduced graph / the other styles
            g.remove(extra)
        else:
            g.add_child(nodes[op[1]], nodes[op[2]])
    return g, nodes


def case_edges(case):
    """the edge list (label pairs) of a case in insertion order"""
    edges = []
    for i, ch in case.get("ctor") or ():
        edges.extend((i, c) for c in ch)
    for op in case.get("ops", ()):
        if op[0] == "n":
            edges.extend((op[1], c) for c in op[2])
        elif op[0] == "e":
            edges.append((op[1], op[2]))
    return edges


class Spec:
    """Brute-force definitions, from the statement, over labels 0..n-1 and an edge list."""

    PATH_CAP = 150000

    def __init__(self, n, edges):
        self.n = n
        self.E = set(edges)
        self.ch = [[] for _ in range(n)]
        self.pa = [[] for _ in range(n)]
        for a, b in sorted(self.E):
            self.ch[a].append(b)
            self.pa[b].append(a)
        # reachability: naive closure to a fixpoint (reach[i] is a bitmask, i reaches itself)
        reach = [1 << i for i in range(n)]
        changed = True
        while changed:
            changed = False
            for a, b in self.E:
                r = reach[a] | reach[b]
                if r != reach[a]:
                    reach[a] = r
                    changed = True
        self.reach = reach
        self.cyclic = any((reach[b] >> a) & 1 for a, b in self.E)
        self.sources = [i for i in range(n) if not self.pa[i]]
        self.sinks = [i for i in range(n) if not self.ch[i]]
        self.enumerated = False
        if not self.cyclic:
            self._paths()

    def reaches(self, a, b):
        return bool((self.reach[a] >> b) & 1)

    def reach_set(self, a):
        return {b for b in range(self.n) if (self.reach[a] >> b) & 1}

    def _order(self):
        """an order with parents first, by repeatedly peeling nodes whose parents are all peeled"""
        done, order = set(), []
        while len(order) < self.n:
            for v in range(self.n):
                if v not in done and all(p in done for p in self.pa[v]):
                    done.add(v)
                    order.append(v)
        return order

    def _paths(self):
        """every path that starts at a source: those ending at a sink are the source->sink paths,
        and the lengths of those ending at v give the min / max depth of v (source = 1)"""
        n = self.n
        order = self._order()
        cnt = [0] * n
        for v in order:
            cnt[v] = 1 if not self.pa[v] else sum(cnt[p] for p in self.pa[v])
        self.dmin = [None] * n
        self.dmax = [0] * n
        if sum(cnt) <= self.PATH_CAP:
            self.enumerated = True
            self.ss_paths = []
            stack = [(s,) for s in self.sources]
            while stack:
                p = stack.pop()
                v = p[-1]
                ln = len(p)
                if self.dmin[v] is None or ln < self.dmin[v]:
                    self.dmin[v] = ln
                if ln > self.dmax[v]:
                    self.dmax[v] = ln
                if not self.ch[v]:
                    self.ss_paths.append(p)
                for c in self.ch[v]:
                    stack.append(p + (c,))
        else:
            # too many paths to list: fall back to the recursive definition (still independent of the
            # repository: computed sink-side for weights, by peeling order for depth)
            for v in order:
                if not self.pa[v]:
                    self.dmin[v] = self.dmax[v] = 1
                else:
                    self.dmin[v] = 1 + min(self.dmin[p] for p in self.pa[v])
                    self.dmax[v] = 1 + max(self.dmax[p] for p in self.pa[v])
            self._rorder = order[::-1]

    def max_weight(self, w):
        """maximum over all source->sink paths of the sum of node weights"""
        if self.enumerated:
            return max(sum(w[i] for i in p) for p in self.ss_paths)
        best = [0] * self.n
        for v in self._rorder:
            best[v] = w[v] + (max(best[c] for c in self.ch[v]) if self.ch[v] else 0)
        return max(best[s] for s in self.sources)


def describe(case):
    return "%s n=%d constructor_mapping=%s ops=%s%s" % (
        case["cls"],
        case["n"],
        case.get("ctor"),
        case.get("ops"),
        (" runtimes_us=%s%s" % (eff_runtimes(case), " (nodes %s given in ms)" % sorted(case["ms_nodes"]) if case.get("ms_nodes") else "")) if case.get("runtimes") else "",
    )


def check_case(case, V, O=None, C=None, limit=None):
    """Check every contract of C17 on one concrete graph.
    V(id, msgfn): violation sink; O(id, msgfn): observation sink (not demanded by the statement);
    C: dict routine -> number of calls of the real routine."""
    if O is None:
        O = lambda vid, msgfn: None  # noqa: E731
    if C is None:
        C = {}
    cur = ["build"]
    limit = limit or CASE_TIME_LIMIT
    _preload()
    old = signal.signal(signal.SIGVTALRM, _on_alarm)
    signal.setitimer(signal.ITIMER_VIRTUAL, limit)
    try:
        _check_case(case, V, O, C, cur)
    except _Timeout:
        V(_PREFIX.get(cur[0], cur[0]) + ".did_not_terminate", lambda: "%s: still running after %.0fs of CPU time on %s" % (cur[0], limit, describe(case)))
    finally:
        signal.setitimer(signal.ITIMER_VIRTUAL, 0)
        signal.signal(signal.SIGVTALRM, old)


def _check_case(case, V, O, C, cur):
    n = case["n"]
    cls = case["cls"]
    edges = case_edges(case)
    S = Spec(n, edges)
    g, nodes = build(case)
    idx = {}
    for i, x in enumerate(nodes):
        idx[x] = i
    D = lambda: describe(case)  # noqa: E731

    def lab(xs):
        try:
            xs = list(xs)
        except TypeError:
            return ["<not a sequence: %r>" % (xs,)]
        out = []
        for x in xs:
            try:
                out.append(idx.get(x, "<foreign %r>" % (x,)))
            except TypeError:  # unhashable
                out.append("<foreign %r>" % (x,))
        return out

    def count(name, k=1):
        C[name] = C.get(name, 0) + k

    def call(name, fn):
        """run a real routine; -> (True, value) or (False, exception)"""
        cur[0] = name
        count(name)
        try:
            return True, fn()
        except Exception as e:  # noqa: BLE001
            return False, e

    def drain(gen, cap):
        return list(itertools.islice(gen, cap))

    cap = 4 * (n + len(edges)) + 16  # no traversal may yield this much; guards runaway generators
    gname = {"graph": "Graph", "taskgraph": "TaskGraph", "jobgraph": "JobGraph"}[cls]

    # ------------------------------------------------------------------ cyclic graphs
    if S.cyclic:
        ok, r = call("Graph.topological_sort", g.topological_sort)
        if ok:
            V("toposort.cycle_not_reported", lambda: "topological_sort returned %s on a graph with a cycle; the statement demands an error. %s" % (lab(r), D()))
        elif isinstance(r, RecursionError) or not isinstance(r, RuntimeError):
            V("toposort.cycle_wrong_exception", lambda: "topological_sort raised %r on a graph with a cycle; documented report is RuntimeError. %s" % (r, D()))
        for i in case.get("depth_nodes", range(n)):
            ok, r = call("Graph.get_node_depth", lambda: g.get_node_depth(nodes[i]))
            if ok:
                V("node_depth.cycle_not_reported", lambda: "get_node_depth(%d) returned %r on a graph with a cycle; documented: RuntimeError. %s" % (i, r, D()))
                break
            elif isinstance(r, RecursionError) or not isinstance(r, RuntimeError):
                V("node_depth.cycle_wrong_exception", lambda: "get_node_depth(%d) raised %r on a graph with a cycle; documented: RuntimeError. %s" % (i, r, D()))
                break
        for a, b in case.get("pairs") or [(a, b) for a in range(n) for b in range(n) if a != b][:12]:
            ok, r = call("Graph.are_dependent", lambda: g.are_dependent(nodes[a], nodes[b]))
            if ok:
                V("are_dependent.cycle_not_reported", lambda: "are_dependent(%d,%d) returned %r on a graph with a cycle; documented: RuntimeError. %s" % (a, b, r, D()))
                break
            elif isinstance(r, RecursionError) or not isinstance(r, RuntimeError):
                V("are_dependent.cycle_wrong_exception", lambda: "are_dependent(%d,%d) raised %r on a graph with a cycle; documented: RuntimeError. %s" % (a, b, r, D()))
                break
        return

    # ------------------------------------------------------------------ structure accessors
    ok, r = call("Graph.__len__", lambda: len(g))
    if not ok or r != n:
        V("len.mismatch", lambda: "len(graph)=%r, the graph has %d nodes. %s" % (r, n, D()))
    ok, r = call("Graph.get_nodes", lambda: list(g.get_nodes()))
    if not ok or sorted(lab(r), key=str) != sorted(range(n), key=str):
        V("nodes.mismatch", lambda: "get_nodes()=%r, expected each of 0..%d once. %s" % (lab(r) if ok else r, n - 1, D()))
    ok, r = call("Graph.get_edges", lambda: list(g.get_edges()))
    if not ok or sorted(tuple(lab(e)) for e in r) != sorted(S.E):
        V("edges.mismatch", lambda: "get_edges()=%r, expected exactly %s. %s" % ([tuple(lab(e)) for e in r] if ok else r, sorted(S.E), D()))
    for i in range(n):
        ok, r = call("Graph.get_children", lambda: list(g.get_children(nodes[i])))
        if not ok or sorted(lab(r), key=str) != sorted(S.ch[i], key=str):
            V("children.mismatch", lambda: "get_children(%d)=%r, expected %s. %s" % (i, lab(r) if ok else r, sorted(S.ch[i]), D()))
        ok, r = call("Graph.get_parents", lambda: list(g.get_parents(nodes[i])))
        if not ok or sorted(lab(r), key=str) != sorted(S.pa[i], key=str):
            V("parents.mismatch", lambda: "get_parents(%d)=%r, expected %s. %s" % (i, lab(r) if ok else r, sorted(S.pa[i]), D()))

    # ------------------------------------------------------------------ sources / sinks
    ok, r = call("Graph.get_sources", lambda: list(g.get_sources()))
    if not ok:
        V("sources.raised", lambda: "get_sources() raised %r. %s" % (r, D()))
    else:
        lr = lab(r)
        if len(set(map(str, lr))) != len(lr):
            V("sources.duplicate", lambda: "get_sources()=%s lists a node twice. %s" % (lr, D()))
        if set(map(str, lr)) != set(map(str, S.sources)):
            V("sources.mismatch", lambda: "get_sources()=%s, nodes without parents are %s. %s" % (lr, S.sources, D()))
    for i in range(n):
        ok, r = call("Graph.is_source", lambda: g.is_source(nodes[i]))
        if not ok or bool(r) != (not S.pa[i]):
            V("is_source.mismatch", lambda: "is_source(%d)=%r, node has parents %s. %s" % (i, r, S.pa[i], D()))
    if cls == "taskgraph":
        # all tasks carry distinct names and one timestamp, so source/sink task = no parents/children
        for i in range(n):
            ok, r = call("TaskGraph.is_source_task", lambda: g.is_source_task(nodes[i]))
            if not ok or bool(r) != (not S.pa[i]):
                V("is_source_task.mismatch", lambda: "is_source_task(%d)=%r, node has parents %s. %s" % (i, r, S.pa[i], D()))
            ok, r = call("TaskGraph.is_sink_task", lambda: g.is_sink_task(nodes[i]))
            if not ok or bool(r) != (not S.ch[i]):
                V("is_sink_task.mismatch", lambda: "is_sink_task(%d)=%r, node has children %s. %s" % (i, r, S.ch[i], D()))
        ok, r = call("TaskGraph.get_source_tasks", lambda: list(g.get_source_tasks()))
        if not ok or sorted(lab(r), key=str) != sorted(S.sources, key=str):
            V("source_tasks.mismatch", lambda: "get_source_tasks()=%r, nodes without parents are %s. %s" % (lab(r) if ok else r, S.sources, D()))
        ok, r = call("TaskGraph.get_sink_tasks", lambda: list(g.get_sink_tasks()))
        if not ok or sorted(lab(r), key=str) != sorted(S.sinks, key=str):
            V("sink_tasks.mismatch", lambda: "get_sink_tasks()=%r, nodes without children are %s. %s" % (lab(r) if ok else r, S.sinks, D()))

    # ------------------------------------------------------------------ topological order
    ok, r = call("Graph.topological_sort", g.topological_sort)
    if not ok:
        V("toposort.raised_on_dag", lambda: "topological_sort raised %r on an acyclic graph. %s" % (r, D()))
    else:
        ts = lab(r)
        if any(isinstance(x, str) for x in ts):
            V("toposort.foreign_node", lambda: "topological_sort=%s contains an object that is not a node. %s" % (ts, D()))
        elif len(set(ts)) != len(ts):
            V("toposort.duplicate_node", lambda: "topological_sort=%s lists a node twice. %s" % (ts, D()))
        elif len(ts) != n:
            V("toposort.missing_node", lambda: "topological_sort=%s omits %s. %s" % (ts, sorted(set(range(n)) - set(ts)), D()))
        else:
            pos = {x: k for k, x in enumerate(ts)}
            bad = [(a, b) for a, b in sorted(S.E) if pos[a] > pos[b]]
            if bad:
                V("toposort.parent_after_child", lambda: "topological_sort=%s puts child before parent for edges %s. %s" % (ts, bad, D()))

    # ------------------------------------------------------------------ longest path
    def check_path(vid, what, p, w, total_name):
        """p: label list returned as longest path under weights w (list)"""
        if any(isinstance(x, str) for x in p):
            V(vid + ".foreign_node", lambda: "%s=%s contains an object that is not a node. %s" % (what, p, D()))
            return
        if not p:
            V(vid + ".empty", lambda: "%s returned an empty path on a non-empty graph. %s" % (what, D()))
            return
        if len(set(p)) != len(p):
            V(vid + ".repeated_node", lambda: "%s=%s repeats a node. %s" % (what, p, D()))
            return
        gaps = [(a, b) for a, b in zip(p, p[1:]) if (a, b) not in S.E]
        if gaps:
            V(vid + ".not_a_path", lambda: "%s=%s uses %s which are not edges. %s" % (what, p, gaps, D()))
            return
        if S.pa[p[0]]:
            V(vid + ".start_not_source", lambda: "%s=%s starts at %d which has parents %s. %s" % (what, p, p[0], S.pa[p[0]], D()))
        if S.ch[p[-1]]:
            V(vid + ".end_not_sink", lambda: "%s=%s ends at %d which has children %s. %s" % (what, p, p[-1], S.ch[p[-1]], D()))
        got = sum(w[i] for i in p)
        best = S.max_weight(w)
        if got != best:
            V(vid + ".not_maximal", lambda: "%s=%s has %s %d but a source->sink path of %s %d exists (weights %s). %s" % (what, p, total_name, got, total_name, best, w, D()))

    if n > 0:
        ok, r = call("Graph.get_longest_path", g.get_longest_path)
        if not ok:
            V("longest_path.raised", lambda: "get_longest_path() raised %r on a non-empty DAG. %s" % (r, D()))
        else:
            check_path("longest_path", "get_longest_path()", lab(r), [1] * n, "node count")
        wlist = list(case.get("weights") or ())
        if case.get("runtimes"):
            wlist.append(eff_runtimes(case))
        for w in wlist:
            ok, r = call("Graph.get_longest_path", lambda: g.get_longest_path(lambda node: w[idx[node]]))
            if not ok:
                V("longest_path.raised", lambda: "get_longest_path(weights=%s) raised %r on a non-empty DAG. %s" % (w, r, D()))
            else:
                check_path("longest_path", "get_longest_path(weights=%s)" % (w,), lab(r), w, "weight")
    else:
        ok, r = call("Graph.get_longest_path", g.get_longest_path)
        O("longest_path.empty_graph", lambda: "get_longest_path() on the empty graph -> %r (no source->sink path exists; nothing demanded)" % (r,))

    # ------------------------------------------------------------------ critical path runtime / completion time
    if cls in ("taskgraph", "jobgraph") and n > 0:
        from utils import EventTime

        best = S.max_weight(eff_runtimes(case))
        props = [("critical_path_runtime", "critical_path_runtime")]
        if cls == "jobgraph":
            props.append(("completion_time", "completion_time"))
        for attr, vid in props:
            kind = "task_graph" if cls == "taskgraph" else "job_graph"
            ok, r = call("%s.%s" % (gname, attr), lambda: getattr(g, attr))
            if not ok:
                V("%s.%s.raised" % (vid, kind), lambda: "%s.%s raised %r. %s" % (gname, attr, r, D()))
            elif not isinstance(r, EventTime) or r.to(EventTime.Unit.US).time != best:
                V("%s.%s.not_maximum" % (vid, kind), lambda: "%s.%s=%r but the heaviest source->sink path takes %d us. %s" % (gname, attr, r, best, D()))

    # ------------------------------------------------------------------ are_dependent
    pairs = case.get("pairs")
    if pairs is None:
        pairs = [(a, b) for a in range(n) for b in range(n) if a != b]
    for a, b in pairs:
        ok, r = call("Graph.are_dependent", lambda: g.are_dependent(nodes[a], nodes[b]))
        want = S.reaches(a, b) or S.reaches(b, a)
        if not ok:
            V("are_dependent.raised", lambda: "are_dependent(%d,%d) raised %r on a DAG. %s" % (a, b, r, D()))
        elif bool(r) != want:
            V(
                "are_dependent.false_negative" if want else "are_dependent.false_positive",
                lambda: "are_dependent(%d,%d)=%r but %s. %s" % (a, b, r, ("%d reaches %d" % ((a, b) if S.reaches(a, b) else (b, a))) if want else "neither node reaches the other", D()),
            )
    if n > 0 and case.get("self_pairs", True):
        ok, r = call("Graph.are_dependent", lambda: g.are_dependent(nodes[0], nodes[0]))
        O("are_dependent.same_node", lambda: "are_dependent(x,x) -> %r (statement is about two nodes; nothing demanded)" % (r,))

    # ------------------------------------------------------------------ node depth (docstring: source = 1; func=max|min)
    for i in range(n):
        ok, r = call("Graph.get_node_depth", lambda: g.get_node_depth(nodes[i]))
        if not ok:
            V("node_depth.raised", lambda: "get_node_depth(%d) raised %r on a DAG. %s" % (i, r, D()))
        elif r != S.dmax[i]:
            vid = "node_depth.source_not_one" if not S.pa[i] else "node_depth.max_mismatch"
            V(vid, lambda: "get_node_depth(%d)=%r; the longest source->node path has %d nodes (source depth is 1). %s" % (i, r, S.dmax[i], D()))
        ok, r = call("Graph.get_node_depth", lambda: g.get_node_depth(nodes[i], func=min))
        if not ok:
            V("node_depth.raised", lambda: "get_node_depth(%d, func=min) raised %r on a DAG. %s" % (i, r, D()))
        elif r != S.dmin[i]:
            vid = "node_depth.source_not_one" if not S.pa[i] else "node_depth.min_mismatch"
            V(vid, lambda: "get_node_depth(%d, func=min)=%r; the shortest source->node path has %d nodes (source depth is 1). %s" % (i, r, S.dmin[i], D()))

    # ------------------------------------------------------------------ breadth first / iteration
    for vid, name, fn in (("breadth_first", "Graph.breadth_first", lambda: drain(g.breadth_first(), cap)), ("iter", "Graph.__iter__", lambda: drain(iter(g), cap))):
        ok, r = call(name, fn)
        if not ok:
            V(vid + ".raised", lambda: "%s raised %r on a DAG. %s" % (name, r, D()))
            continue
        bf = lab(r)
        if len(bf) >= cap:
            V(vid + ".runaway_yield", lambda: "%s yielded %d+ items on a graph of %d nodes: %s... %s" % (name, cap, n, bf[:20], D()))
        elif any(isinstance(x, str) for x in bf):
            V(vid + ".foreign_node", lambda: "%s yielded %s with a non-node. %s" % (name, bf, D()))
        else:
            if len(set(bf)) != len(bf):
                V(vid + ".duplicate_yield", lambda: "%s yielded %s: a node appears twice. %s" % (name, bf, D()))
            if set(bf) != set(range(n)):
                V(vid + ".missing_node", lambda: "%s yielded %s: omits %s. %s" % (name, bf, sorted(set(range(n)) - set(bf)), D()))
            first = {}
            for k, x in enumerate(bf):
                first.setdefault(x, k)
            bad = [(a, b) for a, b in sorted(S.E) if a in first and b in first and first[a] > first[b]]
            if bad:
                V(vid + ".child_before_parent", lambda: "%s yielded %s: child before parent for edges %s. %s" % (name, bf, bad, D()))

    # ------------------------------------------------------------------ depth first
    for i in case.get("dfs_nodes", range(n)):
        ok, r = call("Graph.depth_first", lambda: drain(g.depth_first(nodes[i]), cap))
        if not ok:
            V("depth_first.raised", lambda: "depth_first(%d) raised %r on a DAG. %s" % (i, r, D()))
            continue
        df = lab(r)
        want = S.reach_set(i)
        if len(df) >= cap:
            V("depth_first.runaway_yield", lambda: "depth_first(%d) yielded %d+ items on a graph of %d nodes: %s... %s" % (i, cap, n, df[:20], D()))
            continue
        if any(isinstance(x, str) for x in df):
            V("depth_first.foreign_node", lambda: "depth_first(%d) yielded %s with a non-node. %s" % (i, df, D()))
            continue
        if set(df) - want:
            V("depth_first.unreachable_yielded", lambda: "depth_first(%d) yielded %s; %s not reachable from %d. %s" % (i, df, sorted(set(df) - want), i, D()))
        if want - set(df):
            V("depth_first.missing_reachable", lambda: "depth_first(%d) yielded %s; omits reachable %s. %s" % (i, df, sorted(want - set(df)), D()))
        if len(set(df)) != len(df):
            V("depth_first.duplicate_yield", lambda: "depth_first(%d) yielded %s: %s appear more than once; each reachable node must be yielded once. %s" % (i, df, sorted({x for x in df if df.count(x) > 1}), D()))
    ok, r = call("Graph.depth_first", lambda: drain(g.depth_first(), cap))
    if not ok:
        V("depth_first.from_sources_raised", lambda: "depth_first() raised %r on a DAG. %s" % (r, D()))
    else:
        df = lab(r)
        if len(df) >= cap:
            V("depth_first.from_sources_runaway_yield", lambda: "depth_first() yielded %d+ items on a graph of %d nodes: %s... %s" % (cap, n, df[:20], D()))
        elif any(isinstance(x, str) for x in df):
            V("depth_first.from_sources_foreign_node", lambda: "depth_first() yielded %s with a non-node. %s" % (df, D()))
        else:
            if set(df) != set(range(n)):
                V("depth_first.from_sources_missing_node", lambda: "depth_first() yielded %s: omits %s (every node of a DAG is reachable from a source). %s" % (df, sorted(set(range(n)) - set(df)), D()))
            if len(set(df)) != len(df):
                V("depth_first.from_sources_duplicate_yield", lambda: "depth_first() yielded %s: %s appear more than once. %s" % (df, sorted({x for x in df if df.count(x) > 1}), D()))

    # ------------------------------------------------------------------ observation only: breadth_first(node)
    if case.get("observe_bfs_from", False):
        for i in range(n):
            ok, r = call("Graph.breadth_first(node)", lambda: drain(g.breadth_first(nodes[i]), cap))
            if ok and set(lab(r)) != S.reach_set(i):
                O("breadth_first_from.not_reachable_set", lambda: "breadth_first(%d) yielded %s, reachable set is %s (statement only speaks of whole-graph breadth-first iteration). %s" % (i, lab(r), sorted(S.reach_set(i)), D()))


# ==== CORE END ====
import math  # noqa: E402
import multiprocessing  # noqa: E402
import os  # noqa: E402
import sys  # noqa: E402

sys.path.insert(0, os.path.dirname(os.path.dirname(os.path.abspath(__file__))))
from bounded.common import Result, parse_args, quiet_logging  # noqa: E402

REPLAY_TEMPLATE = '''import sys

CASE = %(case)r
WANT = %(want)r
%(core)s

found, seen = [], []
def V(vid, msgfn):
    seen.append(vid)
    if vid == WANT:
        found.append(msgfn())
import logging
logging.disable(logging.CRITICAL)
print("input:", describe(CASE))
print("edges in insertion order (parent, child):", case_edges(CASE))
check_case(CASE, V)
for m in found[:5]:
    print("VIOLATION", WANT, "::", m)
if not found:
    print("contract", WANT, "holds on this input; other violated contracts:", sorted(set(seen)))
sys.exit(1 if found else 0)
'''


def core_source():
    with open(os.path.abspath(__file__)) as f:
        src = f.read()
    a = src.index("# ==== CORE BEGIN ====")
    b = src.index("# ==== CORE END ====")
    return src[a:b]


# --------------------------------------------------------------------------- enumeration of labelled DAGs
def bits(m):
    out = []
    i = 0
    while m:
        if m & 1:
            out.append(i)
        m >>= 1
        i += 1
    return out


def submasks(m):
    """all submasks of m including 0, ascending"""
    out = []
    s = m
    while True:
        out.append(s)
        if s == 0:
            break
        s = (s - 1) & m
    return out[::-1]


def dags_with_sources(n, V, S):
    """every labelled DAG on node set V (bitmask) whose set of sources is exactly S, each once:
    peel the sources S; the rest is any DAG on V\\S; every source of the rest needs >= 1 parent in S,
    every other remaining node takes any subset of S as extra parents. yields adj (adj[i] = bitmask
    of children of i)."""
    R = V & ~S
    subs = submasks(S)
    nonempty = subs[1:]
    rn = bits(R)
    for adjR, srcR in all_dags(n, R):
        choices = [nonempty if (srcR >> r) & 1 else subs for r in rn]
        for combo in itertools.product(*choices):
            adj = adjR[:]
            for r, P in zip(rn, combo):
                for s in bits(P):
                    adj[s] |= 1 << r
            yield adj, S


def all_dags(n, V):
    if V == 0:
        yield [0] * n, 0
        return
    for S in submasks(V)[1:]:
        yield from dags_with_sources(n, V, S)


def count_dags_by_sources(nmax):
    """a[m][k] = number of labelled DAGs on m nodes with exactly k sources (Robinson-style recurrence
    following the same peeling argument)"""
    a = [[0] * (nmax + 1) for _ in range(nmax + 1)]
    a[0][0] = 1
    for m in range(1, nmax + 1):
        for k in range(1, m + 1):
            r = m - k
            tot = 0
            for j in range(0, r + 1):
                if a[r][j]:
                    tot += a[r][j] * (2**k - 1) ** j * (2**k) ** (r - j)
            a[m][k] = math.comb(m, k) * tot
    return a


A003024 = [1, 1, 3, 25, 543, 29281, 3781503]  # number of labelled DAGs on n nodes

STYLES = ["asc", "desc", "ctor", "addch", "shuf", "warmrm"]


def adj_edges(n, adj):
    return [(i, c) for i in range(n) for c in bits(adj[i])]


def styled(cls, n, edges, style, rng):
    """turn a labelled edge set into construction steps; returns (ctor, ops)"""
    if style == "asc":  # all nodes in label order, then edges ascending
        return None, [["n", i, []] for i in range(n)] + [["e", a, b] for a, b in edges]
    if style == "desc":  # all nodes in label order, then edges descending
        return None, [["n", i, []] for i in range(n)] + [["e", a, b] for a, b in edges[::-1]]
    if style == "ctor":  # the mapping idiom of the tests: Graph({node: children}); dict order = discovery order
        return [[i, [c for a, c in edges if a == i]] for i in range(n)], []
    if style == "addch":  # add_node(node, *children) in reverse label order, children descending
        return None, [["n", i, [c for a, c in edges[::-1] if a == i]] for i in range(n - 1, -1, -1)]
    if style == "warmrm":
        # built ascending, then an EXTRA source with edges to the even-labelled nodes is added, every query routine is
        # called once (so that anything a routine memoises is filled), and the extra source is removed again with
        # Graph.remove (what TaskGraph.clean does with finished tasks): the graph is the n-node graph again and every
        # contract is checked on it (seed C17-3: a stale cached order survives the removal)
        return None, [["n", i, []] for i in range(n)] + [["e", a, b] for a, b in edges] + [["x", [i for i in range(n) if i % 2 == 0]]]
    if style == "shuf":  # nodes and edges in seeded random order
        order = list(range(n))
        rng.shuffle(order)
        e = list(edges)
        rng.shuffle(e)
        return None, [["n", i, []] for i in order] + [["e", a, b] for a, b in e]
    raise ValueError(style)


CLS_ID = {"graph": 1, "taskgraph": 2, "jobgraph": 3}


def small_key(cls, n, edges, style, extra):
    mask = 0
    for a, b in edges:
        mask |= 1 << (a * n + b)
    return ((((CLS_ID[cls] * 8 + n) << 36 | mask) * 8 + STYLES.index(style)) << 20) | extra


class Sink:
    """per-task collector: violations / observations keep the smallest witness per id"""

    def __init__(self):
        self.v = {}
        self.o = {}
        self.calls = {}
        self.evals = 0
        self.keys = []
        self.samples = []
        self.hangs = 0
        self.skipped = 0

    def run(self, case, key, nontrivial):
        if self.hangs >= 3:
            # a routine that hangs on everything would cost the time limit per case: after three hangs in
            # this work item the remaining cases are skipped and reported as not evaluated
            self.skipped += 1
            return
        rank = (case["n"], len(case_edges(case)), CLS_ID[case["cls"]], str(key))

        def put(store):
            def f(vid, msgfn):
                if vid.endswith(".did_not_terminate"):
                    self.hangs += 1
                e = store.get(vid)
                if e is None:
                    store[vid] = [1, rank, dict(case), msgfn()]
                else:
                    e[0] += 1
                    if rank < e[1]:
                        e[1], e[2], e[3] = rank, dict(case), msgfn()

            return f

        check_case(case, put(self.v), put(self.o), self.calls, limit=CASE_TIME_LIMIT if self.hangs == 0 else 1.0)
        self.evals += 1
        if nontrivial:
            self.keys.append(key)
        if len(self.samples) < 2 and nontrivial:
            self.samples.append(describe(case))

    def result(self):
        return {"v": self.v, "o": self.o, "calls": self.calls, "evals": self.evals, "keys": self.keys, "samples": self.samples, "skipped": self.skipped}


def all_weightings(n):
    return [list(w) for w in itertools.product((1, 2, 3), repeat=n)]


def task_exhaustive(t):
    """t = (cls, n, S, part, parts, styles, wmode, seed): every labelled DAG on n nodes with source set S"""
    cls, n, S, part, parts, styles, wmode, seed = t
    quiet_logging()
    sink = Sink()
    full = (1 << n) - 1
    allw = all_weightings(n) if n <= 6 else None
    gen = dags_with_sources(n, full, S) if n > 0 else iter([([], 0)])
    for k, (adj, _) in enumerate(gen):
        if k % parts != part:
            continue
        edges = adj_edges(n, adj)
        rng = random.Random("%d/%s/%d/%d/%d" % (seed, cls, n, S, k))
        if wmode.startswith("rotate"):  # one style per DAG, rotating
            use = [styles[k % len(styles)]]
        else:
            use = styles
        for si, style in enumerate(use):
            ctor, ops = styled(cls, n, edges, style, rng)
            case = {"cls": cls, "n": n, "ctor": ctor, "ops": ops, "seed": seed}
            if cls == "graph":
                if wmode in ("all", "rotate_all") and si == 0:
                    case["weights"] = allw  # every weighting in {1,2,3}^n
                    extra = 0xFFFFF
                else:
                    ws = [rng.choice(allw) for _ in range(2)]
                    case["weights"] = [[1] * n] + ws
                    extra = sum(w * 3**i for i, w in enumerate(ws[0])) if n else 0
                case["observe_bfs_from"] = si == 0 and n <= 5
                if n >= 6:
                    # every unordered pair once; orientation alternates with the DAG index (all relabelled
                    # copies of the DAG are enumerated too, so both orientations of each shape occur)
                    case["pairs"] = [(a, b) if (a + b + k) % 2 else (b, a) for a in range(n) for b in range(a + 1, n)]
                sink.run(case, small_key(cls, n, edges, style, extra), bool(edges))
            else:
                if wmode in ("all", "rotate_all"):
                    rts = allw
                else:
                    rts = [rng.choice(allw) for _ in range(int(wmode.split(":")[1]) if ":" in wmode else 2)]
                for ri, rt in enumerate(rts):
                    c = dict(case)
                    c["runtimes"] = rt
                    extra = sum((w - 1) * 3**i for i, w in enumerate(rt))
                    sink.run(c, small_key(cls, n, edges, style, extra), bool(edges))
                    if n >= 2 and (ri + k) % 3 == 0:
                        # the same graph with every second node's runtime given in milliseconds (mixed EventTime units)
                        c2 = dict(c)
                        c2["ms_nodes"] = [i for i in range(n) if (i + k) % 2 == 0]
                        sink.run(c2, small_key(cls, n, edges, style, extra) ^ (1 << 19), bool(edges))
    return sink.result()


def digraph_cases(n, loops):
    """every digraph on n labelled nodes (with or without self-loops) as an edge list"""
    slots = [(a, b) for a in range(n) for b in range(n) if loops or a != b]
    for m in range(1 << len(slots)):
        yield [slots[i] for i in range(len(slots)) if (m >> i) & 1]


def task_cyclic(t):
    """graphs with cycles: the toposort must report an error"""
    which, seed, count = t
    quiet_logging()
    sink = Sink()
    rng = random.Random("%d/cyc/%s" % (seed, which))

    def run(cls, n, edges, style, tag):
        S = Spec(n, edges)
        if not S.cyclic:
            return
        ctor, ops = styled(cls, n, edges, style, rng)
        case = {"cls": cls, "n": n, "ctor": ctor, "ops": ops, "seed": seed}
        if cls != "graph":
            case["runtimes"] = [rng.choice((1, 2, 3)) for _ in range(n)]
        if n > 8:
            case["depth_nodes"] = [rng.randrange(n) for _ in range(3)]
            case["pairs"] = [(rng.randrange(n), rng.randrange(n)) for _ in range(4)]
        sink.run(case, "cyc/%s/%s/%d/%s/%s" % (tag, cls, n, sorted(edges), style), True)

    if which == "small":
        for n in (1, 2, 3):
            for edges in digraph_cases(n, True):
                for style in ("asc", "ctor", "desc"):
                    run("graph", n, edges, style, "all<=3")
        for edges in digraph_cases(3, False):
            run("taskgraph", 3, edges, "ctor", "all3")
            run("jobgraph", 3, edges, "ctor", "all3")
    elif which == "four":
        for edges in digraph_cases(4, False):
            run("graph", 4, edges, "asc", "all4")
            run("graph", 4, edges, "addch", "all4")
    elif which == "hand":
        for k in range(2, 13):
            ring = [(i, (i + 1) % k) for i in range(k)]
            for style in STYLES:
                run("graph", k, ring, style, "ring")
                run("graph", k + 2, [(k, 0)] + ring + [(1, k + 1)], style, "source->ring->sink")
                run("graph", k + 3, ring + [(k, k + 1), (k + 1, k + 2)], style, "ring+separate_chain")
                chain = [(i, i + 1) for i in range(k + 2)]
                run("graph", k + 3, chain + [(k + 1, 1)], style, "chain+back_edge")
                run("graph", k + 3, chain + [(k + 2, k + 2)], style, "chain+self_loop_at_sink")
        run("taskgraph", 5, [(0, 1), (1, 2), (2, 3), (3, 1), (3, 4)], "ctor", "hand")
        run("jobgraph", 5, [(0, 1), (1, 2), (2, 3), (3, 1), (3, 4)], "ctor", "hand")
    else:  # random DAG + back edges
        for i in range(count):
            n = rng.randint(5, 40)
            edges = random_dag(rng, n)
            reach = Spec(n, edges)
            cands = [(b, a) for a in range(n) for b in range(n) if a != b and reach.reaches(a, b)]
            if not cands:
                continue
            extra = rng.sample(cands, min(len(cands), rng.choice((1, 1, 2, 3))))
            edges = edges + [e for e in extra if e not in edges]
            run("graph", n, edges, rng.choice(STYLES), "rand%d" % i)
    return sink.result()


def random_dag(rng, n):
    """a random DAG on labels 0..n-1 whose topological order is a random permutation"""
    perm = list(range(n))
    rng.shuffle(perm)
    shape = rng.choice(("gnp", "gnp", "gnp", "layered", "chain+", "tree", "wide"))
    edges = set()
    if shape == "gnp":
        p = rng.choice((0.03, 0.06, 0.1, 0.15, 0.25, 0.4))
        for i in range(n):
            for j in range(i + 1, n):
                if rng.random() < p:
                    edges.add((perm[i], perm[j]))
    elif shape == "layered":
        layers, i = [], 0
        while i < n:
            k = rng.randint(1, 5)
            layers.append(perm[i : i + k])
            i += k
        for la, lb in zip(layers, layers[1:]):
            for b in lb:
                for a in rng.sample(la, rng.randint(1, len(la))):
                    edges.add((a, b))
        for _ in range(rng.randint(0, n // 3)):  # skip-level edges
            x, y = sorted(rng.sample(range(len(layers)), 2)) if len(layers) > 1 else (0, 0)
            if x != y:
                edges.add((rng.choice(layers[x]), rng.choice(layers[y])))
    elif shape == "chain+":
        for i in range(n - 1):
            edges.add((perm[i], perm[i + 1]))
        for _ in range(rng.randint(0, n)):
            i, j = sorted(rng.sample(range(n), 2))
            edges.add((perm[i], perm[j]))
    elif shape == "tree":
        for j in range(1, n):
            edges.add((perm[rng.randrange(j)], perm[j]))
        for _ in range(rng.randint(0, 4)):
            i, j = sorted(rng.sample(range(n), 2))
            edges.add((perm[i], perm[j]))
    else:  # wide: few sources fanning out to many, merging into few
        k = max(1, n // 8)
        for j in range(k, n - k):
            edges.add((perm[rng.randrange(k)], perm[j]))
            if rng.random() < 0.8:
                edges.add((perm[j], perm[n - 1 - rng.randrange(k)]))
    return sorted(edges)


def task_random(t):
    seed, lo, hi = t
    quiet_logging()
    sink = Sink()
    for i in range(lo, hi):
        rng = random.Random("%d/rand/%d" % (seed, i))
        cls = ("graph", "graph", "graph", "taskgraph", "jobgraph")[i % 5]
        n = 40 if i % 10 == 0 else rng.randint(7, 40)
        edges = random_dag(rng, n)
        style = rng.choice(("shuf", "shuf", "ctor", "addch", "asc", "desc"))
        if style == "ctor":
            order = list(range(n))
            rng.shuffle(order)
            ch = {a: [] for a in range(n)}
            e = list(edges)
            rng.shuffle(e)
            for a, b in e:
                ch[a].append(b)
            ctor, ops = [[a, ch[a]] for a in order], []
        else:
            ctor, ops = styled(cls, n, edges, style, rng)
        case = {"cls": cls, "n": n, "ctor": ctor, "ops": ops, "seed": seed}
        if cls == "graph":
            case["weights"] = [[1] * n] + [[rng.choice((1, 2, 3)) for _ in range(n)] for _ in range(3)] + [[rng.randint(1, 1000) for _ in range(n)]]
            case["observe_bfs_from"] = True
        else:
            case["runtimes"] = [rng.choice((1, 2, 3)) if rng.random() < 0.5 else rng.randint(1, 5000) for _ in range(n)]
            case["ms_nodes"] = [i for i in range(n) if rng.random() < 0.3]
        if n > 14:
            sp = Spec(n, edges)
            pos = [(a, b) for a in range(n) for b in range(n) if a != b and sp.reaches(a, b)]
            neg = [(a, b) for a in range(n) for b in range(n) if a != b and not sp.reaches(a, b) and not sp.reaches(b, a)]
            k = 60 if cls == "graph" else 25
            pairs = rng.sample(pos, min(k, len(pos))) + rng.sample(neg, min(k, len(neg)))
            pairs += [(b, a) for a, b in pairs[: k // 2]]
            case["pairs"] = pairs
        sink.run(case, "rand/%d/%d" % (seed, i), bool(edges))
    return sink.result()


def plan(tier, seed, max_n=None):
    """list of (function, argument) work items; max_n (development aid) drops exhaustive items above n"""
    a = count_dags_by_sources(6)
    for m in range(7):
        assert sum(a[m]) == A003024[m], (m, a[m])
    items = []

    def exhaustive(cls, n, styles, wmode, chunk):
        if max_n is not None and n > max_n:
            return
        if n == 0:
            items.append((task_exhaustive, (cls, 0, 0, 0, 1, styles, wmode, seed)))
            return
        full = (1 << n) - 1
        for S in submasks(full)[1:]:
            cnt = a[n][bin(S).count("1")] // math.comb(n, bin(S).count("1"))
            parts = max(1, -(-cnt // chunk))
            for part in range(parts):
                items.append((task_exhaustive, (cls, n, S, part, parts, styles, wmode, seed)))

    if tier == "quick":
        for n in range(0, 5):
            exhaustive("graph", n, STYLES, "all", 400)
        exhaustive("graph", 5, STYLES, "sample", 1500)
        for cls in ("taskgraph", "jobgraph"):
            for n in range(0, 4):
                exhaustive(cls, n, ["ctor", "addch", "warmrm"], "all", 40)
            exhaustive(cls, 4, ["ctor", "addch", "warmrm"], "rotate:10", 60)
        nrand, ncyc = 40, 40
    else:
        for n in range(0, 6):
            exhaustive("graph", n, STYLES, "all", 400)
        exhaustive("graph", 6, STYLES, "rotate", 20000)
        for cls in ("taskgraph", "jobgraph"):
            for n in range(0, 5):
                exhaustive(cls, n, ["ctor", "addch", "warmrm"], "all", 40)
            exhaustive(cls, 5, ["ctor", "addch", "shuf", "warmrm"], "rotate", 1500)
        nrand, ncyc = 600, 400
    for which in ("small", "four", "hand"):
        items.append((task_cyclic, (which, seed, 0)))
    items.append((task_cyclic, ("random", seed, ncyc)))
    step = 5
    for lo in range(0, nrand, step):
        items.append((task_random, (seed, lo, min(nrand, lo + step))))
    return items


def _dispatch(item):
    fn, arg = item
    return fn(arg)


def main():
    args = parse_args(lambda ap: ap.add_argument("--max-n", type=int, default=None, help="development aid: cap n of the exhaustive part"))
    quiet_logging()
    tier = "thorough" if args.tier == "thorough" else "quick"
    if tier == "quick":
        bound = (
            "Graph: every labelled DAG on n<=5 nodes (1+1+3+25+543+29281), each built 5 ways (nodes then edges ascending / "
            "descending / constructor mapping / add_node(node,*children) in reverse order / seeded shuffle); weights: for n<=4 default + every "
            "weighting in {1,2,3}^n on the first build and default + unit + 2 sampled weightings on the other four; for n=5 default + unit + 2 "
            "sampled weightings on each of the 5 builds (sampled, not exhaustive in weights; the thorough tier is). TaskGraph and JobGraph "
            "(real Task/Job objects): every labelled DAG on n<=3 with every runtime vector in {1,2,3}^n us, built by constructor mapping and by add_task/add_job; n=4 every labelled DAG with 10 sampled runtime vectors, builds alternating per DAG (sampled in runtimes; the thorough tier is exhaustive there). "
            "Cyclic: every digraph with self-loops on <=3 nodes, every loop-free digraph on 4 nodes, rings/back-edges up to 15 nodes, "
            "40 random DAGs (5..40 nodes) plus back edges. Random (sampled): 40 seeded DAGs with 7..40 nodes."
        )
    else:
        bound = (
            "Graph: every labelled DAG on n<=6 nodes (3781503 at n=6); n<=5 each built 5 ways with all weights {1,2,3}^n on the first "
            "build and default + unit + 2 sampled weightings on the others; n=6 one build per DAG (style rotating) with default + unit + 2 sampled "
            "weightings (sampled, not exhaustive in weights) and are_dependent on every unordered pair in one orientation (both orientations for n<=5). "
            "TaskGraph and JobGraph (real Task/Job objects): every labelled DAG on n<=4 "
            "with all runtimes {1,2,3}^n in 2 builds, n=5 with 2 sampled runtime vectors. Cyclic: every digraph with self-loops on <=3 nodes, every "
            "loop-free digraph on 4 nodes, rings/back-edges up to 15 nodes, 400 random DAGs (5..40 nodes) plus back edges. "
            "Random (sampled): 600 seeded DAGs with 7..40 nodes."
        )
    R = Result(
        args,
        rule=(
            "one case = one concrete graph object (labelled edge set x construction order x class x weight/runtime set) on which every "
            "routine is checked against the brute-force spec; non-trivial = the graph has at least one edge (order, path, reachability and "
            "parent-first obligations are not vacuous); cyclic cases are non-trivial when they contain a cycle"
        ),
        bound=bound,
    )
    items = plan(tier, args.seed, args.max_n)
    if args.max_n is not None:
        R.exhaustive = False
        R.bound = "DEVELOPMENT RUN capped at n<=%d; " % args.max_n + R.bound
    # big items first for better packing
    nproc = min(16, os.cpu_count() or 1)
    viol, obs = {}, {}
    samples = []
    skipped = 0
    with multiprocessing.Pool(nproc) as pool:
        for res in pool.imap_unordered(_dispatch, items, chunksize=1):
            R.evaluations += res["evals"]
            R.distinct.update(res["keys"])
            for k, v in res["calls"].items():
                R.called(k, v)
            samples.extend(res["samples"])
            skipped += res["skipped"]
            for store, src in ((viol, res["v"]), (obs, res["o"])):
                for vid, e in src.items():
                    cur = store.get(vid)
                    if cur is None:
                        store[vid] = e
                    else:
                        cnt = cur[0] + e[0]
                        if e[1] < cur[1]:
                            store[vid] = e
                        store[vid][0] = cnt
    R.samples = sorted(samples, key=lambda x: (len(x), x))[:5]
    core = core_source()
    for vid in sorted(viol):
        cnt, rank, case, msg = viol[vid]
        R.violation(vid, msg, REPLAY_TEMPLATE % {"case": case, "want": vid, "core": core})
        R.violations[vid]["count"] = cnt
    R.extra["observations"] = [{"id": k, "count": v[0], "example": v[3]} for k, v in sorted(obs.items())]
    if skipped:
        R.exhaustive = False
        R.undecided.append("%d cases were not evaluated: skipped after three hangs in their work item" % skipped)
    R.extra["work_items"] = len(items)
    R.finish()


if __name__ == "__main__":
    main()
