#!/usr/bin/env python3
"""Bounded stand-in for C09 at API level: everything the simulator derives from the seeded generators is the same in two
fresh processes (different PYTHONHASHSEED) after `random.seed(S)` -- the call main.py makes before anything is built.

Cases: every release-policy factory of JobGraph.ReleasePolicy created WITHOUT an explicit rng_seed (periodic, fixed,
poisson, gamma, fixed_gamma, closed_loop) -> get_release_times(); ids of freshly created Resource / Job / Task /
ExecutionStrategy / Worker / WorkerPool objects; EventTime.fuzz draws; a conditional JobGraph resolved at submission.
Each case prints a canonical line; the two processes must print identical lines.  Protocol: bounded/common.py."""
import os
import subprocess
import sys

from bounded.common import REPO, Result, parse_args, quiet_logging

CHILD = r'''
import random, sys, logging
logging.disable(logging.CRITICAL)
S = int(sys.argv[1])
random.seed(S)
from utils import EventTime
from workload import (ExecutionStrategies, ExecutionStrategy, Job, JobGraph, Resource, Resources, Task, WorkProfile)
from workers import Worker, WorkerPool
US = EventTime.Unit.US
ET = lambda v: EventTime(v, US)
out = []
RP = JobGraph.ReleasePolicy
def times(name, pol):
    try:
        ts = pol.get_release_times(ET(400))
        out.append("%s %s" % (name, [t.to(US).time for t in ts]))
    except Exception as e:
        out.append("%s raised %s" % (name, type(e).__name__))
times("periodic", RP.periodic(period=ET(100), start=ET(5)))
times("fixed", RP.fixed(period=ET(50), num_invocations=4, start=ET(5)))
times("poisson", RP.poisson(rate=0.01, num_invocations=5, start=ET(5)))
times("gamma", RP.gamma(rate=0.01, num_invocations=5, coefficient=2.0, start=ET(5)))
times("fixed_gamma", RP.fixed_gamma(variable_arrival_rate=0.01, base_arrival_rate=0.01, num_invocations=5, coefficient=2.0, start=ET(5)))
times("closed_loop", RP.closed_loop(concurrency=2, num_invocations=5, start=ET(5)))
r = Resources(resource_vector={Resource(name="CPU", _id="any"): 2})
s = ExecutionStrategy(resources=r, batch_size=1, runtime=ET(10))
p = WorkProfile(name="wp", execution_strategies=ExecutionStrategies([s]))
j = Job(name="j", profile=p)
t = Task(name="t", task_graph="g", job=j, profile=p, deadline=ET(100), timestamp=0)
w = Worker(name="w", resources=Resources({Resource(name="CPU"): 2}))
wp = WorkerPool(name="wp", workers=[w])
out.append("ids %s %s %s %s %s" % (Resource(name="GPU").id, s.id, t.id, w.id, wp.id))
out.append("fuzz %s" % [ET(1000).fuzz((0, 50)).to(US).time for _ in range(5)])
# a JobGraph with a release policy and a deadline variance: generated graphs (names, releases, deadlines)
jg = JobGraph(name="jg", release_policy=RP.poisson(rate=0.02, num_invocations=3, start=ET(0)), deadline_variance=(0, 40))
a, b = Job(name="a", profile=p), Job(name="b", profile=p)
jg.add_job(a, [b]); jg.add_job(b, [])
try:
    tgs = jg.generate_task_graphs(completion_time=ET(400))
    out.append("graphs %s" % [(nm, g.deadline.to(US).time, [(x.name, x.release_time.to(US).time, x.deadline.to(US).time, x.id) for x in g.get_nodes()]) for nm, g in tgs.items()])
except Exception as e:
    out.append("graphs raised %s %s" % (type(e).__name__, e))
print("\n".join(out))
'''


def run_child(seed, hashseed):
    env = dict(os.environ, PYTHONPATH=REPO, PYTHONHASHSEED=str(hashseed))
    p = subprocess.run([sys.executable, "-c", CHILD, str(seed)], cwd=REPO, env=env, capture_output=True, text=True, timeout=120)
    return p.returncode, p.stdout.strip().splitlines(), p.stderr[-600:]


def replay(seed, hs):
    return ("import subprocess, sys, os\nCHILD = %r\n" % CHILD) + (
        "def run(hs):\n    env = dict(os.environ, PYTHONHASHSEED=str(hs))\n    return subprocess.run([sys.executable, '-c', CHILD, '%d'], env=env, capture_output=True, text=True).stdout\n" % seed
    ) + "a, b = run(%d), run(%d)\nprint(a); print(b)\nsys.exit(1 if a != b else 0)\n" % hs


def main():
    args = parse_args()
    quiet_logging()
    R = Result(args, rule="one case = one seeded source (a release-policy factory without explicit rng_seed, object ids, fuzz draws, generated task graphs) compared between two fresh processes after random.seed(S); non-trivial: the source drew at least one value", bound="")
    seeds = [0, 7] if args.tier == "quick" else [0, 1, 7, 42, 12345]
    hss = (1, 3)
    n = 0
    for sd in seeds:
        rc0, a, e0 = run_child(sd, hss[0])
        rc1, b, e1 = run_child(sd, hss[1])
        if rc0 != 0 or rc1 != 0 or not a:
            R.undecided.append("child process failed (rc %s/%s): %s" % (rc0, rc1, (e0 or e1)[-300:]))
            continue
        for la, lb in zip(a, b):
            key = la.split(" ")[0]
            R.case((sd, key), True, sample={"seed": sd, "line": la[:160]} if n < 3 else None)
            n += 1
            if la != lb:
                R.violation("api.%s.differs_between_processes" % key, "random.seed(%d), PYTHONHASHSEED %d vs %d:\n  %s\n  %s" % (sd, hss[0], hss[1], la[:400], lb[:400]), replay(sd, hss))
        if len(a) != len(b):
            R.violation("api.output_length_differs", "seed %d: %d vs %d lines" % (sd, len(a), len(b)), replay(sd, hss))
    R.called("JobGraph.ReleasePolicy.* / get_release_times / generate_task_graphs / EventTime.fuzz / id generation (fresh processes)", 2 * len(seeds))
    R.exhaustive = False
    R.bound = "%d seeds x 2 processes x %d seeded sources" % (len(seeds), n // max(1, len(seeds)))
    R.finish()


if __name__ == "__main__":
    main()
