#!/usr/bin/env python
"""Bounded stand-in (E3): captured solver-model implication for the optimisation-based policies.

    python bounded/milp_capture.py --pid C10|C11|C12|C14 --tier quick|thorough --seed N --out f.json

On every enumerated small scheduling instance the REAL schedule() of ILPScheduler,
TetriSchedGurobiScheduler, TetriSchedCPLEXScheduler and Z3Scheduler is called while
gurobipy.Model.optimize / docplex Model.solve / z3 Optimize.check are wrapped in the checking
process.  The wrapper images the model that schedule() built (all variables with type and bounds,
all linear / quadratic / indicator / AND-OR-MAX-MIN general constraints; z3: assertions()) and the
decode dictionaries that the scheduler's own get_placements() reads
(TaskOptimizerVariables._placed_on_worker_with_strategy + start var for the ILP,
._space_time_strategy_matrix for TetriSched, is_placed/placed_on_worker/start for Z3).

Decode rule (what a point of the model MEANS as placements; cross-checked on every optimum
against the Placements that schedule() really returned):
  ILP        task placed on worker w with strategy s  iff  x[w,s] == 1; start = value of <task>_start
  TetriSched task placed on worker w at slot t with strategy s iff x[w,t,s] == 1; start = t (the
             key of the cell, NOT the auxiliary start_time variable)
  Z3         placed iff is_placed; worker = the one-hot bit of placed_on_worker; start = <task>_start;
             no strategy is reported (instances for Z3 use single-strategy tasks)

The image is translated to z3 and, for EVERY feasible point (not only the optimum), `model AND NOT
post` must be unsat, where post is the property clause written from the statement over the decoded
plan.  A sat answer is only reported after the REAL solver confirmed that the witness point (decision
variables pinned) is feasible in the real model.  C14 additionally enumerates by brute force all
plans of the planner's own decision space with an independent feasibility function.
"""
import contextlib
import inspect
import io
import itertools
import json
import multiprocessing
import os
import random
import sys
import time
import traceback

sys.path.insert(0, os.path.dirname(os.path.dirname(os.path.abspath(__file__))))
try:
    from bounded.common import REPO, Result, parse_args, quiet_logging
except ImportError:  # pragma: no cover
    sys.path.insert(0, os.path.dirname(os.path.abspath(__file__)))
    from common import REPO, Result, parse_args, quiet_logging

# =====================================================================================
# Part A.  Functions that are ALSO copied verbatim (inspect.getsource) into replay scripts.
# They depend only on the repository and on each other.
# =====================================================================================


def build_instance(inst):
    """Rebuild a concrete scheduler input from a plain-data description, using only the public
    constructors and the real Task state-transition methods (release/schedule/start/step)."""
    from utils import EventTime
    from workers import Worker, WorkerPool, WorkerPools
    from workload import (ExecutionStrategies, ExecutionStrategy, Job, Placement, Resource,
                          Resources, Task, TaskGraph, Workload, WorkProfile)

    US = EventTime.Unit.US
    random.seed(inst.get("seed", 0))
    now = inst["now"]
    workers = []
    for w in inst["workers"]:
        workers.append(Worker(name=w["name"], resources=Resources(
            {Resource(name=r): q for r, q in w["res"].items()})))
    pools = []
    pool_of_worker = {}
    for pi, members in enumerate(inst["pools"]):
        p = WorkerPool(name="Pool_%d" % (pi + 1), workers=[workers[i] for i in members])
        pools.append(p)
        for i in members:
            pool_of_worker[i] = p
    worker_pools = WorkerPools(worker_pools=pools)

    tasks = {}
    strategies = {}
    for t in inst["tasks"]:
        strats = [ExecutionStrategy(
            resources=Resources(resource_vector={Resource(name=r, _id="any"): q
                                                 for r, q in s["res"].items()}),
            batch_size=1, runtime=EventTime(s["rt"], US)) for s in t["strategies"]]
        strategies[t["name"]] = strats
        rel = t.get("release")
        tasks[t["name"]] = Task(
            name=t["name"], task_graph=t["graph"], job=Job(name=t["name"]),
            deadline=EventTime(t["deadline"], US),
            profile=WorkProfile(name=t["name"] + "_profile",
                                execution_strategies=ExecutionStrategies(strategies=strats)),
            timestamp=0,
            release_time=EventTime(rel, US) if rel is not None else EventTime.invalid())
    graphs = {}
    for t in inst["tasks"]:
        graphs.setdefault(t["graph"], {})[tasks[t["name"]]] = [
            tasks[c] for (p, c) in inst["edges"] if p == t["name"]]
    task_graphs = {g: TaskGraph(name=g, tasks=m) for g, m in graphs.items()}
    workload = Workload.from_task_graphs(task_graphs)

    for t in inst["tasks"]:
        task = tasks[t["name"]]
        st = t.get("state", "released")
        if st == "virtual":
            continue
        task.release(EventTime(t["release"], US))
        if st == "completed":
            pl = t["placed"]
            widx, sidx = pl["worker"], pl["strategy"]
            placement = Placement.create_task_placement(
                task=task, placement_time=EventTime(pl["start"], US),
                worker_pool_id=pool_of_worker[widx].id, worker_id=workers[widx].id,
                execution_strategy=strategies[t["name"]][sidx])
            task.schedule(EventTime(pl["start"], US), placement)
            task.start(EventTime(pl["start"], US))
            task.update_remaining_time(EventTime.zero())
            task.finish(EventTime(pl["start"] + t["strategies"][sidx]["rt"], US))
            continue
        if st in ("scheduled", "running"):
            pl = t["placed"]
            widx, sidx = pl["worker"], pl["strategy"]
            placement = Placement.create_task_placement(
                task=task, placement_time=EventTime(pl["start"], US),
                worker_pool_id=pool_of_worker[widx].id, worker_id=workers[widx].id,
                execution_strategy=strategies[t["name"]][sidx])
            task.schedule(EventTime(pl.get("decided_at", t["release"]), US), placement)
            if st == "running":
                ok = pool_of_worker[widx].place_task(
                    task, execution_strategy=strategies[t["name"]][sidx],
                    worker_id=workers[widx].id)
                assert ok, "instance description places a running task that does not fit"
                task.start(EventTime(pl["start"], US))
                if now > pl["start"]:
                    task.step(EventTime(pl["start"], US), EventTime(now - pl["start"], US))
    return {"now": now, "sim_time": EventTime(now, US), "workers": workers, "pools": pools,
            "pool_of_worker": pool_of_worker, "worker_pools": worker_pools, "tasks": tasks,
            "strategies": strategies, "workload": workload, "task_graphs": task_graphs}


def make_scheduler(inst):
    from utils import EventTime
    US = EventTime.Unit.US
    kind = inst["sched"]["kind"]
    kw = dict(inst["sched"].get("kwargs", {}))
    for k in ("lookahead", "time_discretization", "plan_ahead", "runtime"):
        if k in kw:
            kw[k] = EventTime(kw[k], US)
    kw.setdefault("runtime", EventTime.zero())
    if kind == "ilp":
        from schedulers import ILPScheduler
        return ILPScheduler(**kw)
    if kind == "tetri_gurobi":
        from schedulers import TetriSchedGurobiScheduler
        return TetriSchedGurobiScheduler(**kw)
    if kind == "tetri_cplex":
        from schedulers import TetriSchedCPLEXScheduler
        return TetriSchedCPLEXScheduler(**kw)
    if kind == "z3":
        from schedulers import Z3Scheduler
        return Z3Scheduler(**kw)
    raise ValueError(kind)


def _vk(v):
    """key of a solver variable in the image: name#index (names alone need not be unique: the
    ILP names its placement variables after the strategy's runtime)"""
    name = getattr(v, "VarName", None)
    if name is None:
        name = v.name
    return "%s#%d" % (name, v.index)


def _lin_terms(expr):
    return [(expr.getCoeff(i), _vk(expr.getVar(i))) for i in range(expr.size())], expr.getConstant()


def gurobi_ir(model):
    """Plain-data image of a gurobipy model: every variable (name,type,bounds) and every linear,
    quadratic and general constraint."""
    from gurobipy import GRB
    model.update()
    ir = {"vars": [], "cons": [], "unsupported": []}
    for v in model.getVars():
        ir["vars"].append((_vk(v), v.VType, v.LB, v.UB))
    for c in model.getConstrs():
        terms, const = _lin_terms(model.getRow(c))
        ir["cons"].append(("lin", terms, c.Sense, c.RHS - const, c.ConstrName))
    for qc in model.getQConstrs():
        q = model.getQCRow(qc)
        terms, const = _lin_terms(q.getLinExpr())
        qterms = [(q.getCoeff(i), _vk(q.getVar1(i)), _vk(q.getVar2(i)))
                  for i in range(q.size())]
        ir["cons"].append(("quad", terms, qterms, qc.QCSense, qc.QCRHS - const, qc.QCName))
    for gc in model.getGenConstrs():
        ty = gc.GenConstrType
        if ty == GRB.GENCONSTR_INDICATOR:
            b, val, expr, sense, rhs = model.getGenConstrIndicator(gc)
            terms, const = _lin_terms(expr)
            ir["cons"].append(("ind", _vk(b), int(val), terms, sense, rhs - const,
                               gc.GenConstrName))
        elif ty == GRB.GENCONSTR_AND:
            r, vs = model.getGenConstrAnd(gc)
            ir["cons"].append(("and", _vk(r), [_vk(v) for v in vs], gc.GenConstrName))
        elif ty == GRB.GENCONSTR_OR:
            r, vs = model.getGenConstrOr(gc)
            ir["cons"].append(("or", _vk(r), [_vk(v) for v in vs], gc.GenConstrName))
        elif ty == GRB.GENCONSTR_MAX:
            r, vs, const = model.getGenConstrMax(gc)
            ir["cons"].append(("max", _vk(r), [_vk(v) for v in vs], const,
                               gc.GenConstrName))
        elif ty == GRB.GENCONSTR_MIN:
            r, vs, const = model.getGenConstrMin(gc)
            ir["cons"].append(("min", _vk(r), [_vk(v) for v in vs], const,
                               gc.GenConstrName))
        elif ty == GRB.GENCONSTR_ABS:
            r, a = model.getGenConstrAbs(gc)
            ir["cons"].append(("abs", _vk(r), _vk(a), gc.GenConstrName))
        else:
            ir["unsupported"].append("gurobi general constraint type %s (%s)" % (ty, gc.GenConstrName))
    return ir


def docplex_ir(model):
    """Plain-data image of a docplex.mp model."""
    ir = {"vars": [], "cons": [], "unsupported": []}
    for v in model.iter_variables():
        vt = v.vartype.cplex_typecode  # 'B', 'I', 'C'
        ir["vars"].append((_vk(v), vt, v.lb, v.ub))

    def lin(e):
        e = e.to_linear_expr() if hasattr(e, "to_linear_expr") else e
        if hasattr(e, "iter_terms"):
            return [(c, _vk(v)) for v, c in e.iter_terms()], e.get_constant()
        if hasattr(e, "is_constant") and e.is_constant():
            return [], e.get_constant()
        raise TypeError(type(e))

    sense_map = {"LE": "<", "GE": ">", "EQ": "="}
    for ct in model.iter_constraints():
        cls = type(ct).__name__
        if cls == "LinearConstraint":
            lt, lc = lin(ct.get_left_expr())
            rt, rc = lin(ct.get_right_expr())
            terms = lt + [(-c, n) for c, n in rt]
            ir["cons"].append(("lin", terms, sense_map[ct.sense.name], rc - lc, ct.name))
        elif cls == "IndicatorConstraint":
            inner = ct.linear_constraint
            lt, lc = lin(inner.get_left_expr())
            rt, rc = lin(inner.get_right_expr())
            terms = lt + [(-c, n) for c, n in rt]
            ir["cons"].append(("ind", _vk(ct.binary_var), int(ct.active_value), terms,
                               sense_map[inner.sense.name], rc - lc, ct.name))
        else:
            ir["unsupported"].append("docplex constraint class %s (%s)" % (cls, ct.name))
    return ir


def decode_map(kind, frame_locals):
    """The decode rule = the very dictionaries the scheduler's get_placements() reads.
    Returns {task_unique_name: {'pinned':bool, 'start': varname|int|None,
    'cells': [(worker_index, time|None, strategy_index, varname|int)]}}  (plain data)."""
    ttv = frame_locals["tasks_to_variables"]
    out = {}
    for name, tv in ttv.items():
        task = tv.task
        strats = list(task.available_execution_strategies)

        def sidx(s):
            for i, x in enumerate(strats):
                if x is s:
                    return i
            return -1

        def ref(v):
            if isinstance(v, (int, float)):
                return int(v)
            return _vk(v)
        if kind == "ilp":
            cells = [(w, None, sidx(s), ref(v))
                     for (w, s), v in tv._placed_on_worker_with_strategy.items()]
            out[name] = {"pinned": bool(tv.previously_placed), "start": ref(tv.start_time),
                         "cells": cells, "task": task.unique_name}
        else:
            cells = [(w, t, sidx(s), ref(v))
                     for (w, t, s), v in tv._space_time_strategy_matrix.items()]
            st = getattr(tv, "_start_time", None)
            out[name] = {"pinned": bool(tv.previously_placed),
                         "start": ref(st) if st is not None else None,
                         "cells": cells, "task": task.unique_name}
    return out


class Capture(object):
    """Wrap gurobipy.Model.optimize / docplex Model.solve / z3 Optimize.check in THIS process, so
    that the model the real schedule() built is observed just before it is solved."""

    def __init__(self, kind, hook=None):
        self.kind = kind
        self.hook = hook
        self.records = []

    def __enter__(self):
        cap = self
        if self.kind in ("ilp", "tetri_gurobi"):
            import gurobipy as gp
            self._cls, self._attr = gp.Model, "optimize"
            orig = gp.Model.optimize

            def optimize(model, *a, **k):
                fl = sys._getframe(1).f_locals
                model.update()
                rec = {"ir": gurobi_ir(model), "decode": decode_map(cap.kind, fl),
                       "workers": {i: w.id for i, w in fl["workers"].items()},
                       "offered": [t.unique_name for t in fl["tasks_to_be_scheduled"]]}
                if cap.hook:
                    cap.hook(model, rec, lambda: orig(model))
                r = orig(model, *a, **k)
                rec["status"] = model.Status
                rec["sol"] = ({_vk(v): v.X for v in model.getVars()}
                              if model.SolCount > 0 else None)
                cap.records.append(rec)
                return r
            self._orig = orig
            gp.Model.optimize = optimize
        elif self.kind == "tetri_cplex":
            import docplex.mp.model as cpx
            self._cls, self._attr = cpx.Model, "solve"
            orig = cpx.Model.solve

            def solve(model, *a, **k):
                fl = sys._getframe(1).f_locals
                rec = {"ir": docplex_ir(model), "decode": decode_map(cap.kind, fl),
                       "workers": {i: w.id for i, w in fl["workers"].items()},
                       "offered": [t.unique_name for t in fl["tasks_to_be_scheduled"]]}
                if cap.hook:
                    cap.hook(model, rec, lambda: orig(model))
                r = orig(model, *a, **k)
                rec["status"] = "solution" if r else "no-solution"
                rec["sol"] = ({_vk(v): r.get_value(v) for v in model.iter_variables()}
                              if r else None)
                cap.records.append(rec)
                return r
            self._orig = orig
            cpx.Model.solve = solve
        elif self.kind == "z3":
            from z3 import z3
            self._cls, self._attr = z3.Optimize, "check"
            orig = z3.Optimize.check

            def check(opt, *a, **k):
                fl = sys._getframe(1).f_locals
                if not any(r.get("opt") is opt for r in cap.records) and "tasks_to_variables" in fl:
                    ttv = fl["tasks_to_variables"]
                    rec = {"opt": opt, "assertions": list(opt.assertions()),
                           "vars": {n: {"start": tv.start_time, "placed": tv.is_placed,
                                        "worker": tv.placed_on_worker,
                                        "resources": tv.resources} for n, tv in ttv.items()},
                           "workers": {i: w.id for i, w in fl["workers"].items()},
                           "offered": [t.unique_name for t in fl["tasks_to_be_scheduled"]]}
                    cap.records.append(rec)
                r = orig(opt, *a, **k)
                for rec in cap.records:
                    if rec.get("opt") is opt:
                        rec["status"] = str(r)
                        rec["sol"] = opt.model() if r == z3.sat else None
                return r
            self._orig = orig
            z3.Optimize.check = check
        return self

    def __exit__(self, *exc):
        setattr(self._cls, self._attr, self._orig)
        return False


def uname(inst, name):
    for t in inst["tasks"]:
        if t["name"] == name:
            return "%s@%s" % (name, t["graph"])
    raise KeyError(name)


def make_view(inst):
    """Plain-data facts about the instance, computed from its DESCRIPTION (not from the planner):
    capacities, per-task strategies / deadline / known release / parents / state, and for running
    and scheduled tasks their worker, strategy, expected start and remaining time."""
    now = inst["now"]
    view = {"now": now, "caps": [dict(w["res"]) for w in inst["workers"]], "tasks": {},
            "enforce_deadlines": bool(inst["sched"].get("kwargs", {}).get("enforce_deadlines", False)),
            "kind": inst["sched"]["kind"]}
    for t in inst["tasks"]:
        u = "%s@%s" % (t["name"], t["graph"])
        st = t.get("state", "released")
        d = {"graph": t["graph"], "deadline": t["deadline"], "release": t.get("release"),
             "strategies": [{"rt": s["rt"], "res": dict(s["res"])} for s in t["strategies"]],
             "parents": [uname(inst, p) for (p, c) in inst["edges"] if c == t["name"]],
             "state": st, "placed": None, "remaining": None}
        if st in ("running", "scheduled"):
            pl = t["placed"]
            rt = t["strategies"][pl["strategy"]]["rt"]
            d["placed"] = {"worker": pl["worker"], "strategy": pl["strategy"], "start": pl["start"]}
            d["remaining"] = rt - (now - pl["start"]) if st == "running" else rt
        view["tasks"][u] = d
    return view


class CO(object):
    """concrete evaluation of the clause formulas (python bool / int)"""
    @staticmethod
    def And(*a):
        return all(a)

    @staticmethod
    def Or(*a):
        return any(a)

    @staticmethod
    def Not(a):
        return not a

    @staticmethod
    def Implies(a, b):
        return (not a) or b

    @staticmethod
    def If(c, a, b):
        return a if c else b

    @staticmethod
    def Sum(xs):
        return sum(xs)


def _srt(view, T, s):
    return view["tasks"][T]["strategies"][s]["rt"]


def clause_prec(ops, view, P):
    """C11: a placed task has every predecessor decided in the same invocation placed, and starts
    no earlier than that predecessor's start + its chosen runtime (weakest reading of 'chosen or
    worst-case'); for a running / scheduled predecessor not re-decided here: no earlier than its
    expected finish.  P[T] = {'placed': b, 'cells': [(selected, worker, start, strategy)]}"""
    out = []
    now = view["now"]
    for T in P:
        for par in view["tasks"][T]["parents"]:
            pv = view["tasks"][par]
            if par in P:
                out.append(("prec.child_placed_without_parent", (T, par),
                            ops.Implies(P[T]["placed"], P[par]["placed"])))
                out.append(("prec.child_before_parent_end", (T, par), ops.And(*[
                    ops.Implies(ops.And(c[0], d[0]), c[2] >= d[2] + _srt(view, par, d[3]))
                    for c in P[T]["cells"] for d in P[par]["cells"]])))
            elif pv["state"] == "running":
                out.append(("prec.child_before_running_parent_finish", (T, par), ops.And(*[
                    ops.Implies(c[0], c[2] >= now + pv["remaining"]) for c in P[T]["cells"]])))
            elif pv["state"] == "scheduled":
                out.append(("prec.child_before_scheduled_parent_finish", (T, par), ops.And(*[
                    ops.Implies(c[0], c[2] >= pv["placed"]["start"] + pv["remaining"])
                    for c in P[T]["cells"]])))
    return out


def clause_time(ops, view, P):
    """C10: placement time not before now nor before the task's known release."""
    out = []
    for T in P:
        out.append(("time.before_now", (T,), ops.And(*[
            ops.Implies(c[0], c[2] >= view["now"]) for c in P[T]["cells"]])))
        rel = view["tasks"][T]["release"]
        if rel is not None:
            out.append(("time.before_release", (T,), ops.And(*[
                ops.Implies(c[0], c[2] >= rel) for c in P[T]["cells"]])))
    return out


def clause_deadline(ops, view, P):
    """C12: placed => start + runtime(chosen strategy) <= deadline."""
    out = []
    for T in P:
        out.append(("deadline.placed_past_deadline", (T,), ops.And(*[
            ops.Implies(c[0], c[2] + _srt(view, T, c[3]) <= view["tasks"][T]["deadline"])
            for c in P[T]["cells"]])))
    return out


def clause_capacity(ops, view, P, tau):
    """C10: at instant tau, on every worker and for every resource name, the demand of all tasks
    occupying the worker (half-open [start, start+runtime): decided here, already running until
    their expected finish, scheduled-and-not-re-decided during their planned window) fits."""
    out = []
    now = view["now"]
    names = set()
    for c in view["caps"]:
        names.update(c)
    for T in view["tasks"].values():
        for s in T["strategies"]:
            names.update(r for r, q in s["res"].items() if q > 0)
    for wi, cap in enumerate(view["caps"]):
        for r in sorted(names):
            terms = []
            for T in P:
                for c in P[T]["cells"]:
                    d = view["tasks"][T]["strategies"][c[3]]["res"].get(r, 0)
                    if c[1] == wi and d:
                        terms.append(ops.If(ops.And(c[0], c[2] <= tau,
                                                    tau < c[2] + _srt(view, T, c[3])), d, 0))
            for U, tv in view["tasks"].items():
                if U in P or tv["state"] not in ("running", "scheduled"):
                    continue
                if tv["placed"]["worker"] != wi:
                    continue
                lo = now if tv["state"] == "running" else tv["placed"]["start"]
                d = tv["strategies"][tv["placed"]["strategy"]]["res"].get(r, 0)
                if d:
                    terms.append(ops.If(ops.And(lo <= tau, tau < lo + tv["remaining"]), d, 0))
            if terms:
                out.append(("capacity.overflow", (wi, r), ops.Sum(terms) <= cap.get(r, 0)))
    return out


def concrete_P(view, plan):
    return {T: ({"placed": True, "cells": [(True, c[0], c[1], c[2] if c[2] is not None else 0)]}
                if c is not None else {"placed": False, "cells": []})
            for T, c in plan.items()}


def plan_violations(clause, view, plan):
    """evaluate one clause on a concrete plan {task: None | (worker, start, strategy)};
    returns [(label, about)] of the formulas that are false"""
    P = concrete_P(view, plan)
    bad = []
    if clause == "capacity":
        taus = sorted(set([view["now"]] + [c[1] for c in plan.values() if c is not None]
                          + [tv["placed"]["start"] for tv in view["tasks"].values()
                             if tv["state"] == "scheduled"]))
        for tau in taus:
            for lab, about, ok in clause_capacity(CO, view, P, tau):
                if not ok:
                    bad.append((lab, about + (tau,)))
        return bad
    fn = {"prec": clause_prec, "time": clause_time, "deadline": clause_deadline}[clause]
    for lab, about, ok in fn(CO, view, P):
        if not ok:
            bad.append((lab, about))
    return bad


def spec_feasible(view, plan, tm):
    """Independent feasibility of a concrete plan, written from the C14 statement (capacity,
    release, precedence, deadline) in the planner's own decision space `tm`:
      closed      occupancy is the closed interval [t, t+rt] (ILP guard band) else half-open
      after_now   starts must be >= now+1 (ILP) else >= now
      grid        None or (step, horizon): starts on now + k*step <= now + horizon (TetriSched)
      prec_guard  extra gap demanded between a parent's end and the child's start
      prec_rt     'chosen' or 'worst' runtime of a parent decided in the same invocation
      running_full (diagnosis only) charge running tasks their full runtime instead of remaining
      pairwise    (diagnosis only) ILP-style per-task sum over pairwise-overlapping tasks"""
    now = view["now"]
    occ = []
    for T, c in plan.items():
        if c is None:
            continue
        w, t, s = c
        tv = view["tasks"][T]
        st = tv["strategies"][s]
        if t < now + (1 if tm["after_now"] else 0):
            return False, "start before allowed"
        if tv["release"] is not None and t < tv["release"]:
            return False, "before release"
        if tm.get("grid"):
            step, hor = tm["grid"]
            if (t - now) % step != 0 or t > now + hor:
                return False, "off grid"
        for r, q in st["res"].items():
            if q > view["caps"][w].get(r, 0):
                return False, "worker can never hold strategy"
        if view["enforce_deadlines"] and t + st["rt"] > tv["deadline"]:
            return False, "deadline"
        for par in tv["parents"]:
            pv = view["tasks"][par]
            if par in plan:
                if plan[par] is None:
                    return False, "parent unplaced"
                prt = (pv["strategies"][plan[par][2]]["rt"] if tm["prec_rt"] == "chosen"
                       else max(x["rt"] for x in pv["strategies"]))
                if t < plan[par][1] + prt + tm["prec_guard"]:
                    return False, "precedence"
            elif pv["state"] == "running":
                rem = (pv["strategies"][pv["placed"]["strategy"]]["rt"] if tm.get("running_full")
                       else pv["remaining"])
                if t < now + rem + tm["prec_guard"]:
                    return False, "precedence (running parent)"
            elif pv["state"] == "scheduled":
                if t < pv["placed"]["start"] + pv["remaining"] + tm["prec_guard"]:
                    return False, "precedence (scheduled parent)"
        occ.append((T, w, t, t + st["rt"], st["res"]))
    for U, tv in view["tasks"].items():
        if U in plan or tv["state"] != "running":
            continue
        full = tv["strategies"][tv["placed"]["strategy"]]["rt"]
        dur = full if tm.get("running_full") else tv["remaining"]
        occ.append((U, tv["placed"]["worker"], now, now + dur,
                    tv["strategies"][tv["placed"]["strategy"]]["res"]))

    def overlap(a, b):
        if tm["closed"]:
            return a[2] <= b[3] and b[2] <= a[3]
        return a[2] < b[3] and b[2] < a[3]

    if tm.get("pairwise"):
        for a in occ:
            for wi, cap in enumerate(view["caps"]):
                for r in cap:
                    tot = (a[4].get(r, 0) if a[1] == wi else 0)
                    tot += sum(b[4].get(r, 0) for b in occ
                               if b is not a and b[1] == wi and overlap(a, b))
                    if tot > cap[r]:
                        return False, "capacity (pairwise sum)"
        return True, ""
    for a in occ:
        tau = a[2]
        for r in view["caps"][a[1]]:
            tot = 0
            for b in occ:
                if b[1] == a[1] and b[2] <= tau and (tau <= b[3] if tm["closed"] else tau < b[3]):
                    tot += b[4].get(r, 0)
            if tot > view["caps"][a[1]][r]:
                return False, "capacity"
    return True, ""


def time_model(inst):
    kw = inst["sched"].get("kwargs", {})
    if inst["sched"]["kind"] == "ilp":
        return {"closed": True, "after_now": True, "grid": None, "prec_guard": 1,
                "prec_rt": "chosen"}
    return {"closed": False, "after_now": False,
            # without an explicit plan_ahead the formulations plan up to the greatest deadline of the offered tasks
            "grid": (kw.get("time_discretization", 1), kw["plan_ahead"] if "plan_ahead" in kw else max(t["deadline"] for t in inst["tasks"])),
            "prec_guard": 0, "prec_rt": "worst"}


def goodput(view, offered, plan):
    """number of task graphs all of whose offered tasks are placed (in a feasible plan under
    deadline enforcement every placed task finishes by its deadline)"""
    graphs = {}
    for T in offered:
        graphs.setdefault(view["tasks"][T]["graph"], []).append(T)
    return sum(1 for g, ts in graphs.items() if all(plan.get(T) is not None for T in ts))


def snapshot(ctx):
    """live cluster occupancy and every task's observable state"""
    snap = {"workers": [], "tasks": {}}
    for w in ctx["workers"]:
        snap["workers"].append((
            sorted((r.name, q) for r, q in w.resources._resource_vector.items()),
            sorted(t.unique_name for t in w.get_placed_tasks())))
    for p in ctx["pools"]:
        snap["workers"].append(sorted(t.unique_name for t in p.get_placed_tasks()))
    for n, t in ctx["tasks"].items():
        snap["tasks"][n] = (str(t.state), str(t.release_time), str(t.deadline),
                            str(t._remaining_time), id(t.current_placement),
                            str(t.start_time), str(t.completion_time), t.worker_pool_id)
    return snap


def returned_plan(ctx, placements):
    """decode the returned Placements into {task: [decision,...]} with
    decision = ('cancel',) | None | (worker_index|None, start, strategy_index|None, pool_ok, strat_ok)"""
    from utils import EventTime
    from workload import Placement
    out = {}
    for p in placements:
        task = p.task
        u = task.unique_name
        if p.placement_type == Placement.PlacementType.CANCEL_TASK:
            out.setdefault(u, []).append(("cancel",))
            continue
        if not p.is_placed():
            out.setdefault(u, []).append(None)
            continue
        widx = None
        pool_ok = any(pool.id == p.worker_pool_id for pool in ctx["pools"])
        if p.worker_id is not None:
            for i, w in enumerate(ctx["workers"]):
                if w.id == p.worker_id:
                    widx = i
                    if ctx["pool_of_worker"][i].id != p.worker_pool_id:
                        pool_ok = False
            if widx is None:
                pool_ok = False
        sidx, strat_ok = None, True
        if p.execution_strategy is not None:
            strat_ok = False
            for i, s in enumerate(task.available_execution_strategies):
                if s is p.execution_strategy:
                    sidx, strat_ok = i, True
        out.setdefault(u, []).append((widx, p.placement_time.to(EventTime.Unit.US).time,
                                      sidx, pool_ok, strat_ok))
    return out


def worker_index_map(ctx, rec):
    """decode worker index (1.. for ILP/TetriSched, 2**i for Z3) -> instance worker index"""
    ids = [w.id for w in ctx["workers"]]
    return {k: ids.index(v) for k, v in rec["workers"].items()}


def pin_plan(kind, model, rec, wmap, plan, solve):
    """Pin the decision variables of the REAL model to `plan` ({task: None|(worker,start,strategy)},
    instance worker indices), solve with the REAL solver, restore the bounds.
    Returns 'feasible' | 'infeasible' | 'not-representable: ...'."""
    inv = {v: k for k, v in wmap.items()}
    touched = []

    allv = model.getVars() if kind != "tetri_cplex" else None

    def getv(key):
        idx = int(key.rsplit("#", 1)[1])
        return allv[idx] if kind != "tetri_cplex" else model.get_var_by_index(idx)

    def fix(v, val):
        if kind != "tetri_cplex":
            touched.append((v, v.LB, v.UB))
            v.LB = val
            v.UB = val
        else:
            touched.append((v, v.lb, v.ub))
            v.lb = val
            v.ub = val
    result = None
    for name, d in rec["decode"].items():
        if d["pinned"] or name not in plan:
            continue
        c = plan[name]
        found = c is None
        for (w, t, s, ref) in d["cells"]:
            on = (c is not None and w == inv.get(c[0]) and s == c[2]
                  and (t is None or t == c[1]))
            if isinstance(ref, str):
                fix(getv(ref), 1 if on else 0)
                found = found or on
            elif on:
                if ref == 1:
                    found = True
                else:
                    result = "not-representable: %s has no variable for cell %r" % (name, c)
        if not found and result is None:
            result = "not-representable: %s has no cell %r" % (name, c)
        if kind == "ilp" and c is not None and isinstance(d["start"], str):
            fix(getv(d["start"]), c[1])
    if result is None:
        if kind != "tetri_cplex":
            model.update()
            solve()
            result = "feasible" if model.SolCount > 0 else "infeasible"
        else:
            result = "feasible" if solve() else "infeasible"
    for v, lb, ub in touched:
        if kind != "tetri_cplex":
            v.LB = lb
            v.UB = ub
        else:
            v.lb = lb
            v.ub = ub
    if kind != "tetri_cplex":
        model.update()
        model.reset()
    return result


def pin_plan_z3(rec, wmap, plan):
    """same for the Z3 back-end: the real assertions + the plan, decided by z3 itself"""
    from z3 import z3
    inv = {v: k for k, v in wmap.items()}
    s = z3.Solver()
    s.add(rec["assertions"])
    for name, vs in rec["vars"].items():
        if name not in plan:
            continue
        c = plan[name]
        if c is None:
            s.add(z3.Not(vs["placed"]))
        else:
            s.add(vs["placed"], vs["worker"] == inv[c[0]], vs["start"] == c[1])
    return "feasible" if s.check() == z3.sat else "infeasible"


def run_real(inst, pin=None):
    """build the instance, call the REAL schedule() with the solver entry point wrapped.
    Returns dict(ctx, placements|None, error|None, records, before, after, pinned)."""
    import logging
    logging.disable(logging.CRITICAL)
    kind = inst["sched"]["kind"]
    ctx = build_instance(inst)
    sched = make_scheduler(inst)
    out = {"ctx": ctx, "placements": None, "error": None, "pinned": None}
    if inst.get("warmup"):
        # the scheduler object lives for the whole simulation: an EARLIER invocation of the same object on another small
        # world (same workers, its own tasks) precedes the judged one, so that anything the policy remembers between
        # invocations is in play (seed C14-3: a planning horizon resolved once and reused)
        w = dict(inst, now=inst["warmup"]["now"], tasks=inst["warmup"]["tasks"], edges=inst["warmup"].get("edges", []))
        w.pop("warmup")
        wctx = build_instance(w)
        try:
            with contextlib.redirect_stdout(io.StringIO()):
                sched.schedule(wctx["sim_time"], wctx["workload"], wctx["worker_pools"])
        except Exception as e:
            out["warmup_error"] = "%s: %s" % (type(e).__name__, str(e)[:200])
    out["before"] = snapshot(ctx)
    hook = None
    if pin is not None and kind != "z3":
        def hook(model, rec, solve):
            out["pinned"] = pin_plan(kind, model, rec, worker_index_map(ctx, rec), pin, solve)
    buf = io.StringIO()
    with Capture(kind, hook) as cap:
        try:
            with contextlib.redirect_stdout(buf):
                out["placements"] = sched.schedule(ctx["sim_time"], ctx["workload"],
                                                   ctx["worker_pools"])
        except Exception as e:  # a crash of schedule() is data, not a checker crash
            out["error"] = "%s: %s" % (type(e).__name__, str(e)[:300])
            out["traceback"] = traceback.format_exc()[-1500:]
    out["records"] = cap.records
    out["after"] = snapshot(ctx)
    if pin is not None and kind == "z3" and cap.records:
        out["pinned"] = pin_plan_z3(cap.records[0], worker_index_map(ctx, cap.records[0]), pin)
    return out


def decode_optimum(kind, rec, wmap):
    """apply the decode rule to the optimum the solver returned: {task: None | (w, t, s)}"""
    sol = rec.get("sol")
    plan = {}
    if kind == "z3":
        from z3 import z3
        for name, vs in rec["vars"].items():
            if sol is None or not z3.is_true(sol.eval(vs["placed"], model_completion=True)):
                plan[name] = None
            else:
                k = sol.eval(vs["worker"], model_completion=True).as_long()
                plan[name] = (wmap.get(k, -1), sol.eval(vs["start"], model_completion=True).as_long(),
                              None)
        return plan
    for name, d in rec["decode"].items():
        if d["pinned"]:
            continue
        plan[name] = None
        if sol is None:
            continue
        for (w, t, s, ref) in d["cells"]:
            if isinstance(ref, str) and round(sol[ref]) == 1:
                start = t if kind != "ilp" else int(round(sol[d["start"]]))
                plan[name] = (wmap[w], start, s)
    return plan


def ret_to_plan(ret):
    """returned decisions -> {task: None | (w, t, s)} (first decision of each task)"""
    plan = {}
    for T, ds in ret.items():
        d = ds[0]
        plan[T] = None if (d is None or d == ("cancel",)) else (d[0], d[1], d[2])
    return plan


def offered_tasks(inst, ctx):
    """what the policy is offered: the repository's own Workload.get_schedulable_tasks with the
    arguments the policy passes (an INPUT of schedule(), not the function under check)"""
    sched = make_scheduler(inst)
    ts = ctx["workload"].get_schedulable_tasks(
        time=ctx["sim_time"], lookahead=sched.lookahead, preemption=sched.preemptive,
        retract_schedules=sched.retract_schedules, worker_pools=ctx["worker_pools"],
        policy=sched.policy, branch_prediction_accuracy=sched.branch_prediction_accuracy,
        release_taskgraphs=sched.release_taskgraphs)
    return [t.unique_name for t in ts]


def run_level_violations(inst, out, offered):
    """run-level clauses of C10 / C12 on the Placements that schedule() really returned.
    Returns [(label, detail)]."""
    view = make_view(inst)
    kind = inst["sched"]["kind"]
    ctx = out["ctx"]
    bad = []
    if out["error"]:
        return [("crash." + out["error"].split(":")[0], out["error"])]
    ret = returned_plan(ctx, out["placements"])
    for T, ds in ret.items():
        tv = view["tasks"][T]
        if len(ds) > 1:
            bad.append(("run.multiple_decisions", "%s: %r" % (T, ds)))
        if T not in offered and tv["state"] != "scheduled":
            bad.append(("run.decision_for_unoffered_task", "%s (state %s)" % (T, tv["state"])))
        if tv["state"] in ("running", "completed"):
            bad.append(("run.decision_for_started_task", "%s (state %s)" % (T, tv["state"])))
        for d in ds:
            if d is None or d == ("cancel",):
                continue
            if not d[3]:
                bad.append(("run.unknown_pool_or_worker", "%s: %r" % (T, d)))
            if not d[4]:
                bad.append(("run.foreign_strategy", "%s: %r" % (T, d)))
    for T in offered:
        if view["tasks"][T]["state"] != "scheduled" and T not in ret:
            bad.append(("run.offered_task_unanswered", T))
    plan = {T: c for T, c in ret_to_plan(ret).items() if c is None or c[0] is not None}
    for clause in ("time", "capacity"):
        for lab, about in plan_violations(clause, view, plan):
            bad.append(("run." + lab, "%r in returned plan %r" % (about, plan)))
    if view["enforce_deadlines"] and kind != "z3":
        for lab, about in plan_violations("deadline", view, plan):
            bad.append(("run." + lab, "%r in returned plan %r" % (about, plan)))
        for T in offered:
            tv = view["tasks"][T]
            if tv["state"] == "scheduled":
                continue
            hopeless = tv["deadline"] < view["now"] + min(s["rt"] for s in tv["strategies"])
            if hopeless:
                ds = ret.get(T, [])
                if any(d is not None and d != ("cancel",) for d in ds):
                    bad.append(("run.deadline.hopeless_task_placed", "%s: %r" % (T, ds)))
                if kind == "tetri_cplex" and ("cancel",) not in ds:
                    bad.append(("run.deadline.hopeless_task_not_cancelled", "%s: %r" % (T, ds)))
    if out["before"] != out["after"]:
        diff = [k for k in out["before"]["tasks"]
                if out["before"]["tasks"][k] != out["after"]["tasks"][k]]
        bad.append(("run.live_state_changed", "tasks changed: %r; workers changed: %r" % (
            diff, out["before"]["workers"] != out["after"]["workers"])))
    return bad


# =====================================================================================
# Part B.  Checker-only code: translation of the captured image to z3 and the symbolic checks.
# =====================================================================================


class ZO(object):
    """symbolic evaluation of the same clause formulas"""
    @staticmethod
    def And(*a):
        from z3 import z3
        a = [x for x in a if x is not True]
        if any(x is False for x in a):
            return False
        if not a:
            return True
        return z3.And(*a) if len(a) > 1 else a[0]

    @staticmethod
    def Or(*a):
        from z3 import z3
        return z3.Or(*[_zb(x) for x in a])

    @staticmethod
    def Not(a):
        from z3 import z3
        return z3.Not(_zb(a))

    @staticmethod
    def Implies(a, b):
        from z3 import z3
        if b is True or a is False:
            return True
        if a is True:
            return b
        return z3.Implies(_zb(a), _zb(b))

    @staticmethod
    def If(c, a, b):
        from z3 import z3
        if isinstance(c, bool):
            return a if c else b
        return z3.If(c, _zi(a), _zi(b))

    @staticmethod
    def Sum(xs):
        from z3 import z3
        xs = list(xs)
        if not xs:
            return z3.IntVal(0)
        if all(isinstance(x, int) for x in xs):
            return sum(xs)
        return z3.Sum([_zi(x) for x in xs])


def _zb(x):
    from z3 import z3
    return z3.BoolVal(x) if isinstance(x, bool) else x


def _zi(x):
    from z3 import z3
    return z3.IntVal(x) if isinstance(x, int) else x


def _num(x):
    from fractions import Fraction
    from z3 import z3
    f = Fraction(float(x))
    if f.denominator == 1:
        return z3.IntVal(f.numerator)
    return z3.RealVal("%d/%d" % (f.numerator, f.denominator))


def ir_to_z3(ir):
    """mathematical meaning of the imaged MIP as z3 constraints (integrality exact, no tolerances)"""
    from z3 import z3
    V, cons, isbin = {}, [], {}
    for name, vt, lb, ub in ir["vars"]:
        vt = vt if isinstance(vt, str) else str(vt)
        v = z3.Real(name) if vt == "C" else z3.Int(name)
        V[name] = v
        isbin[name] = vt == "B"
        if vt == "B":
            lb, ub = max(lb, 0), min(ub, 1)
        if lb > -1e19:
            cons.append(v >= _num(lb))
        if ub < 1e19:
            cons.append(v <= _num(ub))

    def lin(terms):
        if not terms:
            return z3.IntVal(0)
        return z3.Sum([_num(c) * V[n] for c, n in terms])

    def rel(e, sense, rhs):
        r = _num(rhs)
        return e <= r if sense in ("<", "L") else (e >= r if sense in (">", "G") else e == r)

    for c in ir["cons"]:
        k = c[0]
        if k == "lin":
            cons.append(rel(lin(c[1]), c[2], c[3]))
        elif k == "quad":
            parts = [lin(c[1])]
            for coef, a, b in c[2]:
                if isbin[a] and isbin[b]:
                    parts.append(z3.If(z3.And(V[a] == 1, V[b] == 1), _num(coef), _num(0)))
                else:
                    parts.append(_num(coef) * V[a] * V[b])
            cons.append(rel(z3.Sum(parts), c[3], c[4]))
        elif k == "ind":
            cons.append(z3.Implies(V[c[1]] == c[2], rel(lin(c[3]), c[4], c[5])))
        elif k == "and":
            cons.append(V[c[1]] == z3.If(z3.And([V[n] == 1 for n in c[2]]), 1, 0))
        elif k == "or":
            cons.append(V[c[1]] == z3.If(z3.Or([V[n] == 1 for n in c[2]]), 1, 0))
        elif k in ("max", "min"):
            ops = [V[n] for n in c[2]]
            if abs(c[3]) < 1e19:
                ops.append(_num(c[3]))
            r = V[c[1]]
            if k == "max":
                cons.append(z3.And([r >= o for o in ops] + [z3.Or([r == o for o in ops])]))
            else:
                cons.append(z3.And([r <= o for o in ops] + [z3.Or([r == o for o in ops])]))
        elif k == "abs":
            cons.append(V[c[1]] == z3.If(V[c[2]] >= 0, V[c[2]], -V[c[2]]))
    return V, cons


def symbolic_plan(kind, rec, wmap, V=None):
    """decoded plan as z3 terms per decided task: placed + the list of cells
    (selected-literal, instance worker index, start (int or z3 term), strategy index)"""
    from z3 import z3
    P = {}
    if kind == "z3":
        for name, vs in rec["vars"].items():
            cells = [(z3.And(vs["placed"], vs["worker"] == k), wi, vs["start"], 0)
                     for k, wi in wmap.items()]
            P[name] = {"placed": vs["placed"], "cells": cells,
                       "stray": z3.And(vs["placed"], z3.Not(z3.Or([vs["worker"] == k for k in wmap])))}
        return P
    for name, d in rec["decode"].items():
        if d["pinned"]:
            continue
        cells = []
        for (w, t, s, ref) in d["cells"]:
            if isinstance(ref, str):
                lit = V[ref] == 1
            elif ref == 1:
                lit = z3.BoolVal(True)
            else:
                continue
            if kind == "ilp":
                t = V[d["start"]] if isinstance(d["start"], str) else int(d["start"])
            cells.append((lit, wmap.get(w, -1), t, s))
        P[name] = {"placed": z3.Or([c[0] for c in cells]) if cells else z3.BoolVal(False),
                   "cells": cells}
    return P


def eval_plan(model, P):
    from z3 import z3
    plan = {}
    for T, d in P.items():
        plan[T] = None
        for (lit, w, t, s) in d["cells"]:
            if z3.is_true(model.eval(lit, model_completion=True)):
                tv = t if isinstance(t, int) else model.eval(t, model_completion=True).as_long()
                plan[T] = (w, tv, s)
                break
    return plan


class Sym(object):
    """one captured model, translated; answers 'is there a feasible point with ...'"""

    def __init__(self, kind, rec, wmap):
        from z3 import z3
        self.kind, self.rec, self.wmap = kind, rec, wmap
        self.solver = z3.Solver()
        self.solver.set("timeout", 60000)
        if kind == "z3":
            self.V = None
            self.solver.add(rec["assertions"])
        else:
            self.V, cons = ir_to_z3(rec["ir"])
            self.solver.add(cons)
        self.P = symbolic_plan(kind, rec, wmap, self.V)
        self.sels = {T: [c[0] for c in d["cells"]] for T, d in self.P.items()}
        self.queries = 0

    def sat(self, *extra):
        """returns (result, plan-at-witness|None); result in sat/unsat/unknown"""
        from z3 import z3
        self.queries += 1
        self.solver.push()
        try:
            self.solver.add(*extra)
            r = self.solver.check()
            if r == z3.sat:
                return "sat", eval_plan(self.solver.model(), self.P), self.solver.model()
            return str(r), None, None
        finally:
            self.solver.pop()

    def fix_plan(self, plan):
        """constraints that fix the decision variables to a concrete plan"""
        from z3 import z3
        inv = {v: k for k, v in self.wmap.items()}
        cs = []
        if self.kind == "z3":
            for name, vs in self.rec["vars"].items():
                if name not in plan:
                    continue
                c = plan[name]
                if c is None:
                    cs.append(z3.Not(vs["placed"]))
                else:
                    cs += [vs["placed"], vs["worker"] == inv[c[0]], vs["start"] == c[1]]
            return cs
        for name, d in self.rec["decode"].items():
            if d["pinned"] or name not in plan:
                continue
            c = plan[name]
            found = c is None
            for (w, t, s, ref) in d["cells"]:
                on = (c is not None and w == inv.get(c[0]) and s == c[2]
                      and (t is None or t == c[1]))
                if isinstance(ref, str):
                    cs.append(self.V[ref] == (1 if on else 0))
                    found = found or on
                elif on and ref == 1:
                    found = True
            if not found:
                cs.append(z3.BoolVal(False))
            if self.kind == "ilp" and c is not None and isinstance(d["start"], str):
                cs.append(self.V[d["start"]] == c[1])
        return cs


def check_clause(sym, view, clause):
    """all formulas of one clause in one query: model AND NOT(all formulas).  Returns
    [] (holds for every feasible point) | [(label, about, witness_plan)] | 'unknown'"""
    from z3 import z3
    P = sym.P
    if clause == "capacity":
        tau = z3.Int("__tau")
        fs = clause_capacity(ZO, view, P, tau)
    else:
        fs = {"prec": clause_prec, "time": clause_time, "deadline": clause_deadline}[clause](ZO, view, P)
    fs = [(l, a, _zb(f)) for (l, a, f) in fs]
    if not fs:
        return []
    found = []
    remaining = list(fs)
    while remaining:
        r, plan, m = sym.sat(z3.Not(z3.And([f for _, _, f in remaining])))
        if r == "unsat":
            break
        if r != "sat":
            return "unknown"
        falsified = [(l, a, f) for (l, a, f) in remaining
                     if z3.is_false(m.eval(f, model_completion=True))]
        if not falsified:
            return "unknown"
        seen = set()
        for (l, a, f) in falsified:
            if l not in seen:
                seen.add(l)
                extra = ()
                if clause == "capacity":
                    extra = (m.eval(z3.Int("__tau"), model_completion=True).as_long(),)
                found.append((l, a + extra, plan))
        labels = set(l for l, _, _ in falsified)
        remaining = [x for x in remaining if x[0] not in labels]
    return found


CAP_LABEL = {"ilp": "capacity.interval_overflow", "tetri_gurobi": "capacity.slot_overflow",
             "tetri_cplex": "capacity.slot_overflow", "z3": "capacity.overflow"}
SCHED_FN = {"ilp": "schedulers.ilp_scheduler.ILPScheduler.schedule",
            "tetri_gurobi": "schedulers.tetrisched_gurobi_scheduler.TetriSchedGurobiScheduler.schedule",
            "tetri_cplex": "schedulers.tetrisched_cplex_scheduler.TetriSchedCPLEXScheduler.schedule",
            "z3": "schedulers.z3_scheduler.Z3Scheduler.schedule"}
DECODE_FN = {"ilp": "schedulers.ilp_scheduler.TaskOptimizerVariables.get_placements",
             "tetri_gurobi": "schedulers.tetrisched_gurobi_scheduler.TaskOptimizerVariables.get_placements",
             "tetri_cplex": "schedulers.tetrisched_cplex_scheduler.TaskOptimizerVariables.get_placements",
             "z3": "schedulers.z3_scheduler.Z3Scheduler.schedule[result extraction]"}


def vid(kind, label):
    if label.endswith("capacity.overflow"):
        label = label.replace("capacity.overflow", CAP_LABEL[kind])
    return "%s.%s" % (kind, label)


def _called(res, fn, n=1):
    res["fns"][fn] = res["fns"].get(fn, 0) + n


def confirm_point(inst, res, clause, label, about, plan):
    """ask the REAL solver whether the z3 witness is a feasible point of the real model and
    re-evaluate the clause concretely; only then it is a violation"""
    view = make_view(inst)
    kind = inst["sched"]["kind"]
    o2 = run_real(inst, pin=plan)
    _called(res, SCHED_FN[kind])
    labels = [l for l, _ in plan_violations(clause, view, plan)]
    if o2["pinned"] == "feasible" and label in labels:
        what = ("%s: feasible point of the real %s model (confirmed by the real solver with the "
                "decision variables pinned) decodes to plan %r which violates %s for %r; instance %s"
                % (vid(kind, label), kind, plan, label, about, inst["key"]))
        res["viol"].append((vid(kind, label), what,
                            make_replay("point", inst, PLAN=plan, CLAUSE=clause, LABEL=label)))
    else:
        res["undecided"].append("%s %s: z3 witness %r for %s not confirmed by the real solver (%s / %r)"
                                % (inst["key"], kind, plan, label, o2["pinned"], labels))


def check_instance(job):
    pid, inst = job
    t0 = time.time()
    res = {"key": inst["key"], "nontrivial": False, "sample": None, "viol": [], "undecided": [],
           "programs": 0, "xchecks": 0, "fns": {}, "obs": [], "plans": 0,
           "kind": inst["sched"]["kind"]}
    try:
        quiet_logging()
        # the schedulers ask the solvers for cpu_count() threads; with one checking process per
        # core that only makes the solvers' threads fight each other (no effect on the model)
        multiprocessing.cpu_count = lambda: 1
        _check(pid, inst, res)
    except Exception:
        res["undecided"].append("checker exception on %s: %s" % (inst["key"], traceback.format_exc()[-900:]))
    res["secs"] = round(time.time() - t0, 2)
    return res


def _check(pid, inst, res):
    from z3 import z3
    kind = inst["sched"]["kind"]
    view = make_view(inst)
    ctx0 = build_instance(inst)
    offered = offered_tasks(inst, ctx0)
    # the description's remaining times must be what the real Task methods produced
    for u, tv in view["tasks"].items():
        if tv["state"] in ("running", "scheduled"):
            real = ctx0["tasks"][u.split("@")[0]].remaining_time.time
            if real != tv["remaining"]:
                res["undecided"].append("%s: instance description says remaining %s for %s, real Task says %s"
                                        % (inst["key"], tv["remaining"], u, real))
                return
    out = run_real(inst)
    _called(res, SCHED_FN[kind])
    _called(res, "workload.tasks.TaskGraph.get_schedulable_tasks")
    res["sample"] = {"instance": inst["key"], "backend": kind, "offered": offered,
                     "error": out["error"]}
    if out["error"]:
        if pid == "C10":
            lab = "crash." + out["error"].split(":")[0]
            res["nontrivial"] = True
            res["viol"].append((vid(kind, lab),
                                "%s: schedule() raised %s on a reachable input (%s); traceback tail: %s"
                                % (vid(kind, lab), out["error"], inst["key"], out.get("traceback", "")[-400:]),
                                make_replay("crash", inst)))
        else:
            res["obs"].append("%s: schedule() raised %s (reported under C10)" % (inst["key"], out["error"]))
        return
    ret = returned_plan(out["ctx"], out["placements"])
    res["sample"]["returned"] = {k: [list(d) if d else d for d in v] for k, v in ret.items()}
    # ---------------- run-level clauses -------------------------------------------------
    rl = run_level_violations(inst, out, offered)
    if pid == "C10":
        mine = [(l, d) for l, d in rl if not l.startswith("run.deadline")]
    elif pid == "C12":
        mine = [(l, d) for l, d in rl if l.startswith("run.deadline")]
    else:
        mine = []
    for lab, detail in mine:
        res["viol"].append((vid(kind, lab), "%s: %s; instance %s" % (vid(kind, lab), detail, inst["key"]),
                            make_replay("run", inst, LABEL=lab)))
    if pid == "C12" and any(view["tasks"][T]["deadline"] < view["now"] + min(
            s["rt"] for s in view["tasks"][T]["strategies"]) for T in offered):
        res["nontrivial"] = True
    if not out["records"]:
        if pid == "C10" and offered:
            res["nontrivial"] = True
        return
    rec = out["records"][0]
    if kind != "z3" and rec["ir"]["unsupported"]:
        res["undecided"].append("%s %s: model has constructs the image cannot express: %r"
                                % (inst["key"], kind, rec["ir"]["unsupported"][:3]))
        return
    _called(res, {"ilp": "gurobipy.Model.optimize[captured]", "tetri_gurobi": "gurobipy.Model.optimize[captured]",
                  "tetri_cplex": "docplex.mp.model.Model.solve[captured]",
                  "z3": "z3.Optimize.check[captured]"}[kind])
    wmap = worker_index_map(out["ctx"], rec)
    sym = Sym(kind, rec, wmap)
    res["programs"] += 1
    # ---------------- decode rule: structure, unambiguity, cross-check on the optimum -----
    if kind != "z3":
        for name, d in rec["decode"].items():
            for (w, t, s, ref) in d["cells"]:
                if isinstance(ref, str) or ref == 1:
                    if s < 0 and pid == "C10":
                        res["viol"].append((vid(kind, "decode.foreign_strategy"),
                                            "%s: a placement cell of %s is keyed by a strategy that is not one of the task's"
                                            % (kind, name), None))
                    if w not in wmap and pid == "C10":
                        res["viol"].append((vid(kind, "decode.unknown_worker"),
                                            "%s: a placement cell of %s names worker index %r" % (kind, name, w), None))
        for name, lits in sym.sels.items():
            if len(lits) >= 2:
                r, _, _ = sym.sat(z3.PbGe([(l, 1) for l in lits], 2))
                if r != "unsat":
                    res["undecided"].append("%s %s: two placement cells of %s can be 1 at once (%s): decode ambiguous"
                                            % (inst["key"], kind, name, r))
                    return
    opt_plan = decode_optimum(kind, rec, wmap)
    got = ret_to_plan(ret)
    res["xchecks"] += 1
    _called(res, DECODE_FN[kind])
    mism = [T for T in opt_plan if T in got and (
        (opt_plan[T] is None) != (got[T] is None) or (opt_plan[T] is not None and (
            opt_plan[T][0] != got[T][0] or opt_plan[T][1] != got[T][1]
            or (kind != "z3" and opt_plan[T][2] != got[T][2]))))]
    mism += [T for T in opt_plan if T not in got and opt_plan[T] is not None]
    if mism:
        res["viol"].append((vid(kind, "decode.returned_differs_from_model"),
                            "%s: decode rule applied to the optimum gives %r but schedule() returned %r (tasks %r); %s"
                            % (kind, opt_plan, got, mism, inst["key"]), make_replay("xcheck", inst)))
    # ---------------- every feasible point ----------------------------------------------
    P = sym.P
    if pid == "C14":
        return check_c14(inst, res, out, rec, view, sym, ret)
    if pid == "C11":
        scoped = [T for T in P if any(par in P or view["tasks"][par]["state"] in ("running", "scheduled")
                                      for par in view["tasks"][T]["parents"])]
        if scoped:
            r, _, _ = sym.sat(z3.Or([P[T]["placed"] for T in scoped]))
            res["nontrivial"] = r == "sat"
        clauses = ["prec"]
    elif pid == "C10":
        if P:
            r, _, _ = sym.sat(z3.Or([_zb(P[T]["placed"]) for T in P]))
            res["nontrivial"] = r == "sat"
        clauses = ["time", "capacity"]
    elif pid == "C12":
        clauses = ["deadline"] if view["enforce_deadlines"] else []
        if P:
            r, _, _ = sym.sat(z3.Or([_zb(P[T]["placed"]) for T in P]))
            res["nontrivial"] = res["nontrivial"] or r == "sat"
    for clause in clauses:
        found = check_clause(sym, view, clause)
        if found == "unknown":
            res["undecided"].append("%s %s: z3 could not decide clause %s" % (inst["key"], kind, clause))
            continue
        for label, about, plan in found:
            confirm_point(inst, res, clause, label, about, plan)


def enumerate_plans(view, tasks, options, tm, limit):
    """all spec-feasible plans over `tasks` (topologically ordered), DFS with pruning (every
    constraint of the spec is monotone: a partial plan that fails cannot be completed)"""
    plans = []

    def rec(i, plan):
        if len(plans) > limit:
            return
        if i == len(tasks):
            plans.append(dict(plan))
            return
        T = tasks[i]
        for o in options[T]:
            plan[T] = o
            if o is None or spec_feasible(view, plan, tm)[0]:
                rec(i + 1, plan)
        del plan[T]
    rec(0, {})
    return plans


def c14_options(view, inst, tasks, tm):
    now = view["now"]
    opts = {}
    for T in tasks:
        tv = view["tasks"][T]
        o = [None]
        for w in range(len(view["caps"])):
            for s, st in enumerate(tv["strategies"]):
                if tm["grid"]:
                    step, hor = tm["grid"]
                    starts = range(now, now + hor + 1, step)
                else:
                    base = now + (1 if tm["after_now"] else 0)
                    lo = max(base, tv["release"] if tv["release"] is not None else base)
                    hi = (tv["deadline"] - st["rt"]) if view["enforce_deadlines"] else now + inst["horizon"]
                    starts = range(lo, hi + 1)
                for t in starts:
                    o.append((w, t, s))
        opts[T] = o
    return opts


def classify_rejection(inst, view, sym, tm, plan, model_unsat):
    """why does the planner refuse a plan that the statement allows? (diagnosis for a stable id;
    the oracle stays the strict spec).  Returns (cause, is_observation)"""
    kind = inst["sched"]["kind"]
    now = view["now"]
    if kind == "ilp" and view["enforce_deadlines"]:
        # the ILP keeps a start variable (>= max(now+1, release), >= every in-model parent's
        # start [+ runtime + 1 if that parent is placed]) for a task it does NOT place, and its
        # deadline row start + sum(x*rt) <= deadline still binds that 'ghost' start
        ghost = {}
        for T in plan:                                   # description order is topological
            tv = view["tasks"][T]
            own = max(now + 1, tv["release"] if tv["release"] is not None else now + 1)
            e = own
            for par in tv["parents"]:
                pv = view["tasks"][par]
                if par in plan:
                    e = max(e, ghost[par] if plan[par] is None else
                            plan[par][1] + pv["strategies"][plan[par][2]]["rt"] + 1)
                elif pv["state"] == "running":
                    e = max(e, now + pv["strategies"][pv["placed"]["strategy"]]["rt"] + 1)
            ghost[T] = e if plan[T] is None else plan[T][1]
            if plan[T] is None and e > tv["deadline"]:
                if own > tv["deadline"]:
                    return "past_deadline_task_makes_model_infeasible", False
                return "overtight.deadline_row_binds_unplaced_task", False
    if model_unsat:
        return "overtight.model_infeasible", False
    running_short = any(tv["state"] == "running" and tv["remaining"] <
                        tv["strategies"][tv["placed"]["strategy"]]["rt"]
                        for tv in view["tasks"].values())
    if running_short and not spec_feasible(view, plan, dict(tm, running_full=True))[0]:
        return "overtight.running_task_charged_full_runtime", False
    if kind == "ilp" and not spec_feasible(view, plan, dict(tm, pairwise=True, running_full=True))[0]:
        return "overtight.pairwise_overlap_sum", False
    if kind == "tetri_gurobi" and not spec_feasible(view, plan, dict(tm, prec_guard=1, running_full=True))[0]:
        return "prec_plus_one_guard_band", True
    return "overtight.plan_rejected", False


def check_c14(inst, res, out, rec, view, sym, ret):
    kind = inst["sched"]["kind"]
    tm = time_model(inst)
    P = sym.P
    order = [u for u in view["tasks"] if u in P]           # description order is topological
    if any(view["tasks"][T]["state"] == "scheduled" for T in order):
        res["undecided"].append("%s: C14 instances must not re-decide scheduled tasks" % inst["key"])
        return
    options = c14_options(view, inst, order, tm)
    limit = inst.get("plan_limit", 30000)
    plans = enumerate_plans(view, order, options, tm, limit)
    if len(plans) > limit:
        res["undecided"].append("%s: more than %d feasible plans; instance too large to enumerate" % (inst["key"], limit))
        return
    res["plans"] = len(plans)
    res["nontrivial"] = len(plans) > 1
    res["sample"]["feasible_plans"] = len(plans)
    got = {T: c for T, c in ret_to_plan(ret).items() if T in P}
    for T in order:
        got.setdefault(T, None)
    r0, _, _ = sym.sat()
    model_unsat = r0 == "unsat"
    seen_cause = set()

    def report(clause_id, cause, is_obs, what, replay):
        if is_obs:
            res["obs"].append("%s: %s (%s)" % (inst["key"], cause, what[:200]))
            return
        if cause.startswith("past_deadline"):
            i = vid(kind, cause)
        elif clause_id == "overtight":
            i = vid(kind, cause)
        else:
            i = vid(kind, "%s.%s" % (clause_id, cause.replace("overtight.", "")))
        if i in seen_cause:
            return
        seen_cause.add(i)
        res["viol"].append((i, "%s: %s; instance %s" % (i, what, inst["key"]), replay))

    # the returned plan must itself be allowed by the statement (otherwise C10-C12 are broken)
    ok, why = spec_feasible(view, got, tm)
    if not ok:
        res["obs"].append("%s: returned plan %r is not spec-feasible (%s) - see C10/C11/C12" % (inst["key"], got, why))
    # (i) ILP: goodput of the returned plan == brute-force maximum
    if kind == "ilp":
        g_ret = goodput(view, order, got)
        best = max(plans, key=lambda p: goodput(view, order, p))
        g_max = goodput(view, order, best)
        res["sample"]["goodput"] = [g_ret, g_max]
        if g_ret < g_max:
            bests = [p for p in plans if goodput(view, order, p) == g_max]
            accepted = None
            for p in bests[:50]:
                if sym.sat(*sym.fix_plan(p))[0] == "sat":
                    accepted = p
                    break
            if accepted is not None:
                cause, is_obs, best = "suboptimal_solver_answer", False, accepted
            else:
                cause, is_obs = classify_rejection(inst, view, sym, tm, best, model_unsat)
            report("goodput", cause, is_obs,
                   "returned plan %r completes %d task graph(s) by their deadlines, the feasible plan %r completes %d"
                   % (got, g_ret, best, g_max), make_replay("goodput", inst, BETTER=best, TM=tm))
    # (ii) TetriSched: the returned plan is maximal
    else:
        for T in order:
            if got[T] is not None:
                continue
            for o in options[T][1:]:
                p2 = dict(got)
                p2[T] = o
                if spec_feasible(view, p2, tm)[0]:
                    if sym.sat(*sym.fix_plan(p2))[0] == "sat":
                        # the model accepts the extension: the objective did not ask for it
                        has_child = any(T in tv["parents"] for tv in view["tasks"].values())
                        rtg = inst["sched"].get("kwargs", {}).get("release_taskgraphs", False)
                        cause, is_obs = (("unrewarded_nonsink_task_left_unplaced", False)
                                         if (rtg and has_child) else ("suboptimal_solver_answer", False))
                    else:
                        cause, is_obs = classify_rejection(inst, view, sym, tm, p2, model_unsat)
                    report("maximality", cause, is_obs,
                           "returned plan %r leaves %s unplaced although it can be added at (worker,slot,strategy)=%r "
                           "without breaking capacity/release/precedence/deadline" % (got, T, o),
                           make_replay("maximal", inst, TASK=T, OPT=o, TM=tm))
                    break
    # (iv) an offered, released task that schedule() kept out of the model (dropped / cancelled before the model was
    # built) although it can still be added to the returned plan: goodput left on the table before optimisation starts
    try:
        offered_now = offered_tasks(inst, build_instance(inst))
    except Exception:  # the frontier is an input here, not the function under check
        offered_now = []
    for T in offered_now:
        if T in P or T not in view["tasks"] or view["tasks"][T]["state"] != "released":
            continue
        if ret_to_plan(ret).get(T) is not None:
            continue
        for o in c14_options(view, inst, [T], tm)[T][1:]:
            p2 = dict(got)
            p2[T] = o
            if spec_feasible(view, p2, tm)[0]:
                report("maximality", "offered_task_dropped_before_model", False,
                       "returned plan %r omits the offered task %s, which schedule() kept out of its model, although it can be "
                       "added at (worker,start,strategy)=%r without breaking capacity/release/precedence/deadline" % (got, T, o),
                       make_replay("dropped", inst, TASK=T, OPT=o, TM=tm))
                break
    # (iii) no over-tight row: every spec-feasible plan is a feasible point of the captured model
    cap = inst.get("check_limit", 400)
    todo = plans if len(plans) <= cap else (
        sorted(plans, key=lambda p: -sum(1 for c in p.values() if c is not None))[:cap // 2]
        + random.Random(inst.get("seed", 0)).sample(plans, cap // 2))
    if len(plans) > cap:
        res["partial_iii"] = True
    rejected = {}
    for p in todo:
        r, _, _ = sym.sat(*sym.fix_plan(p))
        res["z3_plan_checks"] = res.get("z3_plan_checks", 0) + 1
        if r == "unsat":
            cause, is_obs = classify_rejection(inst, view, sym, tm, p, model_unsat)
            if cause not in rejected or (sum(1 for c in p.values() if c) <
                                         sum(1 for c in rejected[cause][0].values() if c)):
                rejected[cause] = (p, is_obs)
        elif r != "sat":
            res["undecided"].append("%s: z3 %s on plan %r" % (inst["key"], r, p))
            break
        if model_unsat:
            break
    for cause, (p, is_obs) in rejected.items():
        if is_obs:
            res["obs"].append("%s: %s: plan %r allowed by the statement is refused by the model" % (inst["key"], cause, p))
            continue
        o2 = run_real(inst, pin=p)
        _called(res, SCHED_FN[kind])
        if o2["pinned"] == "feasible":
            res["undecided"].append("%s: z3 says the model refuses plan %r, the real solver accepts it" % (inst["key"], p))
            continue
        report("overtight", cause, False,
               "plan %r is allowed by the statement (capacity at every instant, release, precedence, deadline in the "
               "planner's own decision space) but is NOT a feasible point of the real model (real solver with the "
               "decision variables pinned: %s)" % (p, o2["pinned"]), make_replay("reject", inst, PLAN=p, TM=tm))
    # observation only: what the ILP's documented +1us guard band / start > now costs
    if kind == "ilp" and len(plans) <= 3000 and not model_unsat:
        relaxed = dict(tm, closed=False, after_now=False, prec_guard=0)
        plans2 = enumerate_plans(view, order, c14_options(view, inst, order, relaxed), relaxed, 20000)
        if plans2 and len(plans2) <= 20000:
            g2 = max(goodput(view, order, p) for p in plans2)
            g1 = max(goodput(view, order, p) for p in plans)
            if g2 > g1:
                res["obs"].append("%s: ilp guard band (closed intervals, start >= now+1) lowers the best goodput "
                                  "from %d (half-open reading) to %d - documented decision space, not a violation"
                                  % (inst["key"], g2, g1))


# =====================================================================================
# Part C.  Replay scripts: Part A copied verbatim + the concrete instance + a short body.
# =====================================================================================

REPLAY_HEADER = '''import contextlib
import io
import random
import sys
import traceback

'''

REPLAY_BODY = {
    "point": '''
view = make_view(INST)
out = run_real(INST, pin=PLAN)
bad = plan_violations(CLAUSE, view, PLAN)
print("instance", INST["key"], "back-end", INST["sched"]["kind"], INST["sched"].get("kwargs"))
print("plan {task: (worker, start, strategy)} pinned on the decision variables of the REAL model:", PLAN)
print("real solver, real model, decision variables pinned:", out["pinned"], "| schedule() error:", out["error"])
print("contract clause %r must hold at every feasible point; formulas false at this point: %r" % (CLAUSE, bad))
sys.exit(1 if out["pinned"] == "feasible" and any(l == LABEL for l, _ in bad) else 0)
''',
    "run": '''
offered = offered_tasks(INST, build_instance(INST))
out = run_real(INST)
bad = run_level_violations(INST, out, offered)
print("instance", INST["key"], "back-end", INST["sched"]["kind"], INST["sched"].get("kwargs"))
print("offered:", offered)
print("returned decisions {task: [(worker, start, strategy, pool_ok, strategy_ok) | None | ('cancel',)]}:",
      None if out["error"] else returned_plan(out["ctx"], out["placements"]))
print("run-level contract violations seen:", bad)
sys.exit(1 if any(l == LABEL for l, _ in bad) else 0)
''',
    "crash": '''
out = run_real(INST)
print("instance", INST["key"], "back-end", INST["sched"]["kind"], INST["sched"].get("kwargs"))
print("contract: schedule() returns normally on every reachable input; saw:", out["error"])
print(out.get("traceback", ""))
sys.exit(1 if out["error"] else 0)
''',
    "reject": '''
view = make_view(INST)
ok, why = spec_feasible(view, PLAN, TM)
out = run_real(INST, pin=PLAN)
print("instance", INST["key"], "back-end", INST["sched"]["kind"], INST["sched"].get("kwargs"))
print("plan {task: (worker, start, strategy)}:", PLAN)
print("independent feasibility (capacity at every instant, release, precedence, deadline; time model %r): %s %s" % (TM, ok, why))
print("real solver on the real model with the decision variables pinned to that plan:", out["pinned"])
print("contract: every plan the statement allows is a feasible point of the planner's model")
sys.exit(1 if ok and out["pinned"] is not None and out["pinned"] != "feasible" else 0)
''',
    "goodput": '''
view = make_view(INST)
out = run_real(INST)
rec = out["records"][0]
offered = [T for T, d in rec["decode"].items() if not d["pinned"]]
got = ret_to_plan(returned_plan(out["ctx"], out["placements"]))
got = {T: got.get(T) for T in offered}
ok, why = spec_feasible(view, BETTER, TM)
print("instance", INST["key"], "back-end", INST["sched"]["kind"], INST["sched"].get("kwargs"))
print("returned plan:", got, "-> task graphs finishing by their deadline:", goodput(view, offered, got))
print("feasible plan :", BETTER, "-> ", goodput(view, offered, BETTER), "(independently feasible: %s %s)" % (ok, why))
print("contract: the returned plan completes as many task graphs as any feasible plan")
sys.exit(1 if ok and goodput(view, offered, BETTER) > goodput(view, offered, got) else 0)
''',
    "maximal": '''
view = make_view(INST)
out = run_real(INST)
rec = out["records"][0]
offered = [T for T, d in rec["decode"].items() if not d["pinned"]]
got = ret_to_plan(returned_plan(out["ctx"], out["placements"]))
got = {T: got.get(T) for T in offered}
p2 = dict(got)
p2[TASK] = OPT
ok, why = spec_feasible(view, p2, TM)
print("instance", INST["key"], "back-end", INST["sched"]["kind"], INST["sched"].get("kwargs"))
print("returned plan:", got)
print("adding %s at (worker, slot, strategy) = %r is independently feasible: %s %s" % (TASK, OPT, ok, why))
print("contract: no offered unplaced task can be added at any allowed slot/worker/strategy")
sys.exit(1 if got.get(TASK) is None and ok else 0)
''',
    "dropped": '''
view = make_view(INST)
out = run_real(INST)
got = {T: c for T, c in ret_to_plan(returned_plan(out["ctx"], out["placements"])).items() if c is not None}
p2 = dict(got)
p2[TASK] = OPT
ok, why = spec_feasible(view, p2, TM)
print("instance", INST["key"], "back-end", INST["sched"]["kind"], INST["sched"].get("kwargs"))
print("returned placements:", got)
print("adding the offered task %s at (worker, start, strategy) = %r is independently feasible: %s %s" % (TASK, OPT, ok, why))
print("contract: no offered task that can still be added is left out of the plan")
sys.exit(1 if got.get(TASK) is None and ok else 0)
''',
    "xcheck": '''
out = run_real(INST)
rec = out["records"][0]
kind = INST["sched"]["kind"]
opt = decode_optimum(kind, rec, worker_index_map(out["ctx"], rec))
got = ret_to_plan(returned_plan(out["ctx"], out["placements"]))
print("decode rule on the solver's optimum:", opt)
print("schedule() returned               :", got)
diff = [T for T in opt if T in got and (opt[T] is None) != (got[T] is None)]
diff += [T for T in opt if T in got and opt[T] and got[T] and (opt[T][0], opt[T][1]) != (got[T][0], got[T][1])]
sys.exit(1 if diff else 0)
''',
}


def make_replay(body, inst, **consts):
    funcs = [build_instance, make_scheduler, _vk, _lin_terms, gurobi_ir, docplex_ir, decode_map, Capture,
             uname, make_view, CO, _srt, clause_prec, clause_time, clause_deadline,
             clause_capacity, concrete_P, plan_violations, spec_feasible, time_model, goodput,
             snapshot, returned_plan, worker_index_map, pin_plan, pin_plan_z3, run_real,
             decode_optimum, ret_to_plan, offered_tasks, run_level_violations]
    parts = [REPLAY_HEADER]
    parts += [inspect.getsource(f) + "\n\n" for f in funcs]
    parts.append("INST = %r\n" % (inst,))
    for k, v in consts.items():
        parts.append("%s = %r\n" % (k, v))
    parts.append(REPLAY_BODY[body])
    return "".join(parts)


# =====================================================================================
# Part D.  Instance enumeration.
# =====================================================================================

CPU1 = {"CPU": 1}


def T(name, graph, deadline, release, strategies, state="released", placed=None):
    return {"name": name, "graph": graph, "deadline": deadline, "release": release,
            "strategies": [{"rt": rt, "res": dict(res)} for rt, res in strategies],
            "state": state, "placed": placed}


def I(key, now, workers, tasks, edges, kind, kw, pools=None, **extra):
    ws = [{"name": "W%d" % (i + 1), "res": dict(r)} for i, r in enumerate(workers)]
    d = {"key": "%s/%s%s" % (key, kind, "".join("/%s=%s" % (k[:7], v) for k, v in sorted(kw.items())
                                                 if k not in ("enforce_deadlines", "plan_ahead"))),
         "now": now, "workers": ws, "pools": pools or [list(range(len(ws)))], "tasks": tasks,
         "edges": edges, "seed": 7, "sched": {"kind": kind, "kwargs": dict(kw)}}
    d.update(extra)
    return d


def single(tasks):
    """Z3 reports no strategy: give every task only its first strategy"""
    out = []
    for t in tasks:
        t = dict(t)
        if t.get("placed"):
            k = t["placed"]["strategy"]
            t["strategies"] = [t["strategies"][k]]
            t["placed"] = dict(t["placed"], strategy=0)
        else:
            t["strategies"] = t["strategies"][:1]
        out.append(t)
    return out


SHAPES = [
    ("chain2", ["A", "B"], [("A", "B")]),
    ("chain3", ["A", "B", "C"], [("A", "B"), ("B", "C")]),
    ("fork", ["A", "B", "C"], [("A", "B"), ("A", "C")]),
    ("join", ["A", "B", "C"], [("A", "C"), ("B", "C")]),
    ("diamond", ["A", "B", "C", "D"], [("A", "B"), ("A", "C"), ("B", "D"), ("C", "D")]),
    ("indep", ["A", "B", "C"], [("A", "B")]),          # C is its own graph
    ("chain4", ["A", "B", "C", "D"], [("A", "B"), ("B", "C"), ("C", "D")]),
]


def gen_c11(tier, seed):
    rng = random.Random(seed)
    out = []
    nvar = 1 if tier == "quick" else 7
    for vi in range(nvar):
        now = 5 if vi == 0 else rng.randint(2, 9)
        for si, (shape, nodes, edges) in enumerate(SHAPES):
            if tier == "quick" and shape == "chain4":
                continue
            mixes = ["new", "running", "scheduled"]
            if shape in ("chain2", "chain3") or (tier != "quick" and shape == "chain4"):
                # a child that an earlier invocation already SCHEDULED (and that is decided again, retract_schedules off)
                # below a RUNNING / SCHEDULED parent (seed C11-3)
                mixes.append("run+sched")
                mixes.append("sched+sched")
            if tier != "quick" and shape == "join":
                mixes.append("both-running")
            if shape in ("chain2", "fork", "diamond"):
                # a parent with two strategies of the SAME runtime on different resource types (seed C11-8: ordering rows
                # emitted once per distinct parent runtime)
                mixes.append("twin")
            for mix in mixes:
                rt = {n: (3 if vi == 0 else rng.randint(1, 4)) for n in nodes}
                alt = 5 if vi == 0 else rt["A"] + rng.randint(1, 3)
                workers = [{"CPU": 2}] if (si + vi) % 2 == 0 else [{"CPU": 1}, {"CPU": 1}]
                if mix == "twin":
                    workers = [{"CPU": 2, "GPU": 1}] if (si + vi) % 2 == 0 else [{"CPU": 1, "GPU": 1}, {"CPU": 1}]
                dl = now + 40
                tasks = []
                for n in nodes:
                    g = "G2" if (shape == "indep" and n == "C") else "G1"
                    is_src = not any(c == n for _, c in edges)
                    strat = [(rt[n], CPU1)]
                    if n == "A" and mix in ("new", "scheduled"):
                        # (a SCHEDULED parent with a second, slower strategy: an earlier invocation chose the fast one, this
                        # invocation may re-plan it with the slow one - seed C11-5)
                        strat = [(rt[n], CPU1), (alt, CPU1)]
                    if n == "A" and mix == "twin":
                        strat = [(rt[n], CPU1), (rt[n], {"GPU": 1})]
                    if n == "A" and mix in ("running", "run+sched", "both-running"):
                        full = rt[n] + 3
                        tasks.append(T(n, g, dl, 0, [(full, CPU1)], "running",
                                       {"worker": 0, "strategy": 0, "start": now - 2}))
                        rt[n] = full
                    elif n == "A" and mix in ("scheduled", "sched+sched"):
                        tasks.append(T(n, g, dl, 0, strat, "scheduled",
                                       {"worker": 0, "strategy": 0, "start": now + 2}))
                    elif n == "B" and mix in ("run+sched", "sched+sched"):
                        tasks.append(T(n, g, dl, 0, strat, "scheduled",
                                       {"worker": len(workers) - 1, "strategy": 0,
                                        "start": now + rt["A"] + (1 if mix == "run+sched" else 4)}))
                    elif n == "B" and mix == "both-running":
                        tasks.append(T(n, g, dl, 0, [(rt[n] + 2, CPU1)], "running",
                                       {"worker": len(workers) - 1, "strategy": 0, "start": now - 1}))
                    elif is_src:
                        tasks.append(T(n, g, dl, 0, strat))
                    else:
                        tasks.append(T(n, g, dl, None, strat, "virtual"))
                key = "c11/v%d/%s/%s/w%d" % (vi, shape, mix, len(workers))
                hor = 16 if shape != "chain4" else 20
                opts = [("ilp", {"enforce_deadlines": True, "release_taskgraphs": True, "lookahead": 30}),
                        ("tetri_gurobi", {"enforce_deadlines": True, "release_taskgraphs": True,
                                          "lookahead": 30, "plan_ahead": hor}),
                        ("z3", {"release_taskgraphs": True, "lookahead": 30})]
                if mix in ("scheduled", "run+sched", "sched+sched"):
                    # TetriSched-Gurobi retracts by default: also the non-retracting mode, where a SCHEDULED task stays a
                    # decision variable of the model (seed C11-5)
                    opts.append(("tetri_gurobi", {"enforce_deadlines": True, "release_taskgraphs": True, "lookahead": 30, "plan_ahead": hor, "retract_schedules": False}))
                if tier != "quick" and vi < 3:
                    opts += [("ilp", {"enforce_deadlines": False, "goal": "max_slack", "lookahead": 30}),
                             ("ilp", {"enforce_deadlines": True, "release_taskgraphs": True,
                                      "lookahead": 30, "retract_schedules": True}),
                             ("tetri_gurobi", {"enforce_deadlines": True, "release_taskgraphs": True,
                                               "lookahead": 30, "plan_ahead": hor,
                                               "retract_schedules": False}),
                             ("tetri_gurobi", {"enforce_deadlines": False, "lookahead": 30,
                                               "plan_ahead": hor, "time_discretization": 2}),
                             ("z3", {"lookahead": 30, "enforce_deadlines": True})]
                for kind, kw in opts:
                    ts = single(tasks) if kind == "z3" else tasks
                    out.append(I(key, now, workers, ts, edges, kind, kw))
    return out


def gen_c10(tier, seed):
    rng = random.Random(seed)
    out = []
    nvar = 1 if tier == "quick" else 8
    G = {"GPU": 1}
    for vi in range(nvar):
        now = 6 if vi == 0 else rng.randint(3, 9)

        def r(a, b, d):
            return d if vi == 0 else rng.randint(a, b)
        dl = now + 30
        fams = []
        fams.append(("contend", [{"CPU": 1}], [T("X", "G1", dl, 0, [(r(1, 4, 3), CPU1)]),
                                              T("Y", "G2", dl, 0, [(r(1, 4, 2), CPU1)])], [], {}))
        fams.append(("hetero", [{"CPU": 2}, {"CPU": 1, "GPU": 1}],
                     [T("X", "G1", dl, 0, [(r(2, 5, 4), CPU1), (r(1, 3, 2), G)]),
                      T("Y", "G2", dl, 0, [(r(2, 4, 3), {"CPU": 2})]),
                      T("Z", "G3", dl, 0, [(r(1, 3, 2), {"CPU": 1, "GPU": 1})])], [], {}))
        # every task has two strategies that use DIFFERENT resource types, deadlines force the tasks to overlap
        fams.append(("multires", [{"CPU": 1, "GPU": 1}],
                     [T("X", "G1", now + 6, 0, [(3, CPU1), (3, G)]),
                      T("Y", "G2", now + 6, 0, [(3, CPU1), (3, G)]),
                      T("Z", "G3", now + 6, 0, [(3, CPU1), (3, G)])], [], {}))
        fams.append(("running", [{"CPU": 2}],
                     [T("R", "G0", dl, 0, [(5, CPU1)], "running", {"worker": 0, "strategy": 0, "start": now - 2}),
                      T("X", "G1", dl, 0, [(r(1, 3, 2), {"CPU": 2})]),
                      T("Y", "G2", dl, 0, [(r(2, 5, 4), CPU1)])], [], {}))
        fams.append(("partial", [{"CPU": 3}],
                     [T("R", "G0", dl, 0, [(6, CPU1)], "running", {"worker": 0, "strategy": 0, "start": now - 2}),
                      T("X", "G1", dl, 0, [(r(1, 3, 2), CPU1)]),
                      T("Y", "G2", dl, 0, [(r(2, 5, 3), CPU1)])], [], {}))
        fams.append(("scheduled", [{"CPU": 1}],
                     [T("S", "G0", dl, 0, [(3, CPU1)], "scheduled", {"worker": 0, "strategy": 0, "start": now + 3}),
                      T("X", "G1", dl, 0, [(r(1, 3, 2), CPU1)]),
                      T("Y", "G2", dl, 0, [(r(2, 5, 4), CPU1)])], [], {}))
        fams.append(("run+sched", [{"CPU": 1}, {"CPU": 1}],
                     [T("R", "G0", dl, 0, [(6, CPU1)], "running", {"worker": 0, "strategy": 0, "start": now - 3}),
                      T("S", "G9", dl, 0, [(4, CPU1)], "scheduled", {"worker": 1, "strategy": 0, "start": now + 2}),
                      T("X", "G1", dl, 0, [(r(1, 3, 2), CPU1)]),
                      T("Y", "G2", dl, 0, [(r(2, 4, 3), CPU1)]),
                      T("Z", "G3", dl, 0, [(r(1, 3, 2), CPU1)])], [], {}))
        # a not-yet-released child whose intended release is known and later than its parent's end
        fams.append(("future", [{"CPU": 2}],
                     [T("A", "G1", dl, 0, [(r(1, 3, 2), CPU1)]),
                      T("B", "G1", dl, now + 7, [(r(1, 3, 2), CPU1)], "virtual"),
                      T("Y", "G2", dl, 0, [(r(2, 5, 3), CPU1)])], [("A", "B")], {"lookahead": 12}))
        fams.append(("chain", [{"CPU": 1}],
                     [T("A", "G1", dl, 0, [(r(1, 4, 3), CPU1)]),
                      T("B", "G1", dl, None, [(r(1, 3, 2), CPU1)], "virtual")], [("A", "B")],
                     {"release_taskgraphs": True}))
        fams.append(("unfit", [{"CPU": 1}],
                     [T("X", "G1", dl, 0, [(2, G)]), T("Y", "G2", dl, 0, [(3, CPU1)])], [], {}))
        fams.append(("twopools", [{"CPU": 1}, {"CPU": 2}],
                     [T("X", "G1", dl, 0, [(r(1, 4, 3), {"CPU": 2}), (r(3, 6, 5), CPU1)]),
                      T("Y", "G2", dl, 0, [(r(1, 3, 2), CPU1)]),
                      T("Z", "G3", dl, 0, [(r(1, 3, 2), CPU1)])], [], {"_pools": [[0], [1]]}))
        if tier != "quick":
            fams.append(("zero", [{"CPU": 1, "GPU": 1}],
                         [T("X", "G1", dl, 0, [(2, {"CPU": 1, "GPU": 0})]),
                          T("Y", "G2", dl, 0, [(3, {"CPU": 0, "GPU": 1})]),
                          T("Z", "G3", dl, 0, [(2, CPU1)])], [], {}))
            fams.append(("touch", [{"CPU": 1}],
                         [T("R", "G0", dl, 0, [(4, CPU1)], "running", {"worker": 0, "strategy": 0, "start": now - 1}),
                          T("X", "G1", now + 3 + 2, 0, [(2, CPU1)])], [], {}))
        for name, workers, tasks, edges, extra in fams:
            extra = dict(extra)
            pools = extra.pop("_pools", None)
            kinds = [("ilp", {"enforce_deadlines": True}),
                     ("tetri_gurobi", {"enforce_deadlines": True, "plan_ahead": 14}),
                     ("tetri_cplex", {"enforce_deadlines": True, "plan_ahead": 14}),
                     ("z3", {})]
            if name in ("scheduled", "run+sched") and (tier != "quick" or name == "scheduled"):
                kinds += [("ilp", {"enforce_deadlines": True, "retract_schedules": True}),
                          ("tetri_gurobi", {"enforce_deadlines": True, "plan_ahead": 14,
                                            "retract_schedules": False}),
                          ("z3", {"retract_schedules": True})]
            if tier != "quick" and vi < 3:
                kinds += [("tetri_gurobi", {"enforce_deadlines": False, "plan_ahead": 12, "time_discretization": 2}),
                          ("tetri_cplex", {"enforce_deadlines": False, "plan_ahead": 12, "time_discretization": 3}),
                          ("ilp", {"enforce_deadlines": False, "goal": "max_slack"})]
            for kind, kw in kinds:
                kw = dict(kw, **extra)
                if kind == "tetri_cplex":
                    kw.pop("release_taskgraphs", None)
                ts = single(tasks) if kind == "z3" else tasks
                out.append(I("c10/v%d/%s" % (vi, name), now, workers, ts, edges, kind, kw, pools=pools))
    return out


def gen_c12(tier, seed):
    rng = random.Random(seed)
    out = []
    nvar = 1 if tier == "quick" else 8
    for vi in range(nvar):
        now = 10 if vi == 0 else rng.randint(4, 12)
        r = 3 if vi == 0 else rng.randint(2, 5)
        loose = now + 30
        fams = []
        for tag, dl in [("past", now - 5), ("now", now), ("now+1", now + 1), ("r-1", now + r - 1),
                        ("r", now + r), ("r+1", now + r + 1), ("r+2", now + r + 2), ("loose", loose)]:
            if tier == "quick" and tag in ("now+1", "r+2"):
                continue
            fams.append(("one/%s" % tag, [{"CPU": 1}], [T("X", "G1", dl, 0, [(r, CPU1)])]))
            if tag in ("past", "r-1", "r", "r+1") or tier != "quick":
                fams.append(("pair/%s" % tag, [{"CPU": 2}],
                             [T("X", "G1", dl, 0, [(r, CPU1)]), T("Y", "G2", loose, 0, [(2, CPU1)])]))
        fams.append(("twostrat/fastfits", [{"CPU": 2}],
                     [T("X", "G1", now + r + 1, 0, [(r + 3, CPU1), (r, {"CPU": 2})])]))
        fams.append(("twostrat/fastunfit", [{"CPU": 1}],
                     [T("X", "G1", now + r + 1, 0, [(r + 3, CPU1), (r, {"CPU": 2})])]))
        fams.append(("contend", [{"CPU": 1}],
                     [T("X", "G1", now + r + 1, 0, [(r, CPU1)]), T("Y", "G2", now + r + 1, 0, [(r, CPU1)])]))
        fams.append(("blocked", [{"CPU": 1}],
                     [T("R", "G0", loose, 0, [(4, CPU1)], "running", {"worker": 0, "strategy": 0, "start": now - 2}),
                      T("X", "G1", now + r + 1, 0, [(r, CPU1)])]))
        fams.append(("otherworker", [{"CPU": 1}, {"CPU": 1}],
                     [T("R", "G0", loose, 0, [(6, CPU1)], "running", {"worker": 0, "strategy": 0, "start": now - 1}),
                      T("X", "G1", now + r + 1, 0, [(r, CPU1)]), T("Y", "G2", now + r + 2, 0, [(r, CPU1)])]))
        # a task that an earlier invocation SCHEDULED behind a running one is decided again (retract_schedules off) while a
        # new task contends for the same slot (seed C12-3): its deadline must still bind
        fams.append(("replan/scheduled", [{"CPU": 1}],
                     [T("R", "G0", loose, 0, [(4, CPU1)], "running", {"worker": 0, "strategy": 0, "start": now - 2}),
                      T("S", "G1", now + 3 + r + 1, 0, [(r, CPU1)], "scheduled", {"worker": 0, "strategy": 0, "start": now + 3, "decided_at": now - 2}),
                      T("N", "G2", loose, now, [(r, CPU1)])]))
        if tier != "quick":
            fams.append(("released-late", [{"CPU": 1}],
                         [T("X", "G1", now + r + 1, now - 1, [(r, CPU1)]),
                          T("Y", "G2", now + 2 * r + 1, now, [(r, CPU1)])]))
        # a non-source task offered on its own after its (only) parent has completed: the task graph is then offered
        # without its source task, which is the situation in which the ILP keeps per-graph "may miss" bookkeeping
        for tag, dl in [("r-1", now + r - 1), ("r", now + r), ("r+1", now + r + 1), ("r+2", now + r + 2)]:
            if tier == "quick" and tag == "r+2":
                continue
            fams.append(("child-after-parent/%s" % tag, [{"CPU": 1}],
                         [T("P", "G1", loose, 0, [(2, CPU1)], "completed", {"worker": 0, "strategy": 0, "start": max(0, now - 3)}),
                          T("X", "G1", dl, now, [(r, CPU1)])], [("P", "X")]))
        for fam in fams:
            name, workers, tasks = fam[:3]
            edges = fam[3] if len(fam) > 3 else []
            for kind, kw in [("ilp", {"enforce_deadlines": True}),
                             ("tetri_gurobi", {"enforce_deadlines": True, "plan_ahead": 12}),
                             ("tetri_cplex", {"enforce_deadlines": True, "plan_ahead": 12})]:
                if edges and kind == "tetri_cplex":
                    continue        # the CPLEX formulation has no DAG support
                out.append(I("c12/v%d/%s" % (vi, name), now, workers, tasks, edges, kind, kw))
            if edges:
                continue
            if tier != "quick" and vi < 4:
                out.append(I("c12/v%d/%s" % (vi, name), now, workers, tasks, [], "tetri_gurobi",
                             {"enforce_deadlines": True, "plan_ahead": 12, "time_discretization": 2}))
                out.append(I("c12/v%d/%s" % (vi, name), now, workers, tasks, [], "tetri_cplex",
                             {"enforce_deadlines": True, "plan_ahead": 12, "time_discretization": 3}))
    return out


def gen_c14(tier, seed):
    rng = random.Random(seed)
    out = []
    nvar = 1 if tier == "quick" else 9
    for vi in range(nvar):
        now = 10 if vi == 0 else rng.randint(0, 12)

        def r(a, b, d):
            return d if vi == 0 else rng.randint(a, b)
        fams = []
        a, b, c = r(2, 4, 3), r(2, 4, 2), r(2, 4, 4)
        fams.append(("indep2/cap1", [{"CPU": 1}],
                     [T("X", "G1", now + a + b + 1, 0, [(a, CPU1)]), T("Y", "G2", now + b + 1, 0, [(b, CPU1)])], [], {}))
        fams.append(("indep3/cap1", [{"CPU": 1}],
                     [T("X", "G1", now + 7, 0, [(a, CPU1)]), T("Y", "G2", now + 6, 0, [(b, CPU1)]),
                      T("Z", "G3", now + 8, 0, [(c, CPU1)])], [], {}))
        fams.append(("pairwise/cap2", [{"CPU": 2}],
                     [T("X", "G1", now + 9, 0, [(8, CPU1)]), T("Y", "G2", now + 9, 0, [(3, CPU1)]),
                      T("Z", "G3", now + 9, 0, [(3, CPU1)])], [], {}))
        fams.append(("hetero2w", [{"CPU": 1}, {"CPU": 1, "GPU": 1}],
                     [T("X", "G1", now + 6, 0, [(4, CPU1), (2, {"GPU": 1})]),
                      T("Y", "G2", now + 5, 0, [(b + 1, CPU1)]),
                      T("Z", "G3", now + 6, 0, [(a, CPU1)])], [], {}))
        fams.append(("chain+1", [{"CPU": 1}],
                     [T("A", "G1", now + 9, 0, [(a, CPU1)]), T("B", "G1", now + 9, None, [(b, CPU1)], "virtual"),
                      T("C", "G2", now + 6, 0, [(2, CPU1)])], [("A", "B")], {"release_taskgraphs": True}))
        fams.append(("running-short", [{"CPU": 1}],
                     [T("R", "G0", now + 30, 0, [(10, CPU1)], "running", {"worker": 0, "strategy": 0, "start": max(0, now - 8)}),
                      T("X", "G1", now + 8, 0, [(3, CPU1)]), T("Y", "G2", now + 11, 0, [(3, CPU1)])], [], {}))
        # a RUNNING task holds the whole worker for a short while; the offered task fits comfortably after it even when the
        # planner charges the running task's full runtime from now on (seed C14-8: strategies tested against the capacity
        # that is free right now)
        fams.append(("running-full/loose", [{"CPU": 1}],
                     [T("R", "G0", now + 30, 0, [(3, CPU1)], "running", {"worker": 0, "strategy": 0, "start": max(0, now - 1)}),
                      T("X", "G1", now + 12, 0, [(2, CPU1)])], [], {}))
        fams.append(("pastdeadline", [{"CPU": 1}],
                     [T("A", "G1", max(0, now - 5), 0, [(3, CPU1)]), T("B", "G2", now + 9, 0, [(3, CPU1)])], [], {}))
        fams.append(("indep4/cap2", [{"CPU": 2}],
                     [T("X", "G1", now + 5, 0, [(a, CPU1)]), T("Y", "G2", now + 5, 0, [(b, {"CPU": 2})]),
                      T("Z", "G3", now + 6, 0, [(c, CPU1)]), T("U", "G4", now + 6, 0, [(2, CPU1)])], [], {}))
        fams.append(("twograph-chain", [{"CPU": 1}, {"CPU": 1}],
                     [T("A", "G1", now + 8, 0, [(a, CPU1)]), T("B", "G1", now + 8, None, [(b, CPU1)], "virtual"),
                      T("C", "G2", now + 7, 0, [(c, CPU1)]), T("D", "G2", now + 9, None, [(2, CPU1)], "virtual")],
                     [("A", "B"), ("C", "D")], {"release_taskgraphs": True, "_dag": True}))
        # a task released in the future (inside the lookahead) with zero slack: start == release is the only feasible start
        fams.append(("future-release/zero-slack", [{"CPU": 1}],
                     [T("X", "G1", now + 5, 0, [(4, CPU1)]), T("Y", "G2", now + 6 + b, now + 6, [(b, CPU1)])], [], {"lookahead": 10}))
        # the deadline lies between the fastest and the slowest strategy: only the fast strategy is on time
        fams.append(("twostrat/between", [{"CPU": 2}],
                     [T("X", "G1", now + 5, 0, [(6, CPU1), (3, {"CPU": 2})]), T("Y", "G2", now + 10, 0, [(2, CPU1)])], [], {}))
        if tier != "quick":
            fams.append(("tight-lattice", [{"CPU": 1}],
                         [T("X", "G1", now + a - 1 + (vi % 3), 0, [(a, CPU1)]),
                          T("Y", "G2", now + a + b + (vi % 2), 0, [(b, CPU1)])], [], {}))
            fams.append(("zero-demand", [{"CPU": 1, "GPU": 1}],
                         [T("X", "G1", now + 5, 0, [(3, {"CPU": 1, "GPU": 0})]),
                          T("Y", "G2", now + 5, 0, [(3, {"GPU": 1})]),
                          T("Z", "G3", now + 7, 0, [(3, CPU1)])], [], {}))
            fams.append(("hopeless-child", [{"CPU": 1}, {"CPU": 1}],
                         [T("A", "G1", now + 10, 0, [(3, CPU1)]), T("B", "G1", now + 4, None, [(3, CPU1)], "virtual"),
                          T("C", "G2", now + 8, 0, [(3, CPU1)])], [("A", "B")], {"lookahead": 20, "_dag": True}))
            fams.append(("running-parent", [{"CPU": 2}],
                         [T("A", "G1", now + 30, 0, [(8, CPU1)], "running", {"worker": 0, "strategy": 0, "start": max(0, now - 5)}),
                          T("B", "G1", now + 9, None, [(3, CPU1)], "virtual"),
                          T("C", "G2", now + 6, 0, [(b, {"CPU": 2})])], [("A", "B")],
                         {"release_taskgraphs": True, "_dag": True}))
        for name, workers, tasks, edges, extra in fams:
            extra = dict(extra)
            dag = extra.pop("_dag", False) or bool(edges)
            kinds = [("ilp", {"enforce_deadlines": True}),
                     ("tetri_gurobi", {"enforce_deadlines": True, "plan_ahead": 11}),
                     ("tetri_cplex", {"enforce_deadlines": True, "plan_ahead": 11})]
            disc = [2, 3] if tier != "quick" else ([2] if name in ("indep3/cap1", "chain+1") else
                                                   ([3] if name == "indep2/cap1" else []))
            for d in disc:
                kinds += [("tetri_gurobi", {"enforce_deadlines": True, "plan_ahead": 11, "time_discretization": d}),
                          ("tetri_cplex", {"enforce_deadlines": True, "plan_ahead": 11, "time_discretization": d})]
            for kind, kw in kinds:
                kw = dict(kw, **extra)
                if kind == "tetri_cplex":
                    if dag:
                        continue        # the CPLEX formulation has no DAG support
                    kw.pop("release_taskgraphs", None)
                out.append(I("c14/v%d/%s" % (vi, name), now, workers, tasks, edges, kind, kw,
                             horizon=12, plan_limit=30000,
                             check_limit=(2500 if tier == "quick" else 6000)))
        # second invocation of the same scheduler object, no explicit plan_ahead: the first invocation saw only a small deadline
        for kind in ("tetri_gurobi", "tetri_cplex"):
            out.append(I("c14/v%d/second-invocation/default-horizon" % vi, now, [{"CPU": 1}],
                         [T("X", "G1", now + 10, 0, [(4, CPU1)]), T("Y", "G2", now + 10, 0, [(4, CPU1)])], [], kind, {"enforce_deadlines": True},
                         horizon=12, plan_limit=30000, check_limit=(2500 if tier == "quick" else 6000),
                         warmup={"now": 0, "tasks": [T("W", "GW", 3, 0, [(2, CPU1)])]}))
    return out


RULES = {
    "C11": ("one case = one (instance, back-end) pair; non-trivial iff the captured model has a feasible point in "
            "which some task with a predecessor decided in the same invocation (or already running / scheduled) is "
            "placed, i.e. the precedence clause is not vacuous for that model"),
    "C10": ("one case = one (instance, back-end) pair; non-trivial iff the captured model has a feasible point with "
            "at least one task placed (or schedule() raised / answered without building a model while tasks were offered)"),
    "C12": ("one case = one (instance, back-end) pair with enforce_deadlines on; non-trivial iff the captured model "
            "has a feasible point with a task placed or the instance offers a task that cannot meet its deadline"),
    "C14": ("one case = one (instance, back-end) pair; non-trivial iff the brute-force enumeration finds more than "
            "one statement-feasible plan in the planner's own decision space"),
}
BOUNDS = {
    "C11": "all DAG shapes <=4 nodes (chain2/3/4, fork, join, diamond, chain+independent) x predecessor new/RUNNING/"
           "SCHEDULED, child SCHEDULED by an earlier invocation below a RUNNING / SCHEDULED parent (built with the real Task.release/schedule/start/step) x release_taskgraphs/lookahead; 1-2 workers, "
           "<=2 strategies (also two strategies of the same runtime on different resource types); ILP, TetriSched-Gurobi, Z3; every feasible point of each captured model",
    "C10": "<=3 offered + <=2 running/scheduled tasks, <=2 workers (1-2 pools), <=2 strategies, resources CPU/GPU, future "
           "release with lookahead, chain with release_taskgraphs; ILP, TetriSched-Gurobi, TetriSched-CPLEX, Z3; every "
           "feasible point + run-level clauses on the returned optimum",
    "C12": "deadline in {now-5, now, now+1, now+r-1, now+r, now+r+1, now+r+2, loose}, 1-2 tasks, 1-2 strategies, "
           "contention, running blocker, two workers, a child offered alone after its parent completed, a SCHEDULED task decided again behind a running one; ILP (task-by-task), TetriSched-Gurobi, TetriSched-CPLEX with "
           "enforce_deadlines; every feasible point + returned optimum",
    "C14": "<=4 offered tasks, <=2 workers, <=2 strategies, horizon <=12 slots, discretisation 1-3, running tasks (also one that fills the worker while the offered task fits after it), a future release inside the lookahead with zero slack, a deadline between the fastest and the slowest strategy, a second invocation of the same scheduler object without an explicit horizon; all "
           "plans of the planner's own decision space enumerated by brute force with an independent feasibility function",
}
GENS = {"C10": gen_c10, "C11": gen_c11, "C12": gen_c12, "C14": gen_c14}


def main():
    def more(ap):
        ap.add_argument("--jobs", type=int, default=14)
        ap.add_argument("--replay-root", default=None,
                        help="write replay scripts under DIR/replays/<pid>/ instead of /verif (mutation runs)")
    args = parse_args(more)
    if args.replay_root:
        sys.modules[Result.__module__].VERIF = args.replay_root
    quiet_logging()
    pid = args.pid
    if pid not in GENS:
        R = Result(args, rule="n/a", bound="n/a")
        R.undecided.append("milp_capture.py serves C10, C11, C12, C14 only")
        R.finish()
        return
    insts = GENS[pid](args.tier, args.seed)
    for i in insts:
        i["seed"] = 1000 + args.seed
    R = Result(args, rule=RULES[pid], bound=BOUNDS[pid] + "; tier %s: %d (instance, back-end) pairs" % (args.tier, len(insts)))
    jobs = [(pid, i) for i in insts]
    extra = {"programs": 0, "disagreements_checked": 0, "observations": [], "z3_plan_checks": 0,
             "brute_force_plans": 0, "per_backend": {}}
    ctx = multiprocessing.get_context("fork")
    t0 = time.time()
    if args.jobs > 1:
        pool = ctx.Pool(args.jobs)
        results = pool.imap_unordered(check_instance, jobs, chunksize=1)
    else:
        pool = None
        results = map(check_instance, jobs)
    partial = 0
    slow = []
    for res in results:
        R.case(res["key"], res["nontrivial"], res["sample"])
        for fn, n in res["fns"].items():
            R.called(fn, n)
        for i, what, replay in res["viol"]:
            R.violation(i, what, replay)
        for u in res["undecided"]:
            if len(R.undecided) < 40:
                R.undecided.append(u)
        extra["programs"] += res["programs"]
        extra["disagreements_checked"] += res["xchecks"]
        extra["z3_plan_checks"] += res.get("z3_plan_checks", 0)
        extra["brute_force_plans"] += res.get("plans", 0)
        be = res["kind"]
        extra["per_backend"][be] = extra["per_backend"].get(be, 0) + res["programs"]
        for o in res["obs"]:
            if len(extra["observations"]) < 60:
                extra["observations"].append(o)
        partial += 1 if res.get("partial_iii") else 0
        slow.append((res["secs"], res["key"]))
    if pool:
        pool.close()
        pool.join()
    if partial:
        R.exhaustive = False
        extra["observations"].append("%d instance(s) had more feasible plans than the per-instance z3 budget; clause "
                                     "(iii) was checked on the most-placing half + a seeded sample there" % partial)
    extra["slowest"] = sorted(slow, reverse=True)[:5]
    R.extra.update(extra)
    R.finish()


if __name__ == "__main__":
    main()
