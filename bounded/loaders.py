"""Bounded stand-in for property C19 -- "workload and cluster descriptions are instantiated
faithfully" (erdos-scheduling-simulator).

    /venv/bin/python bounded/loaders.py --pid C19 --tier quick|thorough --seed N --out f.json

The oracle is an independent re-reading of the *description* (plain dicts written by this
script, dumped to YAML/JSON) by the spec functions in SHARED_SRC below; the objects built by
the REAL loader (data/workload_loader.py, data/worker_loader.py), the REAL release policies
(workload/jobs.py ReleasePolicy.get_release_times), the REAL task-graph generation
(JobGraph._generate_task_graph / generate_task_graphs / get_next_task_graph), the REAL closed
loop (Workload.notify_task_graph_completion) and the REAL EventTime.fuzz are compared
structurally against that reading.  Nothing recorded, no repo helper is its own oracle
(critical paths are found by enumerating every path; release times by integer arithmetic).

SHARED_SRC is one source string that is (1) exec'd here and (2) copied verbatim into every
replay script, so a replay runs exactly the check that failed, on the concrete input, with only
PYTHONPATH=<repo> (cwd=<repo>).

Families (input -> list of (violation id, text)):
  P   __create_work_profile / __create_execution_strategies / __create_resources
  J   WorkloadLoader.load_job_graph (static)           nodes, edges, per-node fields, SLO
  RP  WorkloadLoader.__create_release_policy           kind + parameters + overrides, start default
  W   WorkloadLoader(path, _flags=FLAGS) on a YAML/JSON file: everything above + the task
      graphs populated by the loader (release times, isomorphism, freshness, deadlines) + a
      closed-loop history driven through Workload.notify_task_graph_completion
  K   WorkerLoader(path, _flags) on a YAML/JSON file
  RT  ReleasePolicy.get_release_times directly
  CL  closed loop: every completion order of a small closed-loop JobGraph
  TG  _generate_task_graph / generate_task_graphs on hand-built JobGraphs (<= 4 nodes)
  FZ  EventTime.fuzz directly
"""
import itertools
import os
import random
import sys
import time

sys.path.insert(0, os.path.dirname(os.path.dirname(os.path.abspath(__file__))))
from bounded.common import Result, parse_args, quiet_logging  # noqa: E402

SHARED_SRC = r'''
import itertools, json, logging, os, random, re, shutil, sys, tempfile, traceback
from fractions import Fraction
logging.disable(logging.CRITICAL)
import numpy as np
import yaml
import main as _repo_main  # noqa: F401  (defines the absl flags exactly the way main.py does)
from absl import flags as _absl_flags
from data import WorkerLoader, WorkloadLoader
from utils import EventTime
from workload import (ExecutionStrategies, ExecutionStrategy, Job, JobGraph, Resource,
                      Resources, Workload, WorkProfile)

US = EventTime.Unit.US
MAXSIZE = sys.maxsize
CALLS = {}
OBS = {}


def _called(fn, n=1):
    CALLS[fn] = CALLS.get(fn, 0) + n


def _observe(key, text):
    if key not in OBS:
        OBS[key] = {"id": key, "text": text, "count": 0}
    OBS[key]["count"] += 1


# ---- determinism: the repo draws from np.random.default_rng() (OS entropy) when the loader
# builds a poisson/gamma policy; give that call a seed derived from the case seed.
_ORIG_DEFAULT_RNG = np.random.default_rng
_NP_SEED = [0]


def _seeded_default_rng(seed=None, *a, **k):
    if seed is None:
        _NP_SEED[0] += 1
        seed = _NP_SEED[0]
    return _ORIG_DEFAULT_RNG(seed, *a, **k)


np.random.default_rng = _seeded_default_rng


def _reseed(seed):
    random.seed(seed)
    _NP_SEED[0] = 1000 * (seed + 1)
    EventTime._rng = random.Random(seed)  # the class seeds itself the same way (random.Random)


def make_flags(flagd):
    """absl FLAGS parsed from a command line, the way main.py receives them."""
    if flagd is None:
        return None
    F = _absl_flags.FLAGS
    F.unparse_flags()
    argv = ["prog", "--random_seed=1"]
    for k, v in sorted(flagd.items()):
        if isinstance(v, bool):
            argv.append("--%s%s" % ("" if v else "no", k))
        else:
            argv.append("--%s=%s" % (k, v))
    F(argv)
    return F


def _us(t):
    return t.to(US).time


# ------------------------------------------------------------------ spec: re-reading profiles
def spec_strategy(s):
    res = {}
    for key, q in (s.get("resource_requirements") or {}).items():
        parts = key.split(":")
        res[(parts[0], parts[1] if len(parts) > 1 else None)] = q
    return (s.get("batch_size", 1), s.get("runtime", 0), sorted(res.items(), key=repr))


def spec_profile(p):
    return {"name": p["name"],
            "exec": [spec_strategy(s) for s in p.get("execution_strategies", [])],
            "load": [spec_strategy(s) for s in p.get("loading_strategies", [])]}


def seen_strategy(s):
    res = []
    if s.resources is not None:
        for r, q in s.resources.resources:
            res.append(((r.name, r.id), q))
    return (s.batch_size, _us(s.runtime), sorted(res, key=repr))


def diff_profile(where, exp, prof):
    """exp: spec_profile(...) or None (node without work_profile => no strategies)"""
    out = []
    if exp is None:
        n = len(prof.execution_strategies)
        if n != 0:
            out.append(("load_job_graph.profile_mismatch", "%s: node declares no work_profile but its Job has %d execution strategies (profile %s)" % (where, n, prof.name)))
        return out
    if not re.fullmatch(re.escape(exp["name"]) + r"(_\d+)?", prof.name):
        out.append(("load_job_graph.profile_mismatch", "%s: declared work_profile %r, Job carries profile named %r" % (where, exp["name"], prof.name)))
    for kind, strategies in (("exec", prof.execution_strategies), ("load", prof.loading_strategies)):
        e = exp[kind]
        a = [seen_strategy(s) for s in strategies]
        if e == a or sorted(e, key=repr) == sorted(a, key=repr):
            continue
        if len(e) != len(a):
            out.append(("work_profile.strategy_count_mismatch", "%s/%s: %d strategies declared, %d built: declared %r built %r" % (where, kind, len(e), len(a), e, a)))
            continue
        for i, (es, as_) in enumerate(zip(e, a)):
            if es[0] != as_[0]:
                out.append(("work_profile.batch_size_mismatch", "%s/%s[%d]: batch_size declared %r built %r" % (where, kind, i, es[0], as_[0])))
            if es[1] != as_[1]:
                out.append(("work_profile.runtime_mismatch", "%s/%s[%d]: runtime declared %r us built %r us" % (where, kind, i, es[1], as_[1])))
            if es[2] != as_[2]:
                out.append(("work_profile.resources_mismatch", "%s/%s[%d]: resource requirements declared (name,id)->qty %r built %r" % (where, kind, i, es[2], as_[2])))
    return out


# ------------------------------------------------------------------ spec: re-reading a graph
def spec_nodes(graph_repr, override_slo):
    nodes = []
    for n in graph_repr:
        nodes.append({"name": n["name"],
                      "conditional": bool(n.get("conditional", False)),
                      "probability": n.get("probability", 1.0),
                      "terminal": bool(n.get("terminal", False)),
                      "slo": override_slo if override_slo > 0 else n.get("slo", -1),
                      "declared_slo": n.get("slo", -1),
                      "profile": n.get("work_profile")})
    edges = sorted((n["name"], c) for n in graph_repr for c in n.get("children", []))
    return nodes, edges


def diff_job_graph(where, graph_repr, profiles_spec, override_slo, jg):
    out = []
    nodes, edges = spec_nodes(graph_repr, override_slo)
    jobs = list(jg.get_nodes())
    seen_names = sorted(j.name for j in jobs)
    if seen_names != sorted(n["name"] for n in nodes):
        out.append(("load_job_graph.node_set_mismatch", "%s: declared nodes %r, JobGraph has %r" % (where, sorted(n["name"] for n in nodes), seen_names)))
        return out
    seen_edges = sorted((p.name, c.name) for p in jobs for c in jg.get_children(p))
    if seen_edges != edges:
        out.append(("load_job_graph.edge_mismatch", "%s: declared edges %r, JobGraph has %r" % (where, edges, seen_edges)))
    for p in jobs:
        par = sorted(q.name for q in jg.get_parents(p))
        if par != sorted(a for a, b in edges if b == p.name):
            out.append(("load_job_graph.edge_mismatch.parents", "%s: parents of %s are %r, declared %r" % (where, p.name, par, sorted(a for a, b in edges if b == p.name))))
    by_name = {j.name: j for j in jobs}
    earlier = []
    for n in nodes:
        j = by_name[n["name"]]
        w = "%s/%s" % (where, n["name"])
        if bool(j.conditional) != n["conditional"]:
            out.append(("load_job_graph.conditional_mismatch", "%s: conditional declared %r built %r" % (w, n["conditional"], j.conditional)))
        if j.probability != n["probability"]:
            out.append(("load_job_graph.probability_mismatch", "%s: probability declared %r built %r" % (w, n["probability"], j.probability)))
        if bool(j.terminal) != n["terminal"]:
            out.append(("load_job_graph.terminal_mismatch", "%s: terminal declared %r built %r" % (w, n["terminal"], j.terminal)))
        seen_slo = -1 if j.slo.is_invalid() else _us(j.slo)
        if seen_slo != n["slo"]:
            if override_slo > 0:
                out.append(("loader.override_slo_not_applied", "%s: override SLO %r us, Job has %r" % (w, override_slo, seen_slo)))
            elif seen_slo in earlier:
                if n["declared_slo"] == -1:
                    out.append(("load_job_graph.slo_leaks_to_later_nodes", "%s: node declares NO slo but its Job has slo=%rus, the slo of an earlier node (earlier declared slos %r); a node without slo must have none" % (w, seen_slo, earlier)))
                else:
                    out.append(("load_job_graph.slo_leaks_to_later_nodes.declared_slo_ignored", "%s: node declares slo=%rus but its Job has slo=%rus, the slo of an earlier node (earlier declared slos %r)" % (w, n["declared_slo"], seen_slo, earlier)))
            else:
                out.append(("load_job_graph.slo_mismatch", "%s: slo declared %r built %r" % (w, n["slo"], seen_slo)))
        if n["declared_slo"] != -1:
            earlier.append(n["declared_slo"])
        if n["profile"] is not None and n["profile"] not in profiles_spec:
            continue
        out.extend(diff_profile(w, profiles_spec[n["profile"]] if n["profile"] is not None else None, j.profile))
    return out


# ------------------------------------------------------------------ spec: release policy
KIND = {"periodic": "PERIODIC", "fixed": "FIXED", "poisson": "POISSON", "gamma": "GAMMA", "closed_loop": "CLOSED_LOOP"}


def spec_policy(g, ov):
    """ov: dict with override_arrival_period / override_num_invocation /
    override_poisson_arrival_rate / override_gamma_coefficient (absent or <= 0: no override)"""
    ov = ov or {}
    per = ov.get("override_arrival_period", 0)
    ninv = ov.get("override_num_invocation", 0)
    rate = ov.get("override_poisson_arrival_rate", 0.0)
    coef = ov.get("override_gamma_coefficient", 0.0)
    kind = g["release_policy"]
    e = {"kind": kind, "start": g.get("start", 0)}
    if kind in ("periodic", "fixed"):
        e["period"] = per if per > 0 else g["period"]
    if kind in ("fixed", "poisson", "gamma", "closed_loop"):
        if kind == "fixed":
            e["num_invocations"] = ninv if ninv > 0 else g["invocations"]
        else:
            e["num_invocations"] = g["invocations"]
            if ninv > 0:
                e["num_invocations_override"] = ninv
    if kind in ("poisson", "gamma"):
        e["rate"] = rate if rate > 0 else g["rate"]
    if kind == "gamma":
        e["coefficient"] = coef if coef > 0 else g["coefficient"]
    if kind == "closed_loop":
        e["concurrency"] = g["concurrency"]
    return e


def diff_policy(where, exp, pol):
    out = []
    if pol is None:
        return [("release_policy.missing", "%s: no release policy on the JobGraph" % where)]
    if pol.policy_type.name != KIND[exp["kind"]]:
        return [("release_policy.kind_mismatch", "%s: declared %r built %s" % (where, exp["kind"], pol.policy_type.name))]
    st = _us(pol.start_time)
    if st != exp["start"]:
        out.append(("release_policy.start_mismatch", "%s: start declared %r us (default 0) built %r" % (where, exp["start"], st)))
    if "period" in exp and _us(pol.period) != exp["period"]:
        out.append(("release_policy.period_mismatch", "%s: period declared/overridden %r us built %r" % (where, exp["period"], _us(pol.period))))
    if "num_invocations" in exp:
        n = pol.num_invocations
        if "num_invocations_override" in exp and n == exp["num_invocations_override"]:
            pass
        elif n != exp["num_invocations"]:
            out.append(("release_policy.num_invocations_mismatch", "%s: invocations declared %r built %r" % (where, exp["num_invocations"], n)))
        elif "num_invocations_override" in exp and exp["num_invocations_override"] != n:
            _observe("override_num_invocation_ignored_for_" + exp["kind"], "%s: --override_num_invocation=%r is documented as 'for all TaskGraphs' but a %s policy keeps the declared %r" % (where, exp["num_invocations_override"], exp["kind"], n))
    if "rate" in exp and pol.rate != exp["rate"]:
        out.append(("release_policy.rate_mismatch", "%s: rate declared/overridden %r built %r" % (where, exp["rate"], pol.rate)))
    if "coefficient" in exp and pol.coefficient != exp["coefficient"]:
        out.append(("release_policy.coefficient_mismatch", "%s: coefficient declared/overridden %r built %r" % (where, exp["coefficient"], pol.coefficient)))
    if "concurrency" in exp and pol.concurrency != exp["concurrency"]:
        out.append(("release_policy.concurrency_mismatch", "%s: concurrency declared %r built %r" % (where, exp["concurrency"], pol.concurrency)))
    return out


def diff_release_times(where, exp, horizon, times, prefix="release_times"):
    """exp: spec_policy-like dict (kind,start,period,num_invocations,concurrency); times: ints"""
    out = []
    kind, start = exp["kind"], exp["start"]
    if kind == "fixed":
        want = [start + k * exp["period"] for k in range(exp["num_invocations"])]
        if times != want:
            out.append((prefix + ".fixed.not_N_one_period_apart", "%s: fixed(N=%r, period=%r, start=%r) must release at %r, released at %r" % (where, exp["num_invocations"], exp["period"], start, want, times)))
    elif kind == "periodic":
        p = exp["period"]
        must = [start + k * p for k in range(0, max(0, (horizon - start + p - 1) // p))] if horizon > start else []
        must = [t for t in must if t < horizon]
        if times[:len(must)] != must:
            out.append((prefix + ".periodic.missing_or_wrong_release", "%s: periodic(period=%r, start=%r) up to horizon %r must release at %r (every period before the horizon), released at %r" % (where, p, start, horizon, must, times)))
        else:
            extra = times[len(must):]
            ok = all(t == start + (len(must) + i) * p and t <= horizon for i, t in enumerate(extra))
            if not ok:
                out.append((prefix + ".periodic.release_beyond_horizon", "%s: periodic(period=%r, start=%r) horizon %r: releases %r go beyond the horizon / off the period grid" % (where, p, start, horizon, times)))
    elif kind in ("poisson", "gamma"):
        n = exp["num_invocations"]
        if len(times) != n:
            out.append((prefix + "." + kind + ".not_N_releases", "%s: %s with N=%r produced %d releases %r" % (where, kind, n, len(times), times)))
        if any(b < a for a, b in zip(times, times[1:])):
            out.append((prefix + "." + kind + ".decreasing", "%s: %s releases are not non-decreasing: %r" % (where, kind, times)))
        if any(t < start for t in times):
            out.append((prefix + "." + kind + ".before_start", "%s: %s releases before start=%r: %r" % (where, kind, start, times)))
    elif kind == "closed_loop":
        want = [start] * min(exp["concurrency"], exp["num_invocations"])
        if times != want:
            out.append((prefix + ".closed_loop.initial_not_min_concurrency_N", "%s: closed_loop(concurrency=%r, N=%r, start=%r) must initially release %r, released %r" % (where, exp["concurrency"], exp["num_invocations"], start, want, times)))
    return out


# ------------------------------------------------------------------ spec: deadlines
def admissible_bases(nodes, edges):
    """nodes: name -> (slo or -1, slowest runtime); every directed path is enumerated; the
    critical paths are those of maximal total runtime; base = sum over the path of
    (slo if declared else runtime)."""
    children = {n: [] for n in nodes}
    for a, b in edges:
        children[a].append(b)
    paths = []

    def ext(path):
        paths.append(path)
        for c in children[path[-1]]:
            ext(path + [c])

    for n in nodes:
        ext([n])
    weight = lambda p: sum(nodes[n][1] for n in p)  # noqa: E731
    m = max(weight(p) for p in paths)
    return sorted({sum(nodes[n][0] if nodes[n][0] >= 0 else nodes[n][1] for n in p) for p in paths if weight(p) == m})


def _clip(x, lo, hi):
    return max(lo, min(hi, x))


def fuzz_verdict(delta_of, bases, variance, bounds):
    """delta_of(b) = observed (relative deadline - b).  Contract: delta in
    [clip(b*vmin/100), clip(b*vmax/100)] (clip to bounds). Returns (verdict, b, lo, hi)."""
    vmin, vmax = abs(variance[0]), abs(variance[1])
    near = None
    for b in bases:
        a1 = _clip(Fraction(b * vmin, 100), bounds[0], bounds[1])
        a2 = _clip(Fraction(b * vmax, 100), bounds[0], bounds[1])
        lo, hi = min(a1, a2), max(a1, a2)
        d = delta_of(b)
        if lo <= d <= hi:
            return ("ok", b, lo, hi)
        # times are whole microseconds: when the admissible interval contains no integer at all, no
        # implementation can be inside it, and the nearest integers on either side are accepted
        # (demanding more would demand the impossible, not what the statement says)
        if -(-lo // 1) > hi // 1 and lo - 1 < d < hi + 1:
            return ("ok", b, lo, hi)
        if hi < d < hi + 1 and near is None:
            near = ("round_hi", b, lo, hi)
        elif lo - 1 < d < lo and near is None:
            near = ("round_lo", b, lo, hi)
    if near is not None:
        return near
    b = bases[0]
    a1 = _clip(Fraction(b * vmin, 100), bounds[0], bounds[1])
    a2 = _clip(Fraction(b * vmax, 100), bounds[0], bounds[1])
    return ("bad", b, min(a1, a2), max(a1, a2))


def diff_deadline(where, deadline, release, bases, variance, bounds, prefix):
    rel = deadline - release
    v, b, lo, hi = fuzz_verdict(lambda base: rel - base, bases, variance, bounds)
    if v == "ok":
        return []
    txt = "%s: deadline %r = release %r + %r; critical-path/SLO time %r (admissible %r), variance %r %%, bounds %r => stretch must lie in [%s, %s] us, observed stretch %r us" % (where, deadline, release, rel, b, bases, tuple(variance), tuple(bounds), float(lo), float(hi), rel - b)
    if v == "round_hi":
        return [("fuzz.rounding_exceeds_variance_bound", txt + " (exceeds the upper bound by %s us: rounding)" % float(rel - b - hi))]
    if v == "round_lo":
        return [("fuzz.rounding_exceeds_variance_bound.lower", txt + " (below the lower bound by %s us: rounding)" % float(lo - (rel - b)))]
    return [(prefix + ".deadline_outside_variance", txt)]


def diff_task_graph(where, tg, jg, tg_name, timestamp, release, node_spec, edges, variance_options, bounds, prefix="generate_task_graph"):
    """node_spec: name -> (slo or -1, slowest runtime) as DECLARED; variance_options: list of
    admissible (vmin, vmax) readings (the first is the preferred one)."""
    out = []
    if tg.name != tg_name:
        out.append((prefix + ".name_mismatch", "%s: task graph named %r, expected %r" % (where, tg.name, tg_name)))
    tasks = list(tg.get_nodes())
    names = sorted(t.name for t in tasks)
    if names != sorted(node_spec):
        out.append((prefix + ".node_bijection_broken", "%s: job graph nodes %r, task graph %s has tasks %r" % (where, sorted(node_spec), tg.name, names)))
        return out
    jobs = {j.name: j for j in jg.get_nodes()}
    for t in tasks:
        if t.job is not jobs[t.name]:
            out.append((prefix + ".task_job_mismatch", "%s: task %s of %s was not created from the job of the same name (%r)" % (where, t.name, tg.name, t.job)))
        if t.timestamp != timestamp:
            out.append((prefix + ".timestamp_mismatch", "%s: task %s of %s has timestamp %r, expected %r" % (where, t.name, tg.name, t.timestamp, timestamp)))
        if t.task_graph != tg.name:
            out.append((prefix + ".task_graph_name_on_task_mismatch", "%s: task %s says it belongs to %r, is in %r" % (where, t.name, t.task_graph, tg.name)))
        if t.profile is not jobs[t.name].profile:
            out.append((prefix + ".task_profile_mismatch", "%s: task %s carries profile %r, its job %r" % (where, t.name, t.profile, jobs[t.name].profile)))
    seen_edges = sorted((p.name, c.name) for p in tasks for c in tg.get_children(p))
    if seen_edges != sorted(edges):
        out.append((prefix + ".edge_bijection_broken", "%s: job graph edges %r, task graph %s edges %r" % (where, sorted(edges), tg.name, seen_edges)))
    if tg.job_graph is not jg:
        out.append((prefix + ".job_graph_backref_mismatch", "%s: %s.job_graph is not the generating JobGraph" % (where, tg.name)))
    sources = [n for n in node_spec if not any(b == n for a, b in edges)]
    for t in tasks:
        if t.name in sources and _us(t.release_time) != release:
            out.append((prefix + ".source_release_mismatch", "%s: source task %s of %s released at %r, invocation release is %r" % (where, t.name, tg.name, _us(t.release_time), release)))
    bases = admissible_bases(node_spec, edges)
    for dl in sorted({_us(t.deadline) for t in tasks}):
        best = None
        for var in variance_options:
            d = diff_deadline("%s/%s" % (where, tg.name), dl, release, bases, var, bounds, prefix)
            if not d:
                best = []
                if var != variance_options[0]:
                    _observe("flag_deadline_variance_ignored_when_description_silent", "%s: description declares no deadline_variance, flags declare %r %%, but the deadline %r (release %r, base %r) uses variance %r" % (where, tuple(variance_options[0]), dl, release, bases, tuple(var)))
                break
            if best is None:
                best = d
        out.extend(best)
    return out


def diff_freshness(where, task_graphs, prefix="generate_task_graph"):
    out = []
    seen_obj, seen_id = {}, {}
    for tg in task_graphs:
        for t in tg.get_nodes():
            if id(t) in seen_obj:
                out.append((prefix + ".task_object_shared_between_invocations", "%s: the Task object %s appears in %s and in %s" % (where, t.name, seen_obj[id(t)], tg.name)))
            seen_obj[id(t)] = tg.name
            if t.id in seen_id:
                out.append((prefix + ".task_id_reused", "%s: task id %s used by %s and by %s/%s" % (where, t.id, seen_id[t.id], tg.name, t.name)))
            seen_id[t.id] = "%s/%s" % (tg.name, t.name)
    return out


# =================================================================== families
def chk_profile(inp):
    _reseed(inp.get("seed", 0))
    p = inp["profile"]
    _called("WorkloadLoader.__create_work_profile")
    _called("WorkloadLoader.__create_execution_strategies", ("execution_strategies" in p) + ("loading_strategies" in p))
    try:
        prof = WorkloadLoader._WorkloadLoader__create_work_profile(p, None)
    except Exception as e:  # noqa
        return [("work_profile.crash." + type(e).__name__, "profile %r: %s" % (p, traceback.format_exc()[-400:]))]
    return diff_profile("profile " + p["name"], spec_profile(p), prof)


def chk_load_job_graph(inp):
    _reseed(inp.get("seed", 0))
    profs = {}
    for p in inp["profiles"]:
        profs[p["name"]] = WorkloadLoader._WorkloadLoader__create_work_profile(p, None)
    ov = inp.get("override_slo", -1)
    slo = EventTime(ov, US) if ov > 0 else EventTime.invalid()
    _called("WorkloadLoader.load_job_graph")
    try:
        jg = WorkloadLoader.load_job_graph(JobGraph(name="G"), inp["graph"], profs, slo)
    except Exception as e:  # noqa
        return [("load_job_graph.crash." + type(e).__name__, "graph %r: %s" % (inp["graph"], traceback.format_exc()[-400:]))]
    return diff_job_graph("G", inp["graph"], {p["name"]: spec_profile(p) for p in inp["profiles"]}, ov, jg)


def chk_release_policy(inp):
    _reseed(inp.get("seed", 0))
    g, ov = inp["job"], inp.get("ov") or {}
    none_if = lambda v: v if v and v > 0 else None  # noqa: E731
    _called("WorkloadLoader.__create_release_policy")
    try:
        pol = WorkloadLoader._WorkloadLoader__create_release_policy(
            g, none_if(ov.get("override_arrival_period")), none_if(ov.get("override_num_invocation")),
            none_if(ov.get("override_poisson_arrival_rate")), none_if(ov.get("override_gamma_coefficient")))
    except Exception as e:  # noqa
        return [("release_policy.crash." + type(e).__name__, "job %r overrides %r: %s" % (g, ov, traceback.format_exc()[-400:]))]
    return diff_policy("job " + g.get("name", "?"), spec_policy(g, ov), pol)


def _write(desc, fmt):
    d = tempfile.mkdtemp(prefix="c19_")
    path = os.path.join(d, "desc." + fmt)
    with open(path, "w") as f:
        if fmt == "json":
            json.dump(desc, f)
        else:
            yaml.safe_dump(desc, f, sort_keys=False)
    return d, path


def _drive_closed_loop(where, wl, jg, gname, exp, initial, node_spec, edges, variance_options, bounds, history, t0):
    """Complete in-flight task graphs one at a time (history[i] picks which), through
    Workload.notify_task_graph_completion; never more than `concurrency` in flight, N total."""
    out = []
    c, n = exp["concurrency"], exp["num_invocations"]
    in_flight = list(initial)
    released = list(initial)
    now = t0
    step = 0
    while in_flight:
        pick = in_flight.pop(history[step % len(history)] % len(in_flight) if history else 0)
        step += 1
        now += 3
        before = set(wl.task_graphs.keys())
        _called("Workload.notify_task_graph_completion")
        _called("JobGraph.get_next_task_graph")
        tasks = wl.notify_task_graph_completion(pick, EventTime(now, US))
        new = [wl.task_graphs[k] for k in wl.task_graphs.keys() if k not in before and wl.task_graphs[k].job_graph is jg]
        if len(new) > 1:
            out.append(("closed_loop.more_than_one_release_per_completion", "%s: completing %s released %r" % (where, pick.name, [g.name for g in new])))
        for g in new:
            in_flight.append(g)
            released.append(g)
            idx = len(released) - 1
            out.extend(diff_task_graph(where, g, jg, "%s@%d" % (gname, idx), idx, _us(g.release_time), node_spec, edges, variance_options, bounds))
            if _us(g.release_time) < now:
                out.append(("closed_loop.rerelease_before_completion", "%s: %s released at %r although the completion that triggered it is at %r" % (where, g.name, _us(g.release_time), now)))
            src = sorted(t.name for t in g.get_nodes() if not any(b == t.name for a, b in edges))
            if sorted(t.name for t in tasks) != src or any(t.task_graph != g.name for t in tasks):
                out.append(("closed_loop.returned_tasks_not_sources_of_new_graph", "%s: notify returned %r, sources of %s are %r" % (where, [(t.task_graph, t.name) for t in tasks], g.name, src)))
        if not new and tasks:
            out.append(("closed_loop.returned_tasks_without_new_graph", "%s: notify returned %r but no task graph was added" % (where, tasks)))
        if len(in_flight) > c:
            out.append(("closed_loop.more_than_concurrency_in_flight", "%s: concurrency=%r N=%r: after completing %s there are %d in flight: %r" % (where, c, n, pick.name, len(in_flight), [g.name for g in in_flight])))
        if len(released) > n:
            out.append(("closed_loop.more_than_N_released", "%s: concurrency=%r N=%r: %d released: %r" % (where, c, n, len(released), [g.name for g in released])))
            break
    if len(released) != n:
        out.append(("closed_loop.total_not_N", "%s: concurrency=%r N=%r: %d invocations in total after everything completed: %r" % (where, c, n, len(released), [g.name for g in released])))
    out.extend(diff_freshness(where, released))
    return out


def chk_workload_file(inp):
    seed = inp.get("seed", 0)
    _reseed(seed)
    desc, flagd, fmt = inp["desc"], inp.get("flags"), inp.get("fmt", "yaml")
    out = []
    d, path = _write(desc, fmt)
    try:
        F = make_flags(flagd)
        _called("WorkloadLoader.__init__")
        try:
            loader = WorkloadLoader(path, _flags=F) if F is not None else WorkloadLoader(path)
        except Exception as e:  # noqa
            tb = traceback.format_exc()
            if isinstance(e, AttributeError) and flagd is not None and any(g["release_policy"] == "periodic" for g in desc["graphs"]) and "'int' object has no attribute 'to'" in str(e):
                return [("loader.periodic_policy_with_flags_attribute_error", "WorkloadLoader(path, _flags=FLAGS) (the call main.py makes) on a description with a periodic release policy, flags %r: %s: %s -- _flags.loop_timeout (an int) is passed to get_release_times which calls .to(...)\n%s" % (flagd, type(e).__name__, e, tb[-500:]))]
            if isinstance(e, AttributeError) and "'NoneType' object has no attribute 'runtime'" in str(e) and inp.get("expect_no_strategy_crash"):
                _observe("node_without_strategies_crashes_task_generation", "a node without work_profile (or a profile without execution strategies) is accepted by load_job_graph but populate_task_graphs raises AttributeError ('NoneType' has no 'runtime')")
                return []
            if isinstance(e, AttributeError) and "'Job' object has no attribute 'runtime'" in str(e) and flagd and flagd.get("use_branch_predicated_deadlines"):
                _observe("use_branch_predicated_deadlines_attribute_error", "--use_branch_predicated_deadlines: _generate_task_graph reads task.job.runtime, Job has no such attribute => AttributeError for every workload")
                return []
            return [("loader.crash." + type(e).__name__, "WorkloadLoader on %r flags %r: %s" % (desc, flagd, tb[-600:]))]
        wl = loader.workload
        fl = flagd or {}
        ovr_slo = fl.get("override_slo", -1)
        rep = fl.get("replication_factor", 1)
        profiles_spec = {p["name"]: spec_profile(p) for p in desc.get("profiles", [])}
        want_names = []
        for g in desc["graphs"]:
            want_names.extend(["%s_%d" % (g["name"], i) for i in range(1, rep + 1)] if rep > 1 else [g["name"]])
        seen_names = sorted(wl.job_graphs.keys())
        if seen_names != sorted(want_names):
            return [("loader.graph_set_mismatch", "declared graphs %r, replication_factor %r => %r; Workload has %r" % ([g["name"] for g in desc["graphs"]], rep, sorted(want_names), seen_names))]
        bounds = (fl.get("min_deadline", 0), fl.get("max_deadline", MAXSIZE)) if flagd is not None else (0, MAXSIZE)
        horizon = fl.get("loop_timeout", MAXSIZE)
        all_tgs = []
        all_jobs = {}
        for g in desc["graphs"]:
            names = ["%s_%d" % (g["name"], i) for i in range(1, rep + 1)] if rep > 1 else [g["name"]]
            nodes, edges = spec_nodes(g["graph"], ovr_slo)
            exp = spec_policy(g, fl)
            if "deadline_variance" in g:
                variance_options = [tuple(g["deadline_variance"])]
            elif flagd is not None:
                variance_options = [(fl.get("min_deadline_variance", 0), fl.get("max_deadline_variance", 20))]
                if variance_options[0] != (0, 0):
                    variance_options.append((0, 0))
            else:
                variance_options = [(0, 0)]
            node_spec = {}
            for n in nodes:
                ps = profiles_spec.get(n["profile"])
                rts = [s[1] for s in ps["exec"]] if ps else []
                node_spec[n["name"]] = (n["slo"], max(rts) if rts else 0)
            for gname in names:
                jg = wl.job_graphs[gname]
                if jg.name != gname:
                    out.append(("loader.graph_name_mismatch", "Workload key %r holds JobGraph named %r" % (gname, jg.name)))
                for j in jg.get_nodes():
                    if id(j) in all_jobs:
                        out.append(("loader.job_object_shared_between_graphs", "Job %s is shared by %s and %s" % (j.name, all_jobs[id(j)], gname)))
                    all_jobs[id(j)] = gname
                gd = diff_job_graph(gname, g["graph"], profiles_spec, ovr_slo, jg)
                out.extend(gd)
                out.extend(diff_policy(gname, exp, jg.release_policy))
                dv = getattr(jg, "_deadline_variance", None)
                if "deadline_variance" in g and dv is not None and tuple(dv) != tuple(g["deadline_variance"]):
                    out.append(("loader.deadline_variance_mismatch", "%s: deadline_variance declared %r built %r" % (gname, g["deadline_variance"], dv)))
                if any(v[0].startswith("load_job_graph.node_set") or v[0].startswith("load_job_graph.edge") for v in gd):
                    continue
                # ---- the invocations the loader populated
                mine = sorted((tg for tg in wl.task_graphs.values() if tg.job_graph is jg), key=lambda tg: min(t.timestamp for t in tg.get_nodes()))
                times = [_us(tg.release_time) for tg in mine]
                pol = jg.release_policy
                eff = dict(exp)
                if "num_invocations_override" in exp and pol is not None and pol.policy_type.name == KIND[exp["kind"]] and pol.num_invocations == exp["num_invocations_override"]:
                    eff["num_invocations"] = exp["num_invocations_override"]
                out.extend(diff_release_times(gname, eff, horizon, times, prefix="loader.release_times"))
                slo_flagged = any(v[0].startswith("load_job_graph.slo_leaks") for v in gd)
                for k, tg in enumerate(mine):
                    td = diff_task_graph(gname, tg, jg, "%s@%d" % (gname, k), k, times[k], node_spec, edges, variance_options, bounds)
                    if slo_flagged and any(v[0].endswith(".deadline_outside_variance") or v[0].startswith("fuzz.rounding") for v in td):
                        leaked = {j.name: ((-1 if j.slo.is_invalid() else _us(j.slo)), node_spec[j.name][1]) for j in jg.get_nodes()}
                        td2 = diff_task_graph(gname, tg, jg, "%s@%d" % (gname, k), k, times[k], leaked, edges, variance_options, bounds)
                        if not any(v[0].endswith(".deadline_outside_variance") for v in td2):
                            td = [v for v in td if not (v[0].endswith(".deadline_outside_variance") or v[0].startswith("fuzz.rounding"))]
                            td.append(("load_job_graph.slo_leaks_to_later_nodes.deadline", "%s/%s: the deadline is computed from the leaked SLOs %r instead of the declared per-node values %r" % (gname, tg.name, leaked, node_spec)))
                            td.extend(v for v in td2 if v[0].startswith("fuzz.rounding"))
                    out.extend(td)
                all_tgs.extend(mine)
                _called("JobGraph.generate_task_graphs")
                _called("JobGraph._generate_task_graph", len(mine))
                _called("ReleasePolicy.get_release_times")
                if exp["kind"] == "closed_loop" and not any(v[0].startswith("loader.release_times") for v in out):
                    rng = random.Random(seed)
                    history = inp.get("history") or [rng.randrange(8) for _ in range(12)]
                    cl = _drive_closed_loop(gname, wl, jg, gname, eff, mine, node_spec, edges, variance_options, bounds, history, exp["start"])
                    if slo_flagged:
                        cl = [v for v in cl if not (v[0].endswith(".deadline_outside_variance") or v[0].startswith("fuzz.rounding"))]
                    out.extend(cl)
        out.extend(diff_freshness("workload", all_tgs))
        return out
    finally:
        shutil.rmtree(d, ignore_errors=True)


def chk_workers_file(inp):
    _reseed(inp.get("seed", 0))
    desc, flagd, fmt = inp["desc"], inp.get("flags"), inp.get("fmt", "yaml")
    out = []
    d, path = _write(desc, fmt)
    try:
        F = make_flags(flagd)
        _called("WorkerLoader.__init__")
        _called("WorkerLoader.__create_worker_pools")
        try:
            loader = WorkerLoader(path, _flags=F) if F is not None else WorkerLoader(path)
            pools = list(loader.get_worker_pools().worker_pools)
        except Exception as e:  # noqa
            return [("worker_loader.crash." + type(e).__name__, "WorkerLoader on %r flags %r: %s" % (desc, flagd, traceback.format_exc()[-600:]))]
        if [p.name for p in pools] != [p["name"] for p in desc]:
            return [("worker_loader.pool_set_mismatch", "declared pools %r built %r" % ([p["name"] for p in desc], [p.name for p in pools]))]
        for pd, pool in zip(desc, pools):
            ws = list(pool.workers)
            if [w.name for w in ws] != [w["name"] for w in pd["workers"]]:
                out.append(("worker_loader.worker_set_mismatch", "pool %s: declared workers %r built %r" % (pd["name"], [w["name"] for w in pd["workers"]], [w.name for w in ws])))
                continue
            for wd, w in zip(pd["workers"], ws):
                want = []
                for r in wd["resources"]:
                    parts = r["name"].split(":")
                    want.append((parts[0], parts[1] if len(parts) > 1 else None, r["quantity"]))
                seen = [(r.name, r.id, q) for r, q in w.resources.resources]
                declared_ids = {x[1] for x in want if x[1] is not None}
                rest = list(seen)
                ok = len(seen) == len(want)
                for nm, rid, q in want:
                    hit = None
                    for s in rest:
                        if s[0] == nm and s[2] == q and ((rid is not None and s[1] == rid) or (rid is None and s[1] != "any" and s[1] not in declared_ids)):
                            hit = s
                            break
                    if hit is None:
                        ok = False
                        break
                    rest.remove(hit)
                if not ok or rest:
                    out.append(("worker_loader.resources_mismatch", "pool %s worker %s: declared (name,id,quantity) %r built %r" % (pd["name"], wd["name"], want, seen)))
                anon = [s[1] for s in seen if s[1] not in declared_ids]
                if len(set(anon)) != len(anon):
                    out.append(("worker_loader.anonymous_resource_ids_collide", "pool %s worker %s: %r" % (pd["name"], wd["name"], seen)))
        return out
    finally:
        shutil.rmtree(d, ignore_errors=True)


def _mk_policy(p):
    kind = p["kind"]
    st = EventTime(p["start"], US)
    if kind == "fixed":
        return JobGraph.ReleasePolicy.fixed(period=EventTime(p["period"], US), num_invocations=p["num_invocations"], start=st, rng_seed=p.get("rng_seed"))
    if kind == "periodic":
        return JobGraph.ReleasePolicy.periodic(period=EventTime(p["period"], US), start=st, rng_seed=p.get("rng_seed"))
    if kind == "poisson":
        return JobGraph.ReleasePolicy.poisson(rate=p["rate"], num_invocations=p["num_invocations"], start=st, rng_seed=p.get("rng_seed"))
    if kind == "gamma":
        return JobGraph.ReleasePolicy.gamma(rate=p["rate"], coefficient=p["coefficient"], num_invocations=p["num_invocations"], start=st, rng_seed=p.get("rng_seed"))
    if kind == "closed_loop":
        return JobGraph.ReleasePolicy.closed_loop(concurrency=p["concurrency"], num_invocations=p["num_invocations"], start=st)
    raise ValueError(kind)


def chk_release_times(inp):
    _reseed(inp.get("seed", 0))
    p = inp["policy"]
    horizon = inp.get("horizon", MAXSIZE)
    _called("ReleasePolicy.get_release_times")
    try:
        pol = _mk_policy(p)
        ts = pol.get_release_times(EventTime(horizon, US))
        times = [_us(t) for t in ts]
    except Exception as e:  # noqa
        return [("release_times.crash." + type(e).__name__, "policy %r horizon %r: %s" % (p, horizon, traceback.format_exc()[-500:]))]
    out = diff_release_times("policy %r" % (p,), p, horizon, times)
    if any(not isinstance(t, EventTime) for t in ts):
        out.append(("release_times.not_event_times", "policy %r: %r" % (p, ts)))
    return out


def _mk_job_graph(nodes, edges, policy, variance, name="J"):
    """nodes: [(name, slo or -1, [runtimes])]"""
    jobs = {}
    for nm, slo, rts in nodes:
        strategies = [ExecutionStrategy(resources=Resources(resource_vector={Resource(name="Slot", _id="any"): 1}), batch_size=1, runtime=EventTime(r, US)) for r in rts]
        jobs[nm] = Job(name=nm, profile=WorkProfile(name=nm + "_profile", execution_strategies=ExecutionStrategies(strategies)),
                       slo=EventTime(slo, US) if slo >= 0 else EventTime.invalid())
    mapping = {jobs[nm]: [jobs[b] for a, b in edges if a == nm] for nm, _, _ in nodes}
    return JobGraph(name=name, jobs=mapping, release_policy=policy, deadline_variance=tuple(variance) if variance is not None else None)


def chk_closed_loop(inp):
    seed = inp.get("seed", 0)
    _reseed(seed)
    c, n, start = inp["concurrency"], inp["num_invocations"], inp.get("start", 0)
    nodes, edges = inp["nodes"], [tuple(e) for e in inp["edges"]]
    flagd = inp.get("flags")
    F = make_flags(flagd)
    exp = {"kind": "closed_loop", "concurrency": c, "num_invocations": n, "start": start}
    try:
        jg = _mk_job_graph(nodes, edges, _mk_policy(exp), inp.get("variance"))
        wl = Workload.from_job_graphs({"J": jg}, _flags=F)
        _called("Workload.populate_task_graphs")
        _called("JobGraph.generate_task_graphs")
        wl.populate_task_graphs(EventTime(MAXSIZE, US))
        initial = sorted(wl.task_graphs.values(), key=lambda tg: min(t.timestamp for t in tg.get_nodes()))
        times = [_us(tg.release_time) for tg in initial]
        out = diff_release_times("J", exp, MAXSIZE, times)
        if out:
            return out
        node_spec = {nm: (slo, max(rts) if rts else 0) for nm, slo, rts in nodes}
        fl = flagd or {}
        bounds = (fl.get("min_deadline", 0), fl.get("max_deadline", MAXSIZE)) if flagd is not None else (0, MAXSIZE)
        if inp.get("variance") is not None:
            vo = [tuple(inp["variance"])]
        elif flagd is not None:
            vo = [(fl.get("min_deadline_variance", 0), fl.get("max_deadline_variance", 20))]
        else:
            vo = [(0, 0)]
        for k, tg in enumerate(initial):
            out.extend(diff_task_graph("J", tg, jg, "J@%d" % k, k, times[k], node_spec, edges, vo, bounds))
        out.extend(_drive_closed_loop("J", wl, jg, "J", exp, initial, node_spec, edges, vo, bounds, inp["history"], start))
        return out
    except Exception as e:  # noqa
        return [("closed_loop.crash." + type(e).__name__, "closed loop %r: %s" % (inp, traceback.format_exc()[-600:]))]


def chk_task_graphs(inp):
    seed = inp.get("seed", 0)
    _reseed(seed)
    nodes, edges = inp["nodes"], [tuple(e) for e in inp["edges"]]
    flagd, variance = inp.get("flags"), inp.get("variance")
    F = make_flags(flagd)
    fl = flagd or {}
    bounds = (fl.get("min_deadline", 0), fl.get("max_deadline", MAXSIZE)) if flagd is not None else (0, MAXSIZE)
    if variance is not None:
        vo = [tuple(variance)]
    elif flagd is not None:
        vo = [(fl.get("min_deadline_variance", 0), fl.get("max_deadline_variance", 20))]
    else:
        vo = [(0, 0)]
    node_spec = {nm: (slo, max(rts) if rts else 0) for nm, slo, rts in nodes}
    exp = {"kind": "fixed", "period": inp.get("period", 7), "num_invocations": inp.get("num_invocations", 3), "start": inp.get("start", 0)}
    out = []
    try:
        jg = _mk_job_graph(nodes, edges, _mk_policy(exp), variance)
        _called("JobGraph.generate_task_graphs")
        _called("JobGraph._generate_task_graph", exp["num_invocations"])
        tgs = jg.generate_task_graphs(EventTime(MAXSIZE, US), _flags=F)
        if sorted(tgs.keys()) != sorted("J@%d" % k for k in range(exp["num_invocations"])):
            out.append(("generate_task_graphs.names_mismatch", "fixed N=%d: task graph names %r" % (exp["num_invocations"], sorted(tgs.keys()))))
            return out
        ordered = [tgs["J@%d" % k] for k in range(exp["num_invocations"])]
        times = [_us(tg.release_time) for tg in ordered]
        out.extend(diff_release_times("J", exp, MAXSIZE, times, prefix="generate_task_graphs.release_times"))
        for k, tg in enumerate(ordered):
            if tgs["J@%d" % k].name != "J@%d" % k:
                out.append(("generate_task_graphs.key_name_mismatch", "key J@%d holds %s" % (k, tg.name)))
            out.extend(diff_task_graph("J", tg, jg, "J@%d" % k, k, exp["start"] + k * exp["period"], node_spec, edges, vo, bounds))
        # the private generator, called directly the way get_next_task_graph / the loaders do
        extra = []
        for k, rel in ((7, inp.get("release", 5)), (8, inp.get("release", 5) + 1)):
            _called("JobGraph._generate_task_graph")
            tg = jg._generate_task_graph(release_time=EventTime(rel, US), task_graph_name="J@%d" % k, timestamp=k, _flags=F)
            out.extend(diff_task_graph("J", tg, jg, "J@%d" % k, k, rel, node_spec, edges, vo, bounds))
            extra.append(tg)
        out.extend(diff_freshness("J", ordered + extra))
        return out
    except Exception as e:  # noqa
        return [("generate_task_graph.crash." + type(e).__name__, "task graphs %r: %s" % (inp, traceback.format_exc()[-600:]))]


def chk_fuzz(inp):
    _reseed(inp.get("seed", 0))
    t, variance, bounds = inp["t"], tuple(inp["variance"]), tuple(inp["bounds"])
    _called("EventTime.fuzz")
    et = EventTime(t, US)
    r = et.fuzz(variance, bounds)
    if r.unit != et.unit:
        return [("fuzz.unit_changed", "EventTime(%d us).fuzz(%r, %r) returned unit %r" % (t, variance, bounds, r.unit))]
    v, b, lo, hi = fuzz_verdict(lambda base: r.time - base, [t], variance, bounds)
    if v == "ok":
        return []
    txt = "EventTime(%d, US).fuzz(variance=%r, bounds=%r) [rng seed %r] = %d us; the stretch must lie in [%s, %s] us, i.e. the result in [%s, %s]; observed stretch %d us" % (t, variance, bounds, inp.get("seed", 0), r.time, float(lo), float(hi), float(t + lo), float(t + hi), r.time - t)
    if v == "round_hi":
        return [("fuzz.rounding_exceeds_variance_bound", txt + " -- exceeds the upper bound by %s us (round())" % float(r.time - t - hi))]
    if v == "round_lo":
        return [("fuzz.rounding_exceeds_variance_bound.lower", txt + " -- below the lower bound by %s us (round())" % float(lo - (r.time - t)))]
    return [("fuzz.outside_variance", txt)]


FAMILIES = {"P": chk_profile, "J": chk_load_job_graph, "RP": chk_release_policy, "W": chk_workload_file,
            "K": chk_workers_file, "RT": chk_release_times, "CL": chk_closed_loop, "TG": chk_task_graphs, "FZ": chk_fuzz}
'''

REPLAY_TAIL = r'''

if __name__ == "__main__":
    diffs = FAMILIES[FAMILY](INPUT)
    print("family", FAMILY, "input", INPUT)
    for vid, what in diffs:
        print("VIOLATION", vid, "::", what)
    if any(vid == VID for vid, _ in diffs):
        print("REPRODUCED:", VID)
        sys.exit(1)
    print("not reproduced:", VID)
    sys.exit(0)
'''


G = {}


def _worker(job):
    family, inp = job
    G["CALLS"].clear()
    G["OBS"].clear()
    diffs = G["FAMILIES"][family](inp)
    return diffs, dict(G["CALLS"]), {k: dict(v) for k, v in G["OBS"].items()}


def replay_for(family, inp, vid):
    return SHARED_SRC + "\nFAMILY = %r\nINPUT = %r\nVID = %r\n" % (family, inp, vid) + REPLAY_TAIL


# ====================================================================== enumeration (inputs)
def dags(k):
    """all DAGs on n0..n(k-1) with edges i->j, i<j"""
    pairs = [(i, j) for i in range(k) for j in range(i + 1, k)]
    for mask in range(1 << len(pairs)):
        yield [("n%d" % a, "n%d" % b) for b_, (a, b) in enumerate(pairs) if mask >> b_ & 1]


PROFILES = [
    {"name": "PA", "execution_strategies": [{"batch_size": 1, "runtime": 20, "resource_requirements": {"GPU:any": 1}}]},
    {"name": "PB",
     "loading_strategies": [{"runtime": 5, "resource_requirements": {"RAM:any": 4}}],
     "execution_strategies": [{"batch_size": 2, "runtime": 30, "resource_requirements": {"CPU:any": 2, "GPU:g1": 1}},
                              {"runtime": 50, "resource_requirements": {"CPU:c7": 1}}]},
    {"name": "PC", "execution_strategies": [{"runtime": 13}]},
]
SLOS = [100, 37, 250, 64]


def graph_repr(k, edges, order, fields):
    """fields: per node dict of optional fields; order: listing order of the nodes"""
    out = []
    for i in order:
        n = {"name": "n%d" % i}
        n.update(fields[i])
        ch = [b for a, b in edges if a == "n%d" % i]
        if ch:
            n["children"] = ch
        out.append(n)
    return out


def policy_variants(rng, thorough):
    v = [
        {"release_policy": "fixed", "period": 10, "invocations": 3},
        {"release_policy": "fixed", "period": 4, "invocations": 1, "start": 6},
        {"release_policy": "poisson", "rate": 0.05, "invocations": 4, "start": 3},
        {"release_policy": "poisson", "rate": 2.0, "invocations": 2},
        {"release_policy": "gamma", "rate": 0.05, "coefficient": 2.0, "invocations": 4},
        {"release_policy": "gamma", "rate": 0.5, "coefficient": 0.5, "invocations": 3, "start": 9},
        {"release_policy": "closed_loop", "concurrency": 2, "invocations": 4, "start": 2},
        {"release_policy": "closed_loop", "concurrency": 3, "invocations": 2},
        {"release_policy": "periodic", "period": 10, "start": 5},
        {"release_policy": "periodic", "period": 7},
    ]
    if thorough:
        v += [
            {"release_policy": "fixed", "period": 1, "invocations": 4, "start": 1},
            {"release_policy": "fixed", "period": 333333, "invocations": 5, "start": 1},
            {"release_policy": "poisson", "rate": 0.5, "invocations": 1, "start": 3},
            {"release_policy": "closed_loop", "concurrency": 1, "invocations": 3},
            {"release_policy": "closed_loop", "concurrency": 4, "invocations": 4, "start": 1},
            {"release_policy": "periodic", "period": 1, "start": 30},
        ]
    return v


FLAG_VARIANTS = [
    None,
    {},
    {"override_slo": 77},
    {"override_arrival_period": 6},
    {"override_num_invocation": 2},
    {"override_poisson_arrival_rate": 0.25, "override_gamma_coefficient": 3.0},
    {"replication_factor": 2},
    {"replication_factor": 3, "unique_work_profiles": True, "override_num_invocation": 2, "override_arrival_period": 3},
    {"min_deadline": 5, "max_deadline": 8},
    {"min_deadline_variance": 10, "max_deadline_variance": 50},
    {"override_slo": 40, "replication_factor": 2, "max_deadline": 3},
]


def main():
    args = parse_args(lambda ap: ap.add_argument("--jobs", type=int, default=6, help="worker processes"))
    quiet_logging()
    thorough = args.tier == "thorough"
    random.seed(args.seed)
    G["__name__"] = "c19_shared"
    exec(compile(SHARED_SRC, "<c19-shared>", "exec"), G)
    R = Result(
        args,
        rule="one case = one description/parameter set handed to the real loader/policy/generator and compared with the independent re-reading; non-trivial = not the all-defaults single-node case (>= 1 optional field present, or >= 1 edge, or >= 2 invocations, or a non-zero variance/bound, or an override flag)",
        bound="",
    )
    rng = random.Random(args.seed)
    t_start = time.time()
    per_family = {}

    jobs_list = []

    def run(family, inp, key, nontrivial=True):
        jobs_list.append((family, inp, key, nontrivial))

    # ------------------------------------------------------------------ FZ: EventTime.fuzz
    fz_var = [(0, 0), (10, 10), (20, 20), (50, 50), (70, 70), (0, 20), (10, 70), (0, 100)]
    fz_bounds = [(0, sys.maxsize), (5, 8), (0, 3), (2, 2)]
    for var in fz_var:  # equal-variance cases first: deterministic witnesses are recorded first
        for bounds in fz_bounds:
            for t in range(0, 61 if thorough else 41):
                for s in range(3 if var[0] != var[1] else 1):
                    run("FZ", {"t": t, "variance": var, "bounds": bounds, "seed": args.seed + s}, (t, var, bounds, s), nontrivial=t > 0)

    # ------------------------------------------------------------------ P: profiles / strategies / resources
    batch_opts = [None, 3]
    runtime_opts = [None, 11, 0]
    rr_opts = [None, {"GPU:any": 1}, {"GPU:g0": 2}, {"GPU:any": 1, "GPU:g0": 2, "CPU:any": 3}, {}]

    def strat(b, r, rr):
        s = {}
        if b is not None:
            s["batch_size"] = b
        if r is not None:
            s["runtime"] = r
        if rr is not None:
            s["resource_requirements"] = rr
        return s

    singles = [strat(b, r, rr) for b in batch_opts for r in runtime_opts for rr in rr_opts]
    n = 0
    for s in singles:
        for with_load in (False, True):
            p = {"name": "P%d" % n, "execution_strategies": [s]}
            if with_load:
                p["loading_strategies"] = [{"runtime": 4, "resource_requirements": {"RAM:any": 2}}]
            run("P", {"profile": p, "seed": args.seed}, repr(p), nontrivial=bool(s) or with_load)
            n += 1
    pairs = list(itertools.product(range(len(singles)), repeat=2))
    if not thorough:
        pairs = rng.sample(pairs, 150)
    for a, b in pairs:
        p = {"name": "Q", "execution_strategies": [singles[a], dict(singles[b], runtime=(singles[b].get("runtime", 0) + 1))]}
        run("P", {"profile": p, "seed": args.seed}, repr(p))
    run("P", {"profile": {"name": "Empty"}, "seed": args.seed}, "empty", nontrivial=False)

    # ------------------------------------------------------------------ J: load_job_graph
    cond_opts = [{}, {"conditional": True}, {"conditional": False}]
    prob_opts = [{}, {"probability": 0.5}]
    term_opts = [{}, {"terminal": True}, {"terminal": False}]
    prof_opts = [{}, {"work_profile": "PA"}, {"work_profile": "PB"}, {"work_profile": "PC"}]
    per_node_all = [dict(**a, **b, **c, **d) for a in cond_opts for b in prob_opts for c in term_opts for d in prof_opts]
    max_k = 4
    for k in range(1, max_k + 1):
        for edges in dags(k):
            orders = [list(range(k))] if k == 1 else [list(range(k)), list(range(k - 1, -1, -1))]
            for order in orders:
                for slo_mask in range(1 << k):
                    for ovr in (-1, 77):
                        if k == 4 and ovr == 77 and order[0] != 0 and not thorough:
                            continue
                        if k <= 2 and ovr == -1:
                            if k == 1:
                                combos = [(f,) for f in per_node_all]
                            else:
                                combos = list(itertools.product(per_node_all, repeat=2))
                                if not thorough:
                                    combos = rng.sample(combos, 40)
                        else:
                            combos = [tuple(rng.choice(per_node_all) for _ in range(k)) for _ in range(3 if thorough else 1)]
                        combos = [tuple({} for _ in range(k))] + [c for c in combos if any(c)]
                        for combo in combos:
                            fields = []
                            for i in range(k):
                                f = dict(combo[i])
                                if slo_mask >> i & 1:
                                    f["slo"] = SLOS[i]
                                fields.append(f)
                            gr = graph_repr(k, edges, order, fields)
                            run("J", {"graph": gr, "profiles": PROFILES, "override_slo": ovr, "seed": args.seed}, (repr(gr), ovr),
                                nontrivial=(k > 1 or any(fields) or ovr > 0))

    # ------------------------------------------------------------------ RP: release-policy factory
    ov_opts = [{}, {"override_arrival_period": 7}, {"override_num_invocation": 2},
               {"override_poisson_arrival_rate": 0.25}, {"override_gamma_coefficient": 3.0},
               {"override_arrival_period": 7, "override_num_invocation": 2, "override_poisson_arrival_rate": 0.25, "override_gamma_coefficient": 3.0}]
    starts = [None, 0, 5]
    jobs = []
    for st in starts:
        base = {} if st is None else {"start": st}
        for per in (1, 10):
            jobs.append(dict(base, name="g", release_policy="periodic", period=per))
            for inv in (0, 1, 3):
                jobs.append(dict(base, name="g", release_policy="fixed", period=per, invocations=inv))
        for rate in (0.5, 2.0):
            for inv in (0, 1, 3):
                jobs.append(dict(base, name="g", release_policy="poisson", rate=rate, invocations=inv))
                for coef in (0.5, 2.0):
                    jobs.append(dict(base, name="g", release_policy="gamma", rate=rate, coefficient=coef, invocations=inv))
        for conc in (1, 2, 4):
            for inv in (1, 3):
                jobs.append(dict(base, name="g", release_policy="closed_loop", concurrency=conc, invocations=inv))
    for job in jobs:
        for ov in ov_opts:
            run("RP", {"job": job, "ov": ov, "seed": args.seed}, (repr(job), repr(ov)))

    # ------------------------------------------------------------------ W: whole workload files through WorkloadLoader
    pvars = policy_variants(rng, thorough)
    wk = 4 if thorough else 3
    w_count = 0
    for k in range(1, wk + 1):
        all_dags = list(dags(k))
        for edges in all_dags:
            slo_masks = list(range(1 << k))
            if k == 4:
                slo_masks = rng.sample(slo_masks, 8 if thorough else 4)
            for slo_mask in slo_masks:
                for pv in (pvars if (thorough or k <= 2) else rng.sample(pvars, 6)):
                    fvs = FLAG_VARIANTS if (k <= 2 or (thorough and k == 3)) else [FLAG_VARIANTS[0], FLAG_VARIANTS[1]] + rng.sample(FLAG_VARIANTS[2:], 3 if thorough else 2)
                    for fv in fvs:
                        periodic = pv["release_policy"] == "periodic"
                        if periodic:
                            if fv is None:
                                continue  # no way to declare a horizon without flags (sys.maxsize => unbounded)
                            fv = dict(fv, loop_timeout=rng.choice([26, 40, 5]))
                        fields = []
                        for i in range(k):
                            f = {"work_profile": rng.choice(["PA", "PB", "PC"])}
                            if slo_mask >> i & 1:
                                f["slo"] = SLOS[i]
                            if rng.random() < 0.3:
                                f["conditional"] = True
                            if rng.random() < 0.3:
                                f["probability"] = 0.5
                            if rng.random() < 0.2:
                                f["terminal"] = True
                            fields.append(f)
                        order = list(range(k)) if rng.random() < 0.5 else list(range(k - 1, -1, -1))
                        gd = dict(pv, name="G0", graph=graph_repr(k, edges, order, fields))
                        dv = rng.choice([None, None, [0, 0], [10, 20], [20, 20], [0, 70], [50, 50]])
                        if dv is not None:
                            gd["deadline_variance"] = dv
                        graphs = [gd]
                        if rng.random() < 0.25:
                            graphs.append({"name": "H1", "graph": [{"name": "x", "work_profile": "PC", "children": ["y"]}, {"name": "y", "work_profile": "PA"}],
                                           "release_policy": "fixed", "period": 3, "invocations": 2})
                        desc = {"graphs": graphs, "profiles": PROFILES}
                        inp = {"desc": desc, "flags": fv, "fmt": "json" if rng.random() < 0.3 else "yaml", "seed": args.seed + w_count}
                        w_count += 1
                        run("W", inp, repr((desc, fv, inp["fmt"])))
    # a node without a work_profile / flags that break generation: observations only
    np_desc = {"graphs": [{"name": "G0", "graph": [{"name": "a", "work_profile": "PA", "children": ["b"]}, {"name": "b"}], "release_policy": "fixed", "period": 1, "invocations": 1}], "profiles": PROFILES}
    run("W", {"desc": np_desc, "flags": None, "fmt": "yaml", "seed": args.seed, "expect_no_strategy_crash": True}, "no-profile-node")
    bp_desc = {"graphs": [{"name": "G0", "graph": [{"name": "a", "work_profile": "PA"}], "release_policy": "fixed", "period": 1, "invocations": 1}], "profiles": PROFILES}
    run("W", {"desc": bp_desc, "flags": {"use_branch_predicated_deadlines": True}, "fmt": "yaml", "seed": args.seed}, "branch-predicated")

    # ------------------------------------------------------------------ K: worker descriptions
    res_menu = [{"name": "Slot", "quantity": 3}, {"name": "GPU:g0", "quantity": 1}, {"name": "GPU:g1", "quantity": 2}, {"name": "CPU:any", "quantity": 4}, {"name": "Slot", "quantity": 5}]
    res_sets = [[]] + [[r] for r in res_menu] + [list(c) for c in itertools.combinations(res_menu, 2)]
    k_count = 0
    for rs in res_sets:
        for fv in (None, {}):
            desc = [{"name": "Pool_1", "workers": [{"name": "W_1_1", "resources": rs}]}]
            run("K", {"desc": desc, "flags": fv, "fmt": "yaml", "seed": args.seed}, repr((desc, fv)), nontrivial=bool(rs))
            k_count += 1
    for _ in range(400 if thorough else 120):
        npools = rng.choice([1, 2, 3])
        desc = []
        for pi in range(npools):
            ws = []
            for wi in range(rng.choice([0, 1, 2, 3]) if pi else rng.choice([1, 2])):
                ws.append({"name": "W_%d_%d" % (pi, wi), "resources": rng.choice(res_sets)})
            desc.append({"name": "Pool_%d" % pi, "workers": ws})
        fv = rng.choice([None, {}])
        fmt = rng.choice(["yaml", "yaml", "json"])
        run("K", {"desc": desc, "flags": fv, "fmt": fmt, "seed": args.seed}, repr((desc, fv, fmt)))

    # ------------------------------------------------------------------ RT: get_release_times directly
    for start in (0, 5):
        for per in (0, 1, 3, 10):
            for n_inv in range(0, 6):
                run("RT", {"policy": {"kind": "fixed", "period": per, "num_invocations": n_inv, "start": start}, "seed": args.seed},
                    ("fixed", start, per, n_inv), nontrivial=n_inv >= 2)
        for per in (1, 3, 10):
            for horizon in (0, 1, 4, 5, 6, 8, 10, 15, 30, 31, 35):
                run("RT", {"policy": {"kind": "periodic", "period": per, "start": start}, "horizon": horizon, "seed": args.seed},
                    ("periodic", start, per, horizon), nontrivial=horizon > start + per)
        for rs in range(6 if thorough else 3):
            for rate in (0.05, 0.5, 2.0):
                for n_inv in range(0, 6):
                    run("RT", {"policy": {"kind": "poisson", "rate": rate, "num_invocations": n_inv, "start": start, "rng_seed": args.seed + rs}, "seed": args.seed},
                        ("poisson", start, rate, n_inv, rs), nontrivial=n_inv >= 2)
                    for coef in (0.5, 1.0, 4.0):
                        run("RT", {"policy": {"kind": "gamma", "rate": rate, "coefficient": coef, "num_invocations": n_inv, "start": start, "rng_seed": args.seed + rs}, "seed": args.seed},
                            ("gamma", start, rate, coef, n_inv, rs), nontrivial=n_inv >= 2)
        for conc in range(1, 5):
            for n_inv in range(1, 6):
                run("RT", {"policy": {"kind": "closed_loop", "concurrency": conc, "num_invocations": n_inv, "start": start}, "seed": args.seed},
                    ("closed_loop", start, conc, n_inv), nontrivial=n_inv >= 2)
    if thorough:
        for per, n_inv, start in ((333333, 7, 1), (999999937, 5, 123456789), (1, 200, 0)):
            run("RT", {"policy": {"kind": "fixed", "period": per, "num_invocations": n_inv, "start": start}, "seed": args.seed}, ("fixed", start, per, n_inv))

    # ------------------------------------------------------------------ CL: closed loop, every completion order
    chain2 = {"nodes": [("a", -1, [10]), ("b", -1, [5, 25])], "edges": [("a", "b")]}
    single = {"nodes": [("a", -1, [10])], "edges": []}
    max_c, max_n = (4, 6) if thorough else (3, 5)
    for shape in (single, chain2):
        for conc in range(1, max_c + 1):
            for n_inv in range(1, max_n + 1):
                steps = n_inv
                choices = list(itertools.product(range(min(conc, n_inv)), repeat=min(steps, 5)))
                if len(choices) > (200 if thorough else 30):
                    choices = rng.sample(choices, 200 if thorough else 30)
                for hist in choices:
                    for fv in ((None, {}) if shape is chain2 else (None,)):
                        inp = dict(shape, concurrency=conc, num_invocations=n_inv, start=2, history=list(hist) or [0], flags=fv, variance=[10, 20] if fv is None else None, seed=args.seed)
                        run("CL", inp, (len(shape["nodes"]), conc, n_inv, hist, repr(fv)), nontrivial=n_inv >= 2)

    # ------------------------------------------------------------------ TG: fresh isomorphic copies + deadlines
    variances = [None, (0, 0), (10, 20), (20, 20), (0, 70), (50, 50)]
    tg_flags = [None, {}, {"min_deadline": 5, "max_deadline": 8}, {"min_deadline_variance": 10, "max_deadline_variance": 50}]
    rt_menu = [[1], [10], [13], [25], [5, 25], [13, 7], [0]]
    for k in range(1, 5):
        for edges in dags(k):
            reps = 2 if (thorough or k <= 3) else 1
            for rep in range(reps):
                rts = [rng.choice(rt_menu) for _ in range(k)]
                slo_patterns = [0, (1 << k) - 1, rng.randrange(1 << k)]
                for slo_mask in slo_patterns:
                    nodes = [("n%d" % i, SLOS[i] if slo_mask >> i & 1 else -1, rts[i]) for i in range(k)]
                    if thorough:
                        combos = [(v, f) for v in variances for f in tg_flags]
                    else:
                        combos = [(v, rng.choice(tg_flags)) for v in variances] + [(rng.choice(variances), f) for f in tg_flags]
                    for v, f in combos:
                        inp = {"nodes": nodes, "edges": edges, "variance": list(v) if v is not None else None, "flags": f,
                               "period": rng.choice([0, 7]), "num_invocations": 3, "start": rng.choice([0, 4]), "release": rng.choice([0, 5, 1000]), "seed": args.seed + rep}
                        run("TG", inp, repr(inp), nontrivial=(k > 1 or v not in (None, (0, 0)) or bool(f)))

    # ------------------------------------------------------------------ evaluate (in input order, so witnesses are stable)
    nproc = max(1, min(args.jobs, os.cpu_count() or 1))
    if nproc > 1:
        import multiprocessing

        pool = multiprocessing.get_context("fork").Pool(nproc)
        results = pool.imap(_worker, [(f, i) for f, i, _, _ in jobs_list], chunksize=32)
    else:
        pool = None
        results = (_worker((f, i)) for f, i, _, _ in jobs_list)
    all_obs = {}
    for (family, inp, key, nontrivial), (diffs, calls, obs) in zip(jobs_list, results):
        per_family[family] = per_family.get(family, 0) + 1
        R.case((family, key), nontrivial, sample={"family": family, "input": inp} if per_family[family] == 1 else None)
        for vid, what in diffs:
            R.violation(vid, what, replay_for(family, inp, vid) if vid not in R.violations else None)
        for fn, n_ in calls.items():
            R.called(fn, n_)
        for k_, o in obs.items():
            if k_ in all_obs:
                all_obs[k_]["count"] += o["count"]
            else:
                all_obs[k_] = o
    if pool is not None:
        pool.close()
        pool.join()
    R.extra["observations"] = list(all_obs.values())
    R.extra["cases_per_family"] = per_family
    R.exhaustive = False  # families J(k<=2 in thorough), RP, RT, FZ and the DAG shapes are exhaustive; field combinations on larger graphs are seeded samples
    R.bound = ("job graphs: all %d DAG shapes on <= 4 nodes (J, TG), <= %d nodes through the file loader (W); per-node optional fields exhaustive for 1 node, %s for 2, seeded samples above; "
               "all 2^k slo subsets (8 of 16 sampled per 4-node shape in W); 5 release policies x small parameters (N<=5, period<=10, concurrency<=4) x override flags; %d flag variants; closed-loop histories: concurrency<=%d, N<=%d, %s completion orders; "
               "fuzz: t<=%d us x %d variances x %d bounds; tier=%s seed=%d; %.1fs"
               % (75, wk, "exhaustive" if thorough else "40 sampled combos per shape", len(FLAG_VARIANTS), max_c, max_n, "all/200 sampled" if thorough else "all/30 sampled",
                  60 if thorough else 40, len(fz_var), len(fz_bounds), args.tier, args.seed, time.time() - t_start))
    R.finish()


if __name__ == "__main__":
    main()
