"""pyvc: symbolic path executor over the real /repo source, producing SMT obligations.

One `Run` executes ONE path of one function, steered by a choice prefix; `verify_function`
enumerates all feasible paths by re-execution (loops are cut at invariants, calls are replaced
by callee contracts). Anything outside the modelled subset raises `Reject` -> the function is
reported *undecided*, never proved and never a violation.
"""
import ast
import time as _time

import z3

from . import ty as T
from . import heap as H
from .registry import (
    ANY,
    CLASSES,
    CONTRACTS,
    Contract,
    find_class,
    find_function,
    module_global,
    module_imports,
    resolve_method,
    split_qname,
    class_decorators,
)

import os as _os

FEAS_TIMEOUT_MS = int(_os.environ.get("PYVC_FEAS_MS", "1200"))
FEAS_RLIMIT = int(_os.environ.get("PYVC_FEAS_RLIMIT", "2500000"))
OBL_TIMEOUT_MS = int(_os.environ.get("PYVC_OBL_MS", "15000"))


class Reject(Exception):
    """Function (or construct) outside the modelled subset."""


class PathEnd(Exception):
    pass


class MergeAbort(Exception):
    """a branch cannot be executed under a guard (it forks, exits or allocates): fall back to forking"""


class Return_(Exception):
    def __init__(self, value):
        self.value = value


class Raise_(Exception):
    def __init__(self, exc):
        self.exc = exc


class Break_(Exception):
    pass


class Continue_(Exception):
    pass


# ---------------------------------------------------------------------------------------------
# values
class SV:
    __slots__ = ("ty", "z")

    def __init__(self, ty, z):
        self.ty = ty
        self.z = z

    def __repr__(self):
        return "SV(%s,%s)" % (self.ty, self.z)


class PyTuple:
    def __init__(self, items, is_list=False):
        self.items = list(items)
        self.is_list = is_list


class ClassRef:
    def __init__(self, qname):
        self.qname = qname


class ModuleRef:
    def __init__(self, name):
        self.name = name


class FuncRef:
    def __init__(self, qname):
        self.qname = qname


class BoundMethod:
    def __init__(self, recv, name):
        self.recv = recv
        self.name = name


class Builtin:
    def __init__(self, name):
        self.name = name


class DictView:
    def __init__(self, kind, d):
        self.kind = kind
        self.d = d


class RangeVal:
    def __init__(self, lo, hi):
        self.lo = lo
        self.hi = hi


class EnumerateVal:
    def __init__(self, seq, start):
        self.seq = seq
        self.start = start


class LambdaVal:
    def __init__(self, node, env, run):
        self.node = node
        self.env = env


class EmptyContainer:
    """`set()` / `list()` / `dict()` / `[]` / `{}` before its static type is known (fixed on first store)."""

    def __init__(self, kind):
        self.kind = kind


class ExcVal:
    def __init__(self, name):
        self.name = name


class OpaqueObj:
    """A Python-level object the encoding ignores (logger, flags, rng)."""

    def __init__(self, what):
        self.what = what


TRUE = z3.BoolVal(True)
FALSE = z3.BoolVal(False)


def mk_int(n):
    return SV(T.INT, z3.IntVal(n))


def mk_bool(b):
    return SV(T.BOOL, z3.BoolVal(bool(b)))


NONE_SV = SV(T.NONE, z3.IntVal(0))

BUILTIN_EXCEPTIONS = {
    "ValueError",
    "RuntimeError",
    "KeyError",
    "IndexError",
    "AttributeError",
    "AssertionError",
    "TypeError",
    "NotImplementedError",
    "StopIteration",
    "Exception",
}

LOGGER_NAMES = {"_logger", "logger", "_csv_logger"}


def is_logger_call(node):
    """`<x>._logger.<level>(...)` / `logger.<level>(...)` expression statements."""
    if not (isinstance(node, ast.Expr) and isinstance(node.value, ast.Call)):
        return False
    f = node.value.func
    if not isinstance(f, ast.Attribute):
        return False
    if f.attr not in ("debug", "info", "warning", "error", "critical", "exception", "warn"):
        return False
    r = f.value
    if isinstance(r, ast.Attribute) and r.attr in ("_logger", "logger", "_csv_logger"):
        return True
    if isinstance(r, ast.Name) and r.id in ("logger", "_logger"):
        return True
    return False


# ---------------------------------------------------------------------------------------------
class Ctx:
    """What a contract clause sees."""

    def __init__(self, args, pre, post, res=None, run=None, alloc0=None):
        self.args = args  # name -> SV
        self.pre = pre
        self.post = post
        self.res_sv = res
        self.run = run
        self.alloc0 = alloc0

    def arg(self, n):
        return self.args[n].z

    def has(self, n):
        return n in self.args

    @property
    def res(self):
        return self.res_sv.z if isinstance(self.res_sv, SV) else None

    def f(self, obj, cls, field, when="post"):
        h = self.post if when == "post" else self.pre
        return h.rd(obj, cls, field)[1]

    def old(self, obj, cls, field):
        return self.pre.rd(obj, cls, field)[1]


class LoopCtx:
    def __init__(self, i, seq, env, entry_env, head, kind):
        self.i = i  # z3 Int: number of completed iterations (for-loops)
        self.seq = seq  # description of the iterated snapshot
        self.env = env
        self.entry_env = entry_env
        self.head = head  # Heap at loop entry
        self.kind = kind

    def var(self, n):
        return self.env[resolve_local(n, self.env)].z

    def has(self, n):
        n = resolve_local(n, self.env)
        return n in self.env and isinstance(self.env[n], SV)

    def entry(self, n):
        return self.entry_env[resolve_local(n, self.entry_env)].z


_hq_cache = {}


def has_quantifier(e):
    k = e.get_id()
    r = _hq_cache.get(k)
    if r is not None:
        return r
    todo = [e]
    seen = set()
    r = False
    while todo:
        x = todo.pop()
        i = x.get_id()
        if i in seen:
            continue
        seen.add(i)
        if z3.is_quantifier(x):
            r = True
            break
        todo.extend(x.children())
    _hq_cache[k] = r
    return r


class Fact:
    """An instance of a lemma that is proved elsewhere as an obligation (or a definitional axiom of a
    spec function). Only spec-theory modules mint these; the evidence lists the names used."""

    def __init__(self, name, z):
        self.name = name
        self.z = z


class Step:
    """An intermediate assertion supplied by a proof hook: it is an obligation like any other
    (checked, then available to later obligations on the path)."""

    def __init__(self, name, z):
        self.name = name
        self.z = z


class Obligation:
    def __init__(self, fn, name, site, pc, goal, key, kind="post"):
        self.fn = fn
        self.name = name
        self.site = site
        self.pc = list(pc)
        self.goal = goal
        self.key = key
        self.kind = kind
        self.status = None
        self.backend = None
        self.seconds = 0.0
        self.model = None
        self.probes = {}


# ---------------------------------------------------------------------------------------------
# ---- robustness to renamed locals -------------------------------------------------------------------------------
# Contracts name the locals of the function under proof (loop invariants, frames of local containers, static types of
# locals).  A pure rename of a local is a harmless edit; to keep the contracts valid across it, the names of the locals
# of every function under contract are recorded in binding order on the unchanged tree (baseline/locals.json).  When
# the current source binds the same NUMBER of locals in the same order but under other names, the recorded names are
# resolved to the current ones (LOCAL_ALIASES: recorded name -> current name) for the function being verified.
LOCAL_ALIASES = {}


def binding_order(fdef):
    """binding sites of the function in source order (parameters first): [name, what is bound] per site; a name bound at
    several sites (re-assigned, or reused as the variable of a second loop) appears once per site.  `what` is the source
    text of the bound expression (for a loop variable: of the iterated expression)"""
    out = []

    def add(n, what):
        out.append([n, what])

    for a in fdef.args.posonlyargs + fdef.args.args + fdef.args.kwonlyargs:
        add(a.arg, "<parameter>")

    def targets(t, what):
        if isinstance(t, ast.Name):
            add(t.id, what)
        elif isinstance(t, (ast.Tuple, ast.List)):
            for k, e in enumerate(t.elts):
                targets(e, "%s[%d]" % (what, k))
        elif isinstance(t, ast.Starred):
            targets(t.value, what)

    def src(e):
        try:
            return ast.unparse(e)
        except Exception:
            return "?"

    class V(ast.NodeVisitor):
        def visit_FunctionDef(self, n):
            if n is fdef:
                self.generic_visit(n)
            else:
                add(n.name, "def")

        def visit_Lambda(self, n):
            pass

        def visit_ListComp(self, n):
            pass

        visit_SetComp = visit_DictComp = visit_GeneratorExp = visit_ListComp

        def visit_Assign(self, n):
            self.visit(n.value)
            for t in n.targets:
                targets(t, src(n.value))

        def visit_AugAssign(self, n):
            self.visit(n.value)
            targets(n.target, "aug " + src(n.value))

        def visit_AnnAssign(self, n):
            if n.value is not None:
                self.visit(n.value)
            targets(n.target, src(n.value) if n.value is not None else "")

        def visit_For(self, n):
            self.visit(n.iter)
            targets(n.target, "for " + src(n.iter))
            for st in n.body + n.orelse:
                self.visit(st)

        def visit_With(self, n):
            for it in n.items:
                self.visit(it.context_expr)
                if it.optional_vars is not None:
                    targets(it.optional_vars, "with " + src(it.context_expr))
            for st in n.body:
                self.visit(st)

        def visit_NamedExpr(self, n):
            self.visit(n.value)
            targets(n.target, src(n.value))

    V().visit(fdef)
    return out


def _subst_names(text, m):
    if not m:
        return text
    import re

    return re.sub(r"(?<![\w.])(%s)(?!\w)" % "|".join(re.escape(k) for k in m), lambda mo: m[mo.group(1)], text)


def set_local_aliases(qname, fdef, recorded):
    """recorded: the binding sites on the unchanged tree (or None). Fills LOCAL_ALIASES (recorded name -> current name) for
    locals that were RENAMED: binding sites are aligned (difflib), and inside a block that differs a recorded site is
    paired with the current site that binds the same expression (modulo the renames found so far), else by position."""
    LOCAL_ALIASES.clear()
    if not recorded:
        return
    import difflib

    rec = [tuple(x) if isinstance(x, (list, tuple)) else (x, "") for x in recorded]
    cur = [tuple(x) for x in binding_order(fdef)]
    if [r[0] for r in rec] == [c[0] for c in cur]:
        return
    cur_names = [c[0] for c in cur]
    rec_names = [r[0] for r in rec]
    pairs = {}  # old name -> [new names]
    sm = difflib.SequenceMatcher(a=rec_names, b=cur_names, autojunk=False)
    blocks = [(i1, i2, j1, j2) for tag, i1, i2, j1, j2 in sm.get_opcodes() if tag == "replace"]
    changed = True
    known = {}
    used = set()
    while changed:
        changed = False
        for i1, i2, j1, j2 in blocks:
            for i in range(i1, i2):
                if (i,) in used:
                    continue
                want = _subst_names(rec[i][1], known)
                for j in range(j1, j2):
                    if ("n", j) in used:
                        continue
                    if cur[j][1] == want and cur[j][1] not in ("", "?"):
                        used.add((i,))
                        used.add(("n", j))
                        pairs.setdefault(rec[i][0], []).append(cur[j][0])
                        if rec[i][0] != cur[j][0] and rec[i][0] not in known:
                            known[rec[i][0]] = cur[j][0]
                        changed = True
                        break
    for i1, i2, j1, j2 in blocks:
        olds = [i for i in range(i1, i2) if (i,) not in used]
        news = [j for j in range(j1, j2) if ("n", j) not in used]
        if len(olds) == len(news):
            for i, j in zip(olds, news):
                pairs.setdefault(rec[i][0], []).append(cur[j][0])
    m = {}
    for old, news in pairs.items():
        best = max(set(news), key=news.count)
        if best != old and best not in rec_names:
            m[old] = best
    LOCAL_ALIASES.update(m)


def alias_text(text):
    """a statement prefix written with the recorded names of locals, re-written with their current names"""
    if not LOCAL_ALIASES:
        return text
    import re

    return re.sub(r"(?<![\w.])(%s)(?!\w)" % "|".join(re.escape(k) for k in LOCAL_ALIASES), lambda m: LOCAL_ALIASES[m.group(1)], text)


def resolve_local(name, env):
    """a recorded name that is bound in this scope right now keeps its meaning; otherwise its renamed counterpart"""
    if isinstance(env, dict) and dict.__contains__(env, name):
        return name
    return LOCAL_ALIASES.get(name, name)


class AliasEnv(dict):
    """the top-level frame's locals; lookups by a recorded (pre-rename) name resolve to the current name"""

    def _k(self, k):
        if dict.__contains__(self, k):
            return k
        return LOCAL_ALIASES.get(k, k)

    def __getitem__(self, k):
        return dict.__getitem__(self, self._k(k))

    def get(self, k, default=None):
        return dict.get(self, self._k(k), default)

    def __contains__(self, k):
        return dict.__contains__(self, self._k(k))


class Frame:
    def __init__(self, qname, fdef, cls, env, modname):
        self.qname = qname
        self.fdef = fdef
        self.cls = cls
        self.env = env
        self.modname = modname
        self.loop_ordinals = {}
        k = 0
        for node in _walk_no_nested(fdef):
            if isinstance(node, (ast.For, ast.While)):
                self.loop_ordinals[id(node)] = k
                k += 1


def _walk_no_nested(fdef):
    """pre-order (source order) walk of a function body, not descending into nested defs"""
    todo = list(reversed(fdef.body))
    while todo:
        n = todo.pop()
        yield n
        kids = [c for c in ast.iter_child_nodes(n) if not isinstance(c, (ast.FunctionDef, ast.Lambda, ast.ClassDef))]
        todo.extend(reversed(kids))


def assigned_names(nodes):
    out = set()

    def tgt(t):
        if isinstance(t, ast.Name):
            out.add(t.id)
        elif isinstance(t, (ast.Tuple, ast.List)):
            for e in t.elts:
                tgt(e)
        elif isinstance(t, ast.Starred):
            tgt(t.value)

    for root in nodes:
        for n in ast.walk(root):
            if isinstance(n, ast.Assign):
                for t in n.targets:
                    tgt(t)
            elif isinstance(n, (ast.AugAssign, ast.AnnAssign)):
                tgt(n.target)
            elif isinstance(n, ast.For):
                tgt(n.target)
            elif isinstance(n, ast.NamedExpr):
                tgt(n.target)
    return out


class Run:
    def __init__(self, verifier, prefix):
        self.v = verifier
        self.prefix = list(prefix)
        self.taken = []
        self.alternatives = []
        # feasibility checks are bounded by a deterministic resource limit (same verdicts under load);
        # the wall-clock timeout is only a backstop
        self.solver = z3.Solver()
        self.solver.set("rlimit", FEAS_RLIMIT)
        self.solver.set("timeout", FEAS_TIMEOUT_MS)
        self.solver_qf = z3.Solver()  # quantifier-free part of the path condition: fast, sound for pruning
        self.solver_qf.set("rlimit", 5 * FEAS_RLIMIT)
        self.solver_qf.set("timeout", FEAS_TIMEOUT_MS)
        self.pc = []
        self.heap = H.Heap()
        self.alloc0 = z3.Int("$alloc0")
        self.nalloc = 0
        self.assume(self.alloc0 > 0)
        self.depth = 0
        self.frames = []
        self.written = set()
        self.dropped = []
        self.notes = []
        self.ghost = {}

    # ---- path condition ------------------------------------------------------------------
    def assume(self, b):
        if isinstance(b, bool):
            b = z3.BoolVal(b)
        if z3.is_true(b):
            return
        q = getattr(self, "qctx", None)
        if q is not None:
            pats = [t_ for t_ in getattr(self, "_q_terms", []) if _mentions(b, t_)][:1]
            el = getattr(self, "_q_elem", None)
            if isinstance(el, list):
                # the pair of compared elements triggers every fact about the pair (also those that mention it
                # only through intermediate results)
                pats.append(z3.MultiPattern(*el))
            elif el is not None and _mentions(b, el):
                pats.append(el)  # alternative trigger: the iterated element itself
            b = z3.ForAll(q[0] if isinstance(q[0], list) else [q[0]], z3.Implies(q[1], b), patterns=pats)
            self._q_pending.append(b)
        self.pc.append(b)
        self.solver.add(b)
        if not has_quantifier(b):
            self.solver_qf.add(b)

    def feasible(self, cond):
        # paths are enumerated by re-execution: the same query recurs on every path that shares the
        # prefix; fresh names are deterministic, so (choices so far, query text) identifies it
        key = (tuple(self.taken), len(self.pc), cond.sexpr())
        hit = self.v.feas_cache.get(key)
        if hit is not None:
            return hit
        if has_quantifier(cond):
            r = self.solver.check(cond) != z3.unsat
        elif self.solver_qf.check(cond) == z3.unsat:
            r = False
        else:
            r = self.solver.check(cond) != z3.unsat
        self.v.feas_cache[key] = r
        return r

    def choose(self, cond, label="if"):
        """Fork on a boolean z3 condition; returns the python bool taken on this path."""
        cond = z3.simplify(cond)
        if z3.is_true(cond):
            return True
        if z3.is_false(cond):
            return False
        if getattr(self, "merge_depth", 0) > 0:
            # inside an if-conversion attempt no choice is recorded or replayed: the arm is executed only if
            # every inner decision is forced (decided by the cached feasibility answers, identically on
            # every re-execution); otherwise the attempt is abandoned and the `if` forks normally
            t = self.feasible(cond)
            f = self.feasible(z3.Not(cond))
            if t and f:
                raise MergeAbort()
            if not t and not f:
                raise PathEnd()
            self.assume(cond if t else z3.Not(cond))
            return bool(t)
        i = len(self.taken)
        if i < len(self.prefix):
            b = self.prefix[i]
        else:
            t = self.feasible(cond)
            f = self.feasible(z3.Not(cond))
            if t and f and getattr(self, "no_fork", False):
                raise Reject("fork inside a comprehension / quantified context")
            if t and f:
                b = 1
                self.alternatives.append(self.taken + [0])
            elif t:
                b = 1
            elif f:
                b = 0
            else:
                raise PathEnd()
        self.taken.append(b)
        self.assume(cond if b else z3.Not(cond))
        return bool(b)

    def choose_n(self, n, label="n"):
        """Pure n-way fork (no condition)."""
        if getattr(self, "merge_depth", 0) > 0:
            raise MergeAbort()
        i = len(self.taken)
        if i < len(self.prefix):
            b = self.prefix[i]
        else:
            b = 0
            for k in range(1, n):
                self.alternatives.append(self.taken + [k])
        self.taken.append(b)
        return b

    def oblige(self, name, goal, site="", kind="post"):
        if isinstance(goal, bool):
            goal = z3.BoolVal(goal)
        goal = z3.simplify(goal)
        if z3.is_true(goal):
            self.v.trivial += 1
            self.v.obl_names.add(name)
            return
        q = getattr(self, "qctx", None)
        if q is not None:
            goal = z3.ForAll(q[0] if isinstance(q[0], list) else [q[0]], z3.Implies(q[1], goal))
            key = (name, site, tuple(self.taken))
            if key not in self.v.obligations:
                self.v.obligations[key] = Obligation(self.v.qname, name, site, self.pc, goal, key, kind)
            self.qctx = None
            self.assume(goal)
            self._q_pending.append(goal)
            self.qctx = q
            return
        key = (name, site, tuple(self.taken))
        if key not in self.v.obligations:
            self.v.obligations[key] = Obligation(self.v.qname, name, site, self.pc, goal, key, kind)
        self.assume(goal)

    def use_fact(self, fct):
        """Assume an instance of a proved lemma / a definitional axiom (minted by a spec-theory module),
        or check-then-assume an intermediate proof step."""
        if isinstance(fct, Step):
            self.oblige("step." + fct.name, fct.z, site="step", kind="step")
            return
        if not isinstance(fct, Fact):
            raise Reject("lemma hook returned a non-Fact")
        self.v.facts_used.add(fct.name)
        self.assume(fct.z)

    # ---- allocation ---------------------------------------------------------------------------
    def new_obj(self, cls_qname=None):
        o = self.alloc0 + self.nalloc
        self.nalloc += 1
        if cls_qname is not None:
            a = self.heap.get("$cls", z3.ArraySort(H.I, H.I))
            self.heap.set("$cls", z3.Store(a, o, CLASSES[cls_qname].code))
        return o

    def cur_alloc(self):
        return self.alloc0 + self.nalloc

    def new_container(self, t):
        o = self.new_obj()
        name, a = self.heap.carr(t, "len")
        self.heap.set(name, z3.Store(a, o, 0))
        if isinstance(t, T.List):
            # an empty list has no members (definition of the membership predicate at length 0)
            es = T.sort(t.elem)
            e = z3.Const(H.fresh_name("nl_e"), es)
            self.assume(z3.ForAll([e], z3.Not(H.mem_fn(es)(self.heap.l_elems(t, o), 0, e))))
        if isinstance(t, (T.Dict, T.Set)):
            ks = T.sort(t.k if isinstance(t, T.Dict) else t.elem)
            name, a = self.heap.carr(t, "dom")
            self.heap.set(name, z3.Store(a, o, z3.K(ks, FALSE)))
        return SV(t, o)

    # ---- typing facts for values that enter from the pre-state ----------------------------
    def type_facts(self, sv, depth=0):
        """Facts true of every well-typed value of sv.ty in the current heap (assumed)."""
        t, z = sv.ty, sv.z
        out = []
        if isinstance(t, T.Enum):
            out.append(z3.And(z >= 0, z < len(t.members)))
        elif isinstance(t, T.Ref):
            out.append(z3.And(z >= 0, z < self.cur_alloc()))
            if t.cls is not None and t.cls in CLASSES:
                codes = [c.code for c in CLASSES[t.cls].subclasses()]
                tag = self.heap.cls_tag(z)
                out.append(z3.Or(z == 0, *[tag == c for c in codes]))
            if not getattr(t, "nullable", False):
                out.append(z != 0)
        elif T.is_container(t):
            out.append(z3.And(z > 0, z < self.cur_alloc()))
            out += self.heap.wf_container(t, z)
        elif isinstance(t, T.Val):
            for fn, ft in t.fields.items():
                out += self.type_facts(SV(ft, T.val_field(t, z, fn)), depth + 1)
        elif isinstance(t, T.Tup):
            for i, e in enumerate(t.elems):
                out += self.type_facts(SV(e, T.tup_get(t, z, i)), depth + 1)
        elif isinstance(t, T.Opt):
            inner = self.type_facts(SV(t.inner, T.opt_get(t, z)), depth + 1)
            if inner:
                out.append(z3.Implies(z3.Not(T.opt_is_none(t, z)), z3.And(*inner)))
        elif t == T.STR:
            out.append(z >= 0)
        return out

    def assume_typed(self, sv):
        for f in self.type_facts(sv):
            self.assume(f)
        return sv

    def assume_typed_deep(self, sv, depth=2):
        """typing / representation facts of an argument and of what its fields reach (bounded depth)"""
        self.assume_typed(sv)
        t = sv.ty
        if depth <= 0 or not isinstance(t, T.Ref) or t.cls is None or t.cls not in CLASSES:
            return
        for fn, ft in CLASSES[t.cls].all_fields().items():
            if ft == T.OPAQUE or fn.startswith("$"):
                continue
            if T.is_container(ft) or (isinstance(ft, T.Ref) and ft.cls in CLASSES):
                _, z = self.heap.rd(sv.z, t.cls, fn)
                f = SV(ft, z)
                if isinstance(ft, T.Ref):
                    # facts about the target only make sense when the reference is not None
                    facts = self.type_facts(f)
                    for x in facts:
                        self.assume(x)
                    if not getattr(ft, "nullable", False):
                        self.assume_typed_deep(f, depth - 1)
                else:
                    self.assume_typed(f)

    # ---- coercions ---------------------------------------------------------------------------
    def coerce(self, v, t):
        if isinstance(v, EmptyContainer):
            want = {"list": T.List, "set": T.Set, "dict": T.Dict}[v.kind]
            if isinstance(t, want):
                return self.new_container(t)
            raise Reject("empty %s where %s expected" % (v.kind, t))
        if isinstance(v, PyTuple) and not v.items and v.is_list and isinstance(t, T.List):
            return self.new_container(t)
        if isinstance(v, PyTuple):
            if isinstance(t, T.Tup):
                assert len(v.items) == len(t.elems), "tuple arity"
                return SV(t, T.tup_mk(t, *[self.coerce(x, e).z for x, e in zip(v.items, t.elems)]))
            if isinstance(t, T.List):
                c = self.new_container(t)
                for x in v.items:
                    self.heap.l_append(t, c.z, self.coerce(x, t.elem).z)
                return c
            raise Reject("cannot coerce tuple to %s" % t)
        if not isinstance(v, SV):
            if t == T.OPAQUE:
                return SV(T.OPAQUE, z3.IntVal(0))
            raise Reject("cannot coerce %r to %s" % (v, t))
        if v.ty == t:
            return v
        if v.ty == T.NONE:
            if isinstance(t, T.Opt):
                return SV(t, T.opt_none(t))
            if T.is_reflike(t):
                return SV(t, z3.IntVal(0))
            if t == T.OPAQUE:
                return SV(t, z3.IntVal(0))
            raise Reject("None where %s expected" % t)
        if isinstance(t, T.Opt):
            if isinstance(v.ty, T.Opt):
                raise Reject("opt mismatch %s %s" % (v.ty, t))
            return SV(t, T.opt_some(t, self.coerce(v, t.inner).z))
        if isinstance(v.ty, T.Opt) and v.ty.inner == t:
            # implicit unwrap: caller guarantees not None (obligation recorded)
            self.oblige("type.not_none", z3.Not(T.opt_is_none(v.ty, v.z)), site="line%s" % getattr(self, "cur_line", "?"), kind="type")
            return SV(t, T.opt_get(v.ty, v.z))
        if t == T.REAL and v.ty == T.INT:
            return SV(T.REAL, z3.ToReal(v.z))
        if t == T.INT and v.ty == T.BOOL:
            return SV(T.INT, z3.If(v.z, 1, 0))
        if isinstance(t, T.Ref) and isinstance(v.ty, T.Ref):
            return SV(t, v.z)  # up/down cast between declared classes; tag facts carry the rest
        if t == T.OPAQUE:
            return SV(T.OPAQUE, z3.IntVal(0))
        if T.is_container(t) and T.is_container(v.ty) and type(t) is type(v.ty):
            if t.key() == v.ty.key():
                return SV(t, v.z)
        raise Reject("cannot coerce %s to %s" % (v.ty, t))

    def truthy(self, v):
        if isinstance(v, PyTuple):
            return z3.BoolVal(len(v.items) > 0)
        if isinstance(v, (ClassRef, FuncRef, BoundMethod, OpaqueObj, LambdaVal)):
            return TRUE
        if not isinstance(v, SV):
            raise Reject("truthiness of %r" % (v,))
        t = v.ty
        if t == T.BOOL:
            return v.z
        if t == T.INT:
            return v.z != 0
        if t == T.REAL:
            return v.z != 0
        if t == T.NONE:
            return FALSE
        if isinstance(t, T.Ref):
            return v.z != 0
        if isinstance(t, T.Opt):
            inner = SV(t.inner, T.opt_get(t, v.z))
            return z3.And(z3.Not(T.opt_is_none(t, v.z)), self.truthy(inner))
        if T.is_container(t):
            if True:
                return z3.And(v.z != 0, self.heap.c_len(t, v.z) > 0)
        if isinstance(t, T.Val):
            if resolve_method(t.name, "__bool__") or resolve_method(t.name, "__len__"):
                raise Reject("__bool__/__len__ on value class")
            return TRUE
        if isinstance(t, T.Enum):
            return TRUE
        if t == T.STR:
            return v.z != T.str_code("")
        raise Reject("truthiness of %s" % t)

    # -------------------------------------------------------------------------------------------
    # expression evaluation
    def ev(self, node):
        if self.depth == 0 and not isinstance(node, (ast.Name, ast.Constant)):
            c = CONTRACTS.get(self.frames[-1].qname)
            op_ = getattr(c, "opaque", None) if c is not None else None
            if op_:
                src = ast.unparse(node)
                for prefix, ty in op_.items():
                    if src.startswith(prefix) or src.startswith(alias_text(prefix)):
                        # a side-effect-free expression outside the subset, declared opaque by the contract: an arbitrary
                        # value of the declared type (sound over-approximation of a pure expression; listed in the evidence)
                        self.v.opaque_hits.add(prefix)
                        v = SV(ty, H.fresh("opaque", T.sort(ty)))
                        return self.assume_typed(v)
        m = getattr(self, "ev_" + type(node).__name__, None)
        if m is None:
            raise Reject("expression %s" % type(node).__name__)
        return m(node)

    def ev_Constant(self, n):
        v = n.value
        if v is None:
            return NONE_SV
        if isinstance(v, bool):
            return mk_bool(v)
        if isinstance(v, int):
            return mk_int(v)
        if isinstance(v, float):
            return SV(T.REAL, z3.RealVal(repr(v)) if v != int(v) else z3.RealVal(int(v)))
        if isinstance(v, str):
            return SV(T.STR, z3.IntVal(T.str_code(v)))
        raise Reject("constant %r" % (v,))

    def ev_JoinedStr(self, n):
        # f-string: an uninterpreted function of its formatted values, keyed by the literal
        # skeleton (same pieces => same string). Evaluating __str__/__repr__ is assumed pure.
        skel = []
        vals = []
        for part in n.values:
            if isinstance(part, ast.Constant):
                skel.append(str(part.value))
            else:
                skel.append("{%s}" % (ast.unparse(part.format_spec) if part.format_spec else ""))
                try:
                    v = self.ev(part.value)
                except Reject:
                    return SV(T.STR, H.fresh("fstr", H.I))
                if not isinstance(v, SV):
                    return SV(T.STR, H.fresh("fstr", H.I))
                vals.append(v.z)
        if not vals:
            return SV(T.STR, z3.IntVal(T.str_code("".join(skel))))
        return SV(T.STR, fstring_fn("".join(skel), [v.sort() for v in vals])(*vals))

    def ev_Name(self, n):
        fr = self.frames[-1]
        if n.id in fr.env:
            return fr.env[n.id]
        return self.global_name(fr.modname, n.id)

    def global_name(self, modname, name):
        if name in ("True", "False"):
            return mk_bool(name == "True")
        if name in BUILTIN_EXCEPTIONS:
            return ExcVal(name)
        if name in (
            "len", "min", "max", "abs", "int", "round", "isinstance", "type", "str", "float", "sum", "any", "all",
            "sorted", "list", "set", "dict", "tuple", "range", "enumerate", "zip", "hasattr", "id", "hash", "bool",
            "copy", "deepcopy", "filter", "map", "next", "iter", "print", "repr", "defaultdict", "reversed", "deque",
            "attrgetter", "partial",
        ):
            imp = module_imports(modname).get(name)
            if imp is None or imp[1] in ("copy", "collections", "operator", "functools"):
                return Builtin(name)
        gv = module_global(modname, name)
        if gv is not None:
            # module-level constant: evaluate its expression in module scope
            self.frames.append(Frame(modname + ".<module>", ast.parse("pass"), None, {}, modname))
            try:
                return self.ev(gv)
            finally:
                self.frames.pop()
        # class defined in this module?
        for q in CLASSES:
            if q == modname + "." + name:
                return ClassRef(q)
        imp = module_imports(modname).get(name)
        if imp is not None:
            if imp[0] == "module":
                return ModuleRef(imp[1])
            cand = imp[1] + "." + imp[2]
            if cand in CLASSES:
                return ClassRef(cand)
            if cand in CONTRACTS:
                return FuncRef(cand)
        # fall back: unique declared class with that short name
        cands = [q for q in CLASSES if q.split(".")[-1] == name]
        if len(cands) == 1:
            return ClassRef(cands[0])
        cands = [q for q in CONTRACTS if q.split(".")[-1] == name and len(q.split(".")) == 2]
        if len(cands) == 1:
            return FuncRef(cands[0])
        if imp is not None and imp[0] == "from":
            return ModuleRef(imp[1] + "." + imp[2])
        # module-level function of the same module with a contract
        if modname + "." + name in CONTRACTS:
            return FuncRef(modname + "." + name)
        raise Reject("unresolved name %s in %s" % (name, modname))

    def ev_Dict(self, n):
        if n.keys:
            raise Reject("dict literal with entries")
        return EmptyContainer("dict")

    def ev_Tuple(self, n):
        return PyTuple([self.ev(e) for e in n.elts])

    def ev_List(self, n):
        return PyTuple([self.ev(e) for e in n.elts], is_list=True)

    def ev_ListComp(self, n):
        """[f(x) for x in seq]  ->  fresh list defined pointwise (f must evaluate without forking)."""
        if len(n.generators) != 1 or n.generators[0].ifs or n.generators[0].is_async:
            raise Reject("comprehension with filter / several generators")
        g = n.generators[0]
        it = self.ev(g.iter)
        return self.comprehend(it, lambda x: self.assign(g.target, x), lambda: self.ev(n.elt))

    ev_GeneratorExp = ev_ListComp

    def ev_Lambda(self, n):
        return LambdaVal(n, dict(self.frames[-1].env), self)

    def comprehend(self, it, bind, elt_eval):
        """shared by comprehensions and map(lambda ...): pointwise-defined fresh list"""
        cnt, elem, cont = self.iter_desc(it)
        i = z3.Int(H.fresh_name("lc_i"))
        fr = self.frames[-1]
        saved = dict(fr.env)
        x = elem(i)
        rng = z3.And(0 <= i, i < cnt)
        if getattr(self, "qctx", None) is not None:
            raise Reject("nested comprehension")
        self.qctx = (i, rng)
        self._q_pending = []
        self.solver.push()
        self.solver_qf.push()
        self.solver.add(rng)
        self.solver_qf.add(rng)
        old = getattr(self, "no_fork", False)
        self.no_fork = True
        self._q_elem = x.z if isinstance(x, SV) else None
        try:
            if isinstance(x, SV):
                for f in self.type_facts(x):
                    self.assume(f)
            bind(x)
            v = elt_eval()
        finally:
            self._q_elem = None
            self.no_fork = old
            self.qctx = None
            self.solver.pop()
            self.solver_qf.pop()
            for b_ in self._q_pending:
                self.solver.add(b_)
            self._q_pending = []
            fr.env.clear()
            fr.env.update(saved)
        if not isinstance(v, SV):
            raise Reject("comprehension element %r" % (v,))
        t = T.List(v.ty)
        out = self.new_container(t)
        name, a = self.heap.carr(t, "len")
        self.heap.set(name, z3.Store(a, out.z, cnt))
        arr = H.fresh("lc_elems", z3.ArraySort(H.I, T.sort(v.ty)))
        pats = [z3.Select(arr, i)]
        if isinstance(x, SV) and _mentions(x.z, i) and not z3.is_const(x.z):
            pats.append(x.z)  # alternative trigger: the source element (facts stated over the source list reach the mapped one)
        self.assume(z3.ForAll([i], z3.Implies(z3.And(0 <= i, i < cnt), z3.Select(arr, i) == v.z), patterns=pats))
        self.heap._upd(t, "elem", out.z, arr)
        return out

    def ev_IfExp(self, n):
        c = self.truthy(self.ev(n.test))
        if self.choose(c):
            return self.ev(n.body)
        return self.ev(n.orelse)

    def ev_BoolOp(self, n):
        # python semantics: returns the deciding operand; we fork per operand
        is_and = isinstance(n.op, ast.And)
        last = None
        for i, e in enumerate(n.values):
            last = self.ev(e)
            if i == len(n.values) - 1:
                break
            t = self.truthy(last)
            if is_and:
                if not self.choose(t):
                    return last if not isinstance(last, SV) or last.ty != T.BOOL else mk_bool(False)
            else:
                if self.choose(t):
                    return last if not isinstance(last, SV) or last.ty != T.BOOL else mk_bool(True)
        return last

    def ev_UnaryOp(self, n):
        v = self.ev(n.operand)
        if isinstance(n.op, ast.Not):
            return SV(T.BOOL, z3.Not(self.truthy(v)))
        if isinstance(n.op, ast.USub):
            if isinstance(v, SV) and v.ty in (T.INT, T.REAL):
                return SV(v.ty, -v.z)
            if isinstance(v, SV) and v.ty == T.BOOL:
                return SV(T.INT, -z3.If(v.z, 1, 0))
        raise Reject("unary op")

    def ev_BinOp(self, n):
        a = self.ev(n.left)
        b = self.ev(n.right)
        return self.binop(type(n.op).__name__, a, b)

    _dunder = {"Add": "__add__", "Sub": "__sub__", "Mult": "__mul__", "Div": "__truediv__"}

    def unwrap_opt(self, v, exc="AttributeError"):
        """Use of an Optional where an object is needed: None -> exception path, else the value."""
        if isinstance(v, SV) and isinstance(v.ty, T.Opt):
            if self.choose(T.opt_is_none(v.ty, v.z)):
                raise Raise_(exc)
            return SV(v.ty.inner, T.opt_get(v.ty, v.z))
        if isinstance(v, SV) and v.ty == T.NONE:
            raise Raise_(exc)
        return v

    def binop(self, op, a, b):
        if isinstance(a, SV) and isinstance(a.ty, T.Opt) and isinstance(a.ty.inner, (T.Val, T.INT.__class__)):
            a = self.unwrap_opt(a, "TypeError")
        if isinstance(a, SV) and isinstance(a.ty, (T.Val, T.Ref)) and op in self._dunder:
            return self.call_method(a, self._dunder[op], [b], {})
        if isinstance(a, PyTuple) and isinstance(b, PyTuple) and op == "Add":
            return PyTuple(a.items + b.items, a.is_list)
        if op == "Add" and isinstance(a, SV) and isinstance(b, SV) and isinstance(a.ty, T.List) and a.ty == b.ty:
            out = self.copy_list(a)  # list + list: a fresh list, a's elements followed by b's
            self.list_extend(out, b)
            return out
        if not (isinstance(a, SV) and isinstance(b, SV)):
            raise Reject("binop %s on %r,%r" % (op, a, b))
        a = self.num(a)
        b = self.num(b)
        if a.ty == T.STR or b.ty == T.STR:
            if op == "Add":
                return SV(T.STR, H.fresh("strcat", H.I))
            raise Reject("string op")
        if a.ty not in (T.INT, T.REAL) or b.ty not in (T.INT, T.REAL):
            raise Reject("binop %s on %s,%s" % (op, a.ty, b.ty))
        real = a.ty == T.REAL or b.ty == T.REAL
        if op == "Div":
            real = True
        if real:
            az = z3.ToReal(a.z) if a.ty == T.INT else a.z
            bz = z3.ToReal(b.z) if b.ty == T.INT else b.z
        else:
            az, bz = a.z, b.z
        if op == "Add":
            return SV(T.REAL if real else T.INT, az + bz)
        if op == "Sub":
            return SV(T.REAL if real else T.INT, az - bz)
        if op == "Mult":
            return SV(T.REAL if real else T.INT, az * bz)
        if op == "Div":
            if self.feasible(bz == 0):
                if self.choose(bz == 0):
                    raise Raise_("ZeroDivisionError")
            return SV(T.REAL, az / bz)
        if op == "FloorDiv" and not real:
            if self.choose(bz == 0):
                raise Raise_("ZeroDivisionError")
            # python floor division; z3 div is euclidean: equal when divisor > 0
            return SV(T.INT, z3.If(bz > 0, az / bz, -((-az) / (-bz)) if False else z3.If(az % bz == 0, az / bz, az / bz - 1 + 0 * az)))
        if op == "Mod" and not real:
            if self.choose(bz == 0):
                raise Raise_("ZeroDivisionError")
            return SV(T.INT, z3.If(bz > 0, az % bz, -((-az) % (-bz))))
        raise Reject("binop %s" % op)

    def num(self, v):
        if v.ty == T.BOOL:
            return SV(T.INT, z3.If(v.z, 1, 0))
        return v

    def ev_Compare(self, n):
        left = self.ev(n.left)
        res = None
        for op, rn in zip(n.ops, n.comparators):
            right = self.ev(rn)
            r = self.compare(type(op).__name__, left, right)
            res = r if res is None else SV(T.BOOL, z3.And(res.z, r.z))
            left = right
        return res

    def eq_values(self, a, b):
        """z3 Bool for python `a == b`."""
        if isinstance(a, PyTuple) and isinstance(b, PyTuple):
            if len(a.items) != len(b.items):
                return FALSE
            return z3.And(*[self.eq_values(x, y) for x, y in zip(a.items, b.items)]) if a.items else TRUE
        r = self.eq_pyobjs(a, b)
        if r is not None:
            return z3.BoolVal(r)
        if not (isinstance(a, SV) and isinstance(b, SV)):
            raise Reject("== on %r, %r" % (a, b))
        if a.ty == T.NONE or b.ty == T.NONE:
            if a.ty == T.NONE and b.ty == T.NONE:
                return TRUE
            x = b if a.ty == T.NONE else a
            return self.is_none(x)
        if isinstance(a.ty, T.Opt) or isinstance(b.ty, T.Opt):
            if isinstance(a.ty, T.Opt) and isinstance(b.ty, T.Opt) and a.ty == b.ty:
                na, nb = T.opt_is_none(a.ty, a.z), T.opt_is_none(b.ty, b.z)
                ia, ib = SV(a.ty.inner, T.opt_get(a.ty, a.z)), SV(b.ty.inner, T.opt_get(b.ty, b.z))
                if isinstance(a.ty.inner, (T.Val, T.Ref)) and getattr(self, "merge_depth", 0) == 0 and not getattr(self, "no_fork", False):
                    # None == None, None != x; otherwise the class's own __eq__ on the two values
                    if self.choose(z3.Or(na, nb)):
                        return z3.And(na, nb)
                    return self.eq_values(ia, ib)
                return z3.Or(z3.And(na, nb), z3.And(z3.Not(na), z3.Not(nb), ia.z == ib.z))
            o, x = (a, b) if isinstance(a.ty, T.Opt) else (b, a)
            inner = SV(o.ty.inner, T.opt_get(o.ty, o.z))
            return z3.And(z3.Not(T.opt_is_none(o.ty, o.z)), self.eq_values(inner, x) if o is a else self.eq_values(x, inner))
        if isinstance(a.ty, (T.Val, T.Ref)) and a.ty.key() != "Ref:None":
            cls = a.ty.name if isinstance(a.ty, T.Val) else a.ty.cls
            q = resolve_method(cls, "__eq__") if cls else None
            if q:
                r = self.call_function(q, [a, b], {})
                return self.truthy(r)
            if isinstance(a.ty, T.Ref):
                return a.z == b.z
            return a.z == self.coerce(b, a.ty).z
        if isinstance(a.ty, T.Enum):
            q = resolve_method(a.ty.name, "__eq__")
            if q and q in CONTRACTS:
                return self.truthy(self.call_function(q, [a, b], {}))
            if not isinstance(b.ty, T.Enum) or a.ty != b.ty:
                return FALSE
            return a.z == b.z
        a2, b2 = self.num(a), self.num(b)
        if a2.ty == T.REAL or b2.ty == T.REAL:
            return self.coerce(a2, T.REAL).z == self.coerce(b2, T.REAL).z
        if a2.ty != b2.ty:
            if {a2.ty, b2.ty} <= {T.INT, T.STR, T.BOOL}:
                return FALSE
            raise Reject("== on %s,%s" % (a.ty, b.ty))
        return a2.z == b2.z

    def is_none(self, v):
        if not isinstance(v, SV):
            return FALSE
        if v.ty == T.NONE:
            return TRUE
        if isinstance(v.ty, T.Opt):
            return T.opt_is_none(v.ty, v.z)
        if T.is_reflike(v.ty):
            return v.z == 0
        return FALSE

    def compare(self, op, a, b):
        if op == "Is":
            if isinstance(b, SV) and b.ty == T.NONE:
                return SV(T.BOOL, self.is_none(a))
            if isinstance(a, SV) and isinstance(b, SV) and T.is_reflike(a.ty):
                return SV(T.BOOL, a.z == b.z)
            raise Reject("is")
        if op == "IsNot":
            return SV(T.BOOL, z3.Not(self.compare("Is", a, b).z))
        if op == "Eq":
            return SV(T.BOOL, self.eq_values(a, b))
        if op == "NotEq":
            if isinstance(a, SV) and isinstance(a.ty, (T.Val, T.Ref)):
                cls = a.ty.name if isinstance(a.ty, T.Val) else a.ty.cls
                if cls and resolve_method(cls, "__ne__"):
                    return self.call_method(a, "__ne__", [b], {})
            return SV(T.BOOL, z3.Not(self.eq_values(a, b)))
        if op in ("In", "NotIn"):
            r = self.contains(b, a)
            return SV(T.BOOL, r if op == "In" else z3.Not(r))
        if op in ("Lt", "LtE", "Gt", "GtE"):
            return SV(T.BOOL, self.order(op, a, b))
        raise Reject("compare %s" % op)

    def order(self, op, a, b):
        if isinstance(a, SV) and isinstance(a.ty, T.Opt):
            a = self.unwrap_opt(a, "TypeError")
        if isinstance(a, SV) and isinstance(a.ty, (T.Val, T.Ref, T.Enum)):
            cls = a.ty.name if isinstance(a.ty, (T.Val, T.Enum)) else a.ty.cls
            name = {"Lt": "__lt__", "LtE": "__le__", "Gt": "__gt__", "GtE": "__ge__"}[op]
            q = resolve_method(cls, name)
            if q:
                return self.truthy(self.call_function(q, [a, b], {}))
            if "total_ordering" in class_decorators(cls):
                # functools.total_ordering (library contract): derive from the one the class defines + __eq__
                # CPython: from __lt__:  __gt__ = not (a<b) and a != b ; __le__ = a<b or a==b ; __ge__ = not a<b
                if resolve_method(cls, "__lt__"):
                    lt = self.truthy(self.call_function(resolve_method(cls, "__lt__"), [a, b], {}))
                    if op == "GtE":
                        return z3.Not(lt)
                    eq = self.eq_values(a, b)
                    if op == "Gt":
                        return z3.And(z3.Not(lt), z3.Not(eq))
                    if op == "LtE":
                        return z3.Or(lt, eq)
                if resolve_method(cls, "__gt__"):
                    gt = self.truthy(self.call_function(resolve_method(cls, "__gt__"), [a, b], {}))
                    if op == "LtE":
                        return z3.Not(gt)
                    eq = self.eq_values(a, b)
                    if op == "Lt":
                        return z3.And(z3.Not(gt), z3.Not(eq))
                    if op == "GtE":
                        return z3.Or(gt, eq)
            raise Reject("ordering on %s" % cls)
        if isinstance(a, PyTuple) and isinstance(b, PyTuple) and len(a.items) == len(b.items):
            # lexicographic
            strict = {"Lt": "Lt", "LtE": "Lt", "Gt": "Gt", "GtE": "Gt"}[op]
            res = z3.BoolVal(op in ("LtE", "GtE"))
            for x, y in reversed(list(zip(a.items, b.items))):
                res = z3.Or(self.order(strict, x, y), z3.And(self.eq_values(x, y), res))
            return res
        if not (isinstance(a, SV) and isinstance(b, SV)):
            raise Reject("order on %r %r" % (a, b))
        a, b = self.num(a), self.num(b)
        if a.ty == T.STR and b.ty == T.STR:
            lt = str_lt(a.z, b.z) if op in ("Lt", "GtE") else str_lt(b.z, a.z)
            for ax in str_order_axioms():
                self.assume(ax)
            return lt if op in ("Lt", "Gt") else z3.Not(lt)
        if a.ty not in (T.INT, T.REAL) or b.ty not in (T.INT, T.REAL):
            raise Reject("order on %s,%s" % (a.ty, b.ty))
        if a.ty != b.ty:
            a, b = self.coerce(a, T.REAL), self.coerce(b, T.REAL)
        return {"Lt": a.z < b.z, "LtE": a.z <= b.z, "Gt": a.z > b.z, "GtE": a.z >= b.z}[op]

    def contains(self, cont, x):
        if isinstance(cont, PyTuple):
            if not cont.items:
                return FALSE
            return z3.Or(*[self.eq_values(x, y) for y in cont.items])
        if isinstance(cont, DictView) and cont.kind == "keys":
            cont = cont.d
        if isinstance(cont, SV) and isinstance(cont.ty, (T.Dict, T.Set)):
            kt = cont.ty.k if isinstance(cont.ty, T.Dict) else cont.ty.elem
            self.touch(cont)
            return self.heap.d_dom(cont.ty, cont.z, self.key_of(x, kt))
        if isinstance(cont, SV) and isinstance(cont.ty, T.List):
            self.touch(cont)
            i = z3.Int(H.fresh_name("in_i"))
            xe = self.coerce(x, cont.ty.elem)
            if isinstance(cont.ty.elem, (T.Val,)) and resolve_method(cont.ty.elem.name, "__eq__"):
                raise Reject("list membership with custom __eq__")
            return z3.Exists([i], z3.And(0 <= i, i < self.heap.c_len(cont.ty, cont.z), self.heap.l_elem(cont.ty, cont.z, i) == xe.z))
        raise Reject("membership in %r" % (cont,))

    def key_of(self, x, kt):
        """Dictionary key term. Keys are compared structurally (value classes: by their declared
        fields, assumption `hash-collision-free`; heap objects: by identity)."""
        return self.coerce(x, kt).z

    def touch(self, c):
        """Assume the representation facts of a container in the current heap."""
        if isinstance(c, SV) and T.is_container(c.ty):
            for f in self.heap.wf_container(c.ty, c.z):
                self.assume(f)

    # ---- attribute access -------------------------------------------------------------------
    def ev_Attribute(self, n):
        base = self.ev(n.value)
        return self.getattr(base, n.attr)

    def mangle(self, attr):
        fr = self.frames[-1]
        if attr.startswith("__") and not attr.endswith("__") and fr.cls:
            return "_" + fr.cls.split(".")[-1].lstrip("_") + attr
        return attr

    def getattr(self, base, attr):
        attr = self.mangle(attr)
        if isinstance(base, ModuleRef):
            full = base.name + "." + attr
            if full in CLASSES:
                return ClassRef(full)
            if full in CONTRACTS:
                return FuncRef(full)
            if base.name in ("sys",) and attr == "maxsize":
                return mk_int(2**63 - 1)
            if base.name == "sys.float_info" and attr == "epsilon":
                return SV(T.REAL, z3.RealVal("1/4503599627370496"))  # 2**-52
            try:
                mod, path = split_qname(full)
                if not path:
                    return ModuleRef(full)
            except KeyError:
                pass
            return ModuleRef(full)
        if isinstance(base, ClassRef):
            full = base.qname + "." + attr
            info = CLASSES.get(base.qname)
            if info and info.kind == "enum":
                try:
                    return SV(info.ty, z3.IntVal(info.ty.ordinal(attr)))
                except KeyError:
                    pass
            if full in CLASSES:
                return ClassRef(full)
            q = resolve_method(base.qname, attr)
            if q:
                return FuncRef(q)
            return OpaqueObj(full)
        if isinstance(base, OpaqueObj):
            return OpaqueObj(base.what + "." + attr)
        if isinstance(base, PyTuple):
            return BoundMethod(base, attr)
        if not isinstance(base, SV):
            raise Reject("attribute %s of %r" % (attr, base))
        t = base.ty
        if t == T.NONE:
            raise Raise_("AttributeError")
        if isinstance(t, T.Opt):
            # attribute of an optional: None -> AttributeError
            if self.choose(T.opt_is_none(t, base.z)):
                raise Raise_("AttributeError")
            return self.getattr(SV(t.inner, T.opt_get(t, base.z)), attr)
        if isinstance(t, T.Enum):
            if attr == "value":
                return self.enum_value(base)
            if attr == "name":
                return SV(T.STR, H.fresh("ename", H.I))
            return BoundMethod(base, attr)
        if isinstance(t, T.Val):
            if attr in t.fields:
                return SV(t.fields[attr], T.val_field(t, base.z, attr))
            return self.class_attr(t.name, base, attr)
        if isinstance(t, T.Ref):
            if t.cls is None:
                raise Reject("attribute of untyped ref")
            if self.feasible(base.z == 0):
                if self.choose(base.z == 0):
                    raise Raise_("AttributeError")
            info = CLASSES[t.cls]
            if info.field_owner(attr) is not None:
                fty, z = self.heap.rd(base.z, t.cls, attr)
                return self.assume_typed(SV(fty, z))
            return self.class_attr(t.cls, base, attr)
        if T.is_container(t) or t == T.STR:
            return BoundMethod(base, attr)
        if t == T.OPAQUE:
            return OpaqueObj(attr)
        raise Reject("attribute %s of %s" % (attr, t))

    def class_attr(self, cls, base, attr):
        q = resolve_method(cls, attr)
        if q is None:
            raise Reject("no attribute %s on %s (undeclared field?)" % (attr, cls))
        fdef, _, kind = find_function(q)
        if kind == "property":
            return self.call_function(q, [base], {})
        return BoundMethod(base, attr)

    def enum_value(self, e):
        t = e.ty
        vals = [v for _, v in t.members]
        allint = all(isinstance(v, int) and not isinstance(v, bool) for v in vals)
        if z3.is_int_value(e.z):
            v = vals[e.z.as_long()]
            return self.pyconst(v)
        if allint and vals == list(range(len(vals))):
            return SV(T.INT, e.z)
        if allint:
            ex = z3.IntVal(vals[-1])
            for k in range(len(vals) - 2, -1, -1):
                ex = z3.If(e.z == k, vals[k], ex)
            return SV(T.INT, ex)
        # concretise by case split
        for k in range(len(vals) - 1):
            if self.choose(e.z == k):
                return self.pyconst(vals[k])
        self.assume(e.z == len(vals) - 1)
        return self.pyconst(vals[-1])

    def pyconst(self, v):
        if isinstance(v, bool):
            return mk_bool(v)
        if isinstance(v, int):
            return mk_int(v)
        if isinstance(v, float):
            return SV(T.REAL, z3.RealVal(int(v)) if v == int(v) else z3.RealVal(repr(v)))
        if isinstance(v, str):
            return SV(T.STR, z3.IntVal(T.str_code(v)))
        raise Reject("enum value %r" % (v,))

    # ---- subscripts --------------------------------------------------------------------------
    def ev_Subscript(self, n):
        base = self.ev(n.value)
        if isinstance(n.slice, ast.Slice):
            return self.prefix_slice(base, n.slice)
        idx = self.ev(n.slice)
        return self.getitem(base, idx)

    def prefix_slice(self, base, sl):
        """xs[:k] of a list: a fresh list holding the first min(max(k', 0), len) elements (k' = k + len for negative k)"""
        if sl.lower is not None or sl.step is not None or sl.upper is None:
            raise Reject("slice other than xs[:k]")
        if not (isinstance(base, SV) and isinstance(base.ty, T.List)):
            raise Reject("slice of %r" % (base,))
        t = base.ty
        self.touch(base)
        n = self.heap.c_len(t, base.z)
        u = self.coerce(self.ev(sl.upper), T.INT).z
        u = z3.If(u < 0, u + n, u)
        m = z3.If(u < 0, 0, z3.If(u > n, n, u))
        src = self.heap.l_elems(t, base.z)
        out = self.new_container(t)
        name, a = self.heap.carr(t, "len")
        self.heap.set(name, z3.Store(a, out.z, m))
        self.heap._upd(t, "elem", out.z, src)
        es = T.sort(t.elem)
        e = z3.Const(H.fresh_name("sl_e"), es)
        M = H.mem_fn(es)
        self.assume(z3.ForAll([e], z3.Implies(M(src, m, e), M(src, n, e)), patterns=[M(src, m, e)]))
        return out

    def getitem(self, base, idx):
        if isinstance(base, PyTuple):
            if isinstance(idx, SV) and z3.is_int_value(z3.simplify(idx.z)):
                return base.items[z3.simplify(idx.z).as_long()]
            raise Reject("symbolic tuple index")
        if not isinstance(base, SV):
            raise Reject("subscript of %r" % (base,))
        t = base.ty
        if isinstance(t, T.Tup):
            zi = z3.simplify(idx.z)
            if z3.is_int_value(zi):
                k = zi.as_long()
                if k < 0:
                    k += len(t.elems)
                return SV(t.elems[k], T.tup_get(t, base.z, k))
            raise Reject("symbolic tuple index")
        if isinstance(t, T.List):
            self.touch(base)
            n = self.heap.c_len(t, base.z)
            i = self.coerce(idx, T.INT).z
            eff = z3.If(i < 0, i + n, i)
            if self.feasible(z3.Or(eff < 0, eff >= n)):
                if self.choose(z3.Or(eff < 0, eff >= n)):
                    raise Raise_("IndexError")
            return self.assume_typed(SV(t.elem, self.heap.l_elem(t, base.z, eff)))
        if isinstance(t, T.Dict):
            self.touch(base)
            k = self.key_of(idx, t.k)
            present = self.heap.d_dom(t, base.z, k)
            if self.feasible(z3.Not(present)):
                if not self.choose(present):
                    if t.default is None:
                        raise Raise_("KeyError")
                    return self.dict_default_insert(base, k)
            return self.assume_typed(SV(t.v, self.heap.d_val(t, base.z, k)))
        raise Reject("subscript of %s" % t)

    def dict_default_insert(self, d, k):
        t = d.ty
        if t.default == "int":
            v = SV(t.v, z3.IntVal(0)) if t.v == T.INT else None
        elif t.default == "list":
            v = self.new_container(t.v)
        elif t.default == "set":
            v = self.new_container(t.v)
        else:
            v = None
        if v is None:
            raise Reject("defaultdict factory")
        self.note_written(self.heap.d_insert_new(t, d.z, k, v.z))
        return v

    def note_written(self, names):
        self.written.update(names)

    # ---- calls -------------------------------------------------------------------------------
    def ev_Call(self, n):
        f = self.ev(n.func)
        args = []
        for a in n.args:
            if isinstance(a, ast.Starred):
                raise Reject("*args")
            args.append(a)
        kwargs = {}
        for k in n.keywords:
            if k.arg is None:
                raise Reject("**kwargs")
            kwargs[k.arg] = k.value
        return self.call(f, args, kwargs, n)

    def call(self, f, arg_nodes, kw_nodes, node):
        if isinstance(f, Builtin):
            return self.call_builtin(f.name, arg_nodes, kw_nodes, node)
        if isinstance(f, OpaqueObj):
            if f.what.endswith("_rng.uniform") and "random.Random.uniform" in CONTRACTS:
                return self.apply_contract(CONTRACTS["random.Random.uniform"], [self.ev(a) for a in arg_nodes], {})
            for a in arg_nodes:
                self.ev(a)
            return OpaqueObj(f.what + "()")
        args = [self.ev(a) for a in arg_nodes]
        kwargs = {k: self.ev(v) for k, v in kw_nodes.items()}
        if isinstance(f, ExcVal):
            return f
        if isinstance(f, ClassRef):
            return self.construct(f.qname, args, kwargs)
        if isinstance(f, FuncRef):
            return self.call_function(f.qname, args, kwargs)
        if isinstance(f, BoundMethod):
            return self.call_bound(f, args, kwargs)
        if isinstance(f, ModuleRef):
            return self.call_module_fn(f.name, args, kwargs)
        raise Reject("call of %r" % (f,))

    def call_module_fn(self, name, args, kwargs):
        if name in CONTRACTS:
            return self.call_function(name, args, kwargs)
        if name in ("time.time", "time.perf_counter"):
            return SV(T.REAL, H.fresh("wallclock", z3.RealSort()))  # measured wall-clock: an arbitrary real
        raise Reject("call of external %s (no contract)" % name)

    def call_builtin(self, name, arg_nodes, kw_nodes, node):
        if name == "isinstance":
            v = self.ev(arg_nodes[0])
            c = self.ev(arg_nodes[1])
            return SV(T.BOOL, self.isinstance_(v, c))
        if name == "type":
            v = self.ev(arg_nodes[0])
            return self.type_of(v)
        if name == "hasattr":
            raise Reject("hasattr")
        args = [self.ev(a) for a in arg_nodes]
        kwargs = {k: self.ev(v) for k, v in kw_nodes.items()}
        if name == "len":
            (v,) = args
            if isinstance(v, PyTuple):
                return mk_int(len(v.items))
            if isinstance(v, DictView):
                v = v.d
            if isinstance(v, SV) and T.is_container(v.ty):
                self.touch(v)
                return SV(T.INT, self.heap.c_len(v.ty, v.z))
            if isinstance(v, SV) and isinstance(v.ty, T.Ref) and v.ty.cls:
                return self.call_method(v, "__len__", [], {})
            raise Reject("len of %r" % (v,))
        if name in ("min", "max") and len(args) == 1:
            return self.min_max_over(name, args[0], kwargs.get("key"))
        if name in ("min", "max"):
            cur = args[0]
            for nxt in args[1:]:
                if isinstance(cur, SV) and cur.ty in (T.INT, T.REAL) and isinstance(nxt, SV) and nxt.ty in (T.INT, T.REAL):
                    if cur.ty != nxt.ty:
                        cur, nxt = self.coerce(cur, T.REAL), self.coerce(nxt, T.REAL)
                    c = (nxt.z < cur.z) if name == "min" else (nxt.z > cur.z)
                    cur = SV(cur.ty, z3.If(c, nxt.z, cur.z))
                else:
                    # python: min keeps the first unless a later one is strictly smaller
                    c = self.order("Lt" if name == "min" else "Gt", nxt, cur)
                    if isinstance(cur, SV) and isinstance(nxt, SV) and cur.ty == nxt.ty:
                        cur = SV(cur.ty, z3.If(c, nxt.z, cur.z))
                    else:
                        cur = nxt if self.choose(c) else cur
            return cur
        if name == "map":
            f, seq = args
            if not isinstance(f, LambdaVal) or len(f.node.args.args) != 1:
                raise Reject("map with non-lambda")
            pname = f.node.args.args[0].arg
            fr = self.frames[-1]

            def bind(x):
                fr.env[pname] = x

            return self.comprehend(seq, bind, lambda: self.ev(f.node.body))
        if name == "filter":
            # filter(f, seq): a fresh list holding exactly the elements of seq on which f is true (as a list: python's
            # filter object is only ever consumed by list() / a loop here).  Modelled: membership, length bounds and that
            # every element is an element of seq satisfying f; the relative order of the kept elements is NOT modelled.
            f, seq = args
            fr = self.frames[-1]
            if isinstance(f, LambdaVal) and len(f.node.args.args) == 1:
                pname = f.node.args.args[0].arg
                keep = self.comprehend(seq, lambda x: fr.env.__setitem__(pname, x), lambda: SV(T.BOOL, self.truthy(self.ev(f.node.body))))
            elif isinstance(f, BoundMethod):
                keep = self.comprehend(seq, lambda x: fr.env.__setitem__("$filter_x", x), lambda: SV(T.BOOL, self.truthy(self.call_bound(f, [fr.env["$filter_x"]], {}))))
            else:
                raise Reject("filter with %r" % (f,))
            cnt, elem, cont = self.iter_desc(seq)
            x0 = elem(z3.IntVal(0))
            if not isinstance(x0, SV):
                raise Reject("filter over non-symbolic elements")
            t = T.List(x0.ty)
            out = self.new_container(t)
            hp = self.heap
            es = T.sort(x0.ty)
            arr = H.fresh("flt_elems", z3.ArraySort(H.I, es))
            ln = z3.Int(H.fresh_name("flt_len"))
            hp._upd(t, "elem", out.z, arr)
            nm_, a_ = hp.carr(t, "len")
            hp.set(nm_, z3.Store(a_, out.z, ln))
            i, j = z3.Int(H.fresh_name("flt_i")), z3.Int(H.fresh_name("flt_j"))
            e = z3.Const(H.fresh_name("flt_e"), es)
            M = H.mem_fn(es)
            kept = lambda k: hp.l_elem(keep.ty, keep.z, k)
            src = lambda k: elem(k).z
            self.assume(z3.And(0 <= ln, ln <= cnt))
            # every element of the result is a kept element of the source, and a member of the result
            self.assume(z3.ForAll([j], z3.Implies(z3.And(0 <= j, j < ln), z3.And(M(arr, ln, z3.Select(arr, j)), z3.Exists([i], z3.And(0 <= i, i < cnt, src(i) == z3.Select(arr, j), kept(i))))), patterns=[z3.Select(arr, j)]))
            # every kept element of the source is a member of the result; members are elements
            self.assume(z3.ForAll([i], z3.Implies(z3.And(0 <= i, i < cnt, kept(i)), M(arr, ln, src(i))), patterns=[kept(i)]))
            self.assume(z3.ForAll([e], M(arr, ln, e) == z3.Exists([j], z3.And(0 <= j, j < ln, z3.Select(arr, j) == e)), patterns=[M(arr, ln, e)]))
            return out
        if name == "sum":
            (v,) = args[:1]
            if isinstance(v, SV) and isinstance(v.ty, T.List) and v.ty.elem in (T.INT, T.REAL):
                # an uninterpreted function of the list contents (only functionality is modelled)
                f = z3.Function("sum_" + str(T.sort(v.ty.elem)), z3.ArraySort(H.I, T.sort(v.ty.elem)), H.I, T.sort(v.ty.elem))
                return SV(v.ty.elem, f(self.heap.l_elems(v.ty, v.z), self.heap.c_len(v.ty, v.z)))
            raise Reject("sum over %r" % (v,))
        if name in ("any", "all"):
            (v,) = args
            if isinstance(v, PyTuple):
                ts = [self.truthy(x) for x in v.items]
                return SV(T.BOOL, (z3.Or(*ts) if name == "any" else z3.And(*ts)) if ts else z3.BoolVal(name == "all"))
            if isinstance(v, SV) and isinstance(v.ty, T.List):
                i = z3.Int(H.fresh_name("aa_i"))
                n_ = self.heap.c_len(v.ty, v.z)
                e = self.truthy(SV(v.ty.elem, self.heap.l_elem(v.ty, v.z, i)))
                rng = z3.And(0 <= i, i < n_)
                pat = [self.heap.l_elem(v.ty, v.z, i)]
                if name == "any":
                    return SV(T.BOOL, z3.Exists([i], z3.And(rng, e), patterns=pat))
                return SV(T.BOOL, z3.ForAll([i], z3.Implies(rng, e), patterns=pat))
            raise Reject("%s over %r" % (name, v))
        if name == "abs":
            (v,) = args
            v = self.num(v)
            return SV(v.ty, z3.If(v.z < 0, -v.z, v.z))
        if name == "int":
            (v,) = args
            if v.ty == T.INT:
                return v
            if v.ty == T.BOOL:
                return self.num(v)
            if v.ty == T.REAL:
                return SV(T.INT, z3.If(v.z >= 0, z3.ToInt(v.z), -z3.ToInt(-v.z)))
            raise Reject("int(%s)" % v.ty)
        if name == "float":
            (v,) = args
            return self.coerce(self.num(v), T.REAL)
        if name == "round":
            if len(args) != 1:
                raise Reject("round with ndigits")
            (v,) = args
            if v.ty == T.INT:
                return v
            fl = z3.ToInt(v.z)
            d = v.z - z3.ToReal(fl)
            half = z3.RealVal("1/2")
            return SV(T.INT, z3.If(d < half, fl, z3.If(d > half, fl + 1, z3.If(fl % 2 == 0, fl, fl + 1))))
        if name == "bool":
            return SV(T.BOOL, self.truthy(args[0]))
        if name == "str":
            (v,) = args
            if isinstance(v, SV) and v.ty == T.STR:
                return v
            return SV(T.STR, H.fresh("str", H.I))
        if name in ("hash", "id"):
            (v,) = args
            if name == "hash" and isinstance(v, SV) and isinstance(v.ty, (T.Val, T.Ref)):
                cls = v.ty.name if isinstance(v.ty, T.Val) else v.ty.cls
                q = resolve_method(cls, "__hash__")
                if q:
                    r = self.call_function(q, [v], {})
                    if isinstance(r, SV) and r.ty == T.INT:
                        # the builtin hash() never returns -1 (CPython maps a __hash__ result of -1 to -2); results of
                        # magnitude >= 2**61 - 1 would additionally be reduced (not modelled: stated range assumption)
                        return SV(T.INT, z3.If(r.z == -1, z3.IntVal(-2), r.z))
                    return r
            return SV(T.INT, H.fresh(name, H.I))
        if name in ("list", "set", "dict") and not args:
            return EmptyContainer(name)
        if name == "defaultdict":
            # collections.defaultdict(int | list | set): an empty dict; its static type (with the default factory) comes from
            # the declared type of the local / field it is stored into
            if len(args) > 1 or kwargs:
                raise Reject("defaultdict(factory, initial mapping)")
            return EmptyContainer("dict")
        if name == "deque":
            # collections.deque used as a FIFO work list: modelled as a list (append at the right, popleft = pop(0))
            if not args or (isinstance(args[0], PyTuple) and not args[0].items) or isinstance(args[0], EmptyContainer):
                return EmptyContainer("list")
            raise Reject("deque(non-empty iterable)")
        if name == "list":
            (v,) = args
            if isinstance(v, PyTuple):
                return PyTuple(v.items, True)
            if isinstance(v, SV) and isinstance(v.ty, T.List):
                return self.copy_list(v)
            if isinstance(v, DictView) and v.kind in ("keys", "values") or (isinstance(v, SV) and isinstance(v.ty, T.Dict)):
                # list(d) / list(d.keys()) / list(d.values()): a fresh list of the keys (values) in insertion order
                cnt, elem, cont = self.iter_desc(v)
                x0 = elem(z3.IntVal(0))
                t = T.List(x0.ty)
                out = self.new_container(t)
                hp = self.heap
                es = T.sort(x0.ty)
                arr = H.fresh("lst_elems", z3.ArraySort(H.I, es))
                hp._upd(t, "elem", out.z, arr)
                nm_, a_ = hp.carr(t, "len")
                hp.set(nm_, z3.Store(a_, out.z, cnt))
                i = z3.Int(H.fresh_name("lk_i"))
                self.assume(z3.ForAll([i], z3.Implies(z3.And(0 <= i, i < cnt), z3.Select(arr, i) == elem(i).z), patterns=[z3.Select(arr, i)]))
                self.assume(hp.l_mem_def(t, out.z))
                self.assume(hp.l_index_mem(t, out.z))
                return out
            raise Reject("list(iterable)")
        if name == "tuple":
            (v,) = args
            if isinstance(v, PyTuple):
                return PyTuple(v.items)
            raise Reject("tuple(iterable)")
        if name == "range":
            if len(args) == 1:
                return RangeVal(z3.IntVal(0), self.coerce(args[0], T.INT).z)
            if len(args) == 2:
                return RangeVal(self.coerce(args[0], T.INT).z, self.coerce(args[1], T.INT).z)
            raise Reject("range with step")
        if name == "attrgetter":
            (a0,) = args
            nm = T.str_of_code(z3.simplify(a0.z).as_long()) if isinstance(a0, SV) and a0.ty == T.STR and z3.is_int_value(z3.simplify(a0.z)) else None
            if nm is None or not nm.isidentifier():
                raise Reject("attrgetter with a non-literal name")
            return LambdaVal(ast.parse("lambda _ag_x: _ag_x.%s" % nm, mode="eval").body, dict(self.frames[-1].env), self)
        if name == "partial":
            f0 = args[0]
            if isinstance(f0, BoundMethod) and len(args) == 2 and not kwargs:
                fr_ = self.frames[-1]
                hidden_r, hidden_a = "_pt_recv_%d" % id(f0), "_pt_arg_%d" % id(f0)
                fr_.env[hidden_r] = f0.recv
                fr_.env[hidden_a] = args[1]
                return LambdaVal(ast.parse("lambda _pt_x: %s.%s(%s, _pt_x)" % (hidden_r, f0.name, hidden_a), mode="eval").body, dict(fr_.env), self)
            raise Reject("partial(...) form")
        if name == "sorted":
            return self.sorted_list(args[0], kwargs.get("key"), kwargs.get("reverse"))
        if name == "list" and len(args) == 1 and isinstance(args[0], SV) and isinstance(args[0].ty, T.List):
            return self.copy_list(args[0])
        if name == "deepcopy":
            (v,) = args
            if isinstance(v, SV) and isinstance(v.ty, T.Ref) and v.ty.cls and resolve_method(v.ty.cls, "__deepcopy__"):
                return self.call_function(resolve_method(v.ty.cls, "__deepcopy__"), [v, OpaqueObj("memo")], {})
            raise Reject("deepcopy of %r" % (v,))
        if name == "enumerate":
            start = kwargs.get("start", args[1] if len(args) > 1 else mk_int(0))
            return EnumerateVal(args[0], self.coerce(start, T.INT).z)
        if name == "copy":
            (v,) = args
            if isinstance(v, SV) and isinstance(v.ty, T.Val):
                q = resolve_method(v.ty.name, "__copy__")
                if q:
                    return self.call_function(q, [v], {})
                return v
            if isinstance(v, SV) and isinstance(v.ty, T.Ref):
                q = resolve_method(v.ty.cls, "__copy__")
                if q:
                    return self.call_function(q, [v], {})
            raise Reject("copy of %r" % (v,))
        if name == "print":
            return NONE_SV
        raise Reject("builtin %s" % name)

    def copy_list(self, v):
        t = v.ty
        self.touch(v)
        out = self.new_container(t)
        name, a = self.heap.carr(t, "len")
        self.heap.set(name, z3.Store(a, out.z, self.heap.c_len(t, v.z)))
        self.heap._upd(t, "elem", out.z, self.heap.l_elems(t, v.z))
        return out

    def sorted_list(self, v, key, reverse):
        """sorted(xs, key=f): library contract -- a fresh list that is a permutation of xs and is ordered by the
        key under python's `<` (stability is not modelled). The key function is evaluated symbolically on two
        arbitrary elements; the ordering fact is stated with that very term."""
        if reverse is not None:
            raise Reject("sorted(reverse=...)")
        if not (isinstance(v, SV) and isinstance(v.ty, T.List)):
            raise Reject("sorted over %r" % (v,))
        if key is None:
            # sorted(xs): ordered by the elements' own `<` (their __lt__ contract)
            key = LambdaVal(ast.parse("lambda _so_x: _so_x", mode="eval").body, dict(self.frames[-1].env), self)
        if not isinstance(key, LambdaVal) or len(key.node.args.args) != 1:
            raise Reject("sorted without a one-argument lambda key")
        t = v.ty
        self.touch(v)
        n = self.heap.c_len(t, v.z)
        out = self.new_container(t)
        name, a = self.heap.carr(t, "len")
        self.heap.set(name, z3.Store(a, out.z, n))
        es = T.sort(t.elem)
        elems = H.fresh("sorted_elems", z3.ArraySort(H.I, es))
        self.heap._upd(t, "elem", out.z, elems)
        src = self.heap.l_elems(t, v.z)
        perm = H.fresh("sorted_perm", z3.ArraySort(H.I, H.I))
        inv = H.fresh("sorted_inv", z3.ArraySort(H.I, H.I))
        i = z3.Int(H.fresh_name("so_i"))
        j = z3.Int(H.fresh_name("so_j"))
        e = z3.Const(H.fresh_name("so_e"), es)
        M = H.mem_fn(es)
        rng_i = z3.And(0 <= i, i < n)
        self.assume(z3.ForAll([i], z3.Implies(rng_i, z3.And(0 <= z3.Select(perm, i), z3.Select(perm, i) < n, z3.Select(inv, z3.Select(perm, i)) == i, z3.Select(elems, i) == z3.Select(src, z3.Select(perm, i)))), patterns=[z3.Select(elems, i)]))
        self.assume(z3.ForAll([i], z3.Implies(rng_i, z3.And(0 <= z3.Select(inv, i), z3.Select(inv, i) < n, z3.Select(perm, z3.Select(inv, i)) == i)), patterns=[z3.Select(inv, i)]))
        self.assume(z3.ForAll([e], M(elems, n, e) == M(src, n, e), patterns=[M(elems, n, e)]))
        # ordering: for positions i < j NOT key(out[j]) < key(out[i])
        pname = key.node.args.args[0].arg
        fr = self.frames[-1]
        saved = dict(fr.env)
        rng = z3.And(0 <= i, i < j, j < n)
        if getattr(self, "qctx", None) is not None:
            raise Reject("sorted inside a comprehension")
        self.qctx = ([i, j], rng)
        self._q_pending = []
        self._q_terms = []
        self.solver.push()
        self.solver_qf.push()
        self.solver.add(rng)
        self.solver_qf.add(rng)
        old = getattr(self, "no_fork", False)
        self.no_fork = True
        self._q_elem = [z3.Select(elems, i), z3.Select(elems, j)]
        try:
            xi = SV(t.elem, z3.Select(elems, i))
            xj = SV(t.elem, z3.Select(elems, j))
            for x_ in (xi, xj):
                for f in self.type_facts(x_):
                    self.assume(f)
            fr.env[pname] = xi
            ki = self.ev(key.node.body)
            fr.env[pname] = xj
            kj = self.ev(key.node.body)
            lt = self.order("Lt", kj, ki)
            self.assume(z3.Not(lt))
        finally:
            self._q_elem = None
            self.no_fork = old
            self.qctx = None
            self.solver.pop()
            self.solver_qf.pop()
            for b_ in self._q_pending:
                self.solver.add(b_)
            self._q_pending = []
            fr.env.clear()
            fr.env.update(saved)
        return out

    def min_max_over(self, name, v, key=None):
        """min(xs) / max(xs[, key=lambda]) over a list: ValueError when empty, otherwise an element that no other
        element beats under the key (python returns the first such element; only extremality and membership are
        modelled)."""
        if not (isinstance(v, SV) and isinstance(v.ty, T.List)):
            raise Reject("%s over %r" % (name, v))
        if key is not None and (not isinstance(key, LambdaVal) or len(key.node.args.args) != 1):
            raise Reject("%s with a key that is not a one-argument lambda" % name)
        t = v.ty
        n = self.heap.c_len(t, v.z)
        if self.choose(n == 0):
            raise Raise_("ValueError")
        r = SV(t.elem, H.fresh(name + "_of", T.sort(t.elem)))
        k = z3.Int(H.fresh_name("mm_k"))
        self.assume(z3.And(0 <= k, k < n, self.heap.l_elem(t, v.z, k) == r.z))
        self.assume_typed(r)
        j = z3.Int(H.fresh_name("mm_j"))
        if getattr(self, "qctx", None) is not None:
            raise Reject("min/max inside comprehension")
        fr = self.frames[-1]
        saved = dict(fr.env)
        rng = z3.And(0 <= j, j < n)
        self.qctx = ([j], rng)
        self._q_pending = []
        self.solver.push()
        self.solver_qf.push()
        self.solver.add(rng)
        self.solver_qf.add(rng)
        old = getattr(self, "no_fork", False)
        self.no_fork = True
        try:
            # select-over-store of a freshly built list is reduced so that the element term is the one the
            # list's defining facts are triggered by
            ej = SV(t.elem, z3.simplify(self.heap.l_elem(t, v.z, j)))
            self._q_elem = ej.z
            for f in self.type_facts(ej):
                self.assume(f)
            if key is None:
                kj, kr = ej, r
            else:
                pname = key.node.args.args[0].arg
                fr.env[pname] = ej
                kj = self.ev(key.node.body)
                fr.env[pname] = r
                kr = self.ev(key.node.body)
            beats = self.order("Lt", kj, kr) if name == "min" else self.order("Gt", kj, kr)
            self.assume(z3.Not(beats))
        finally:
            self._q_elem = None
            self.no_fork = old
            self.qctx = None
            self.solver.pop()
            self.solver_qf.pop()
            for b_ in self._q_pending:
                self.solver.add(b_)
            self._q_pending = []
            fr.env.clear()
            fr.env.update(saved)
        return r

    def isinstance_(self, v, c):
        if isinstance(c, PyTuple):
            return z3.Or(*[self.isinstance_(v, x) for x in c.items])
        if isinstance(c, Builtin):
            pt = {"int": T.INT, "str": T.STR, "float": T.REAL, "bool": T.BOOL}.get(c.name)
            if pt is None:
                raise Reject("isinstance builtin %s" % c.name)
            if isinstance(v, SV):
                if isinstance(v.ty, T.Opt):
                    return z3.And(z3.Not(T.opt_is_none(v.ty, v.z)), z3.BoolVal(v.ty.inner == pt))
                return z3.BoolVal(v.ty == pt or (pt == T.INT and v.ty == T.BOOL))
            return FALSE
        if not isinstance(c, ClassRef):
            raise Reject("isinstance with %r" % (c,))
        if not isinstance(v, SV):
            return FALSE
        t = v.ty
        if isinstance(t, T.Opt):
            return z3.And(z3.Not(T.opt_is_none(t, v.z)), self.isinstance_(SV(t.inner, T.opt_get(t, v.z)), c))
        if isinstance(t, (T.Val, T.Enum)):
            return z3.BoolVal(c.qname in CLASSES[t.name].mro_names())
        if isinstance(t, T.Ref):
            if c.qname not in CLASSES:
                raise Reject("isinstance of undeclared class")
            codes = [k.code for k in CLASSES[c.qname].subclasses()]
            tag = self.heap.cls_tag(v.z)
            return z3.And(v.z != 0, z3.Or(*[tag == k for k in codes]))
        return FALSE

    def type_of(self, v):
        if isinstance(v, dict):
            return ClassRef(self.frames[-1].cls)
        if isinstance(v, SV):
            t = v.ty
            if isinstance(t, (T.Val, T.Enum)):
                return ClassRef(t.name)
            if t == T.INT:
                return Builtin("int")
            if t == T.STR:
                return Builtin("str")
            if t == T.REAL:
                return Builtin("float")
            if t == T.BOOL:
                return Builtin("bool")
            if isinstance(t, T.Ref) and t.cls and len(CLASSES[t.cls].subclasses()) == 1:
                if self.feasible(v.z == 0):
                    if self.choose(v.z == 0):
                        return Builtin("NoneType")
                return ClassRef(t.cls)
            if isinstance(t, T.Opt) and isinstance(t.inner, (T.Val, T.Enum)):
                if self.choose(T.opt_is_none(t, v.z)):
                    return Builtin("NoneType")
                return ClassRef(t.inner.name)
        raise Reject("type(%r)" % (v,))

    def eq_pyobjs(self, a, b):
        if isinstance(a, ClassRef) and isinstance(b, ClassRef):
            return a.qname == b.qname
        if isinstance(a, Builtin) and isinstance(b, Builtin):
            return a.name == b.name
        if isinstance(a, (ClassRef, Builtin)) and isinstance(b, (ClassRef, Builtin)):
            return False
        return None

    # compare on python-level class objects (type(x) != EventTime)
    def compare_objs(self, op, a, b):
        r = self.eq_pyobjs(a, b)
        if r is None:
            return None
        if op in ("Eq", "Is"):
            return mk_bool(r)
        if op in ("NotEq", "IsNot"):
            return mk_bool(not r)
        return None

    def construct(self, qname, args, kwargs):
        info = CLASSES.get(qname)
        if info is None:
            raise Reject("constructor of undeclared class %s" % qname)
        if info.kind == "enum":
            raise Reject("enum lookup by value")
        q = qname + ".__init__"
        c = CONTRACTS.get(q)
        if c is None:
            raise Reject("constructor %s has no contract" % q)
        if info.kind == "val":
            return self.apply_contract(c, [None] + list(args), kwargs, ctor=info)
        o = SV(info.ty, self.new_obj(qname))
        self.apply_contract(c, [o] + list(args), kwargs)
        return o

    def call_bound(self, bm, args, kwargs):
        r = bm.recv
        if isinstance(r, PyTuple):
            raise Reject("method %s on tuple literal" % bm.name)
        t = r.ty
        if isinstance(t, (T.Val, T.Ref, T.Enum)) and not T.is_container(t):
            return self.call_method(r, bm.name, args, kwargs)
        if T.is_container(t):
            return self.container_method(r, bm.name, args, kwargs)
        raise Reject("method %s on %s" % (bm.name, t))

    def call_method(self, recv, name, args, kwargs):
        t = recv.ty
        cls = t.name if isinstance(t, (T.Val, T.Enum)) else t.cls
        if isinstance(t, T.Ref) and self.feasible(recv.z == 0):
            if self.choose(recv.z == 0):
                raise Raise_("AttributeError")
        q = resolve_method(cls, self.mangle_for(cls, name))
        if q is None:
            raise Reject("method %s.%s not found" % (cls, name))
        return self.call_function(q, [recv] + list(args), kwargs)

    def mangle_for(self, cls, name):
        return name

    def container_method(self, c, name, args, kwargs):
        t = c.ty
        self.touch(c)
        hp = self.heap
        if isinstance(t, T.Dict):
            if name in ("items", "keys", "values"):
                return DictView(name, c)
            if name == "get":
                a0 = args[0]
                if isinstance(a0, SV) and isinstance(a0.ty, T.Opt) and not isinstance(t.k, T.Opt):
                    # None is never a key of a dict whose keys are not Optional
                    if self.choose(T.opt_is_none(a0.ty, a0.z)):
                        return args[1] if len(args) > 1 else NONE_SV
                    a0 = SV(a0.ty.inner, T.opt_get(a0.ty, a0.z))
                k = self.key_of(a0, t.k)
                present = hp.d_dom(t, c.z, k)
                if self.choose(present):
                    return self.assume_typed(SV(t.v, hp.d_val(t, c.z, k)))
                return args[1] if len(args) > 1 else NONE_SV
            if name == "pop":
                k = self.key_of(args[0], t.k)
                present = hp.d_dom(t, c.z, k)
                if self.choose(present):
                    v = self.assume_typed(SV(t.v, hp.d_val(t, c.z, k)))
                    w, facts = hp.d_delete(t, c.z, k)
                    self.note_written(w)
                    for f in facts:
                        self.assume(f)
                    return v
                if len(args) > 1:
                    return args[1]
                raise Raise_("KeyError")
            raise Reject("dict.%s" % name)
        if isinstance(t, T.Set):
            if name == "add":
                k = self.key_of(args[0], t.elem)
                if not self.choose(hp.d_dom(t, c.z, k)):
                    self.note_written(hp.d_insert_new(t, c.z, k))
                return NONE_SV
            if name in ("remove", "discard"):
                k = self.key_of(args[0], t.elem)
                if self.choose(hp.d_dom(t, c.z, k)):
                    w, facts = hp.d_delete(t, c.z, k)
                    self.note_written(w)
                    for f in facts:
                        self.assume(f)
                elif name == "remove":
                    raise Raise_("KeyError")
                return NONE_SV
            raise Reject("set.%s" % name)
        if isinstance(t, T.List):
            if name == "append":
                old_elems, n0 = hp.l_elems(t, c.z), hp.c_len(t, c.z)
                z = self.coerce(args[0], t.elem).z
                self.note_written(hp.l_append(t, c.z, z))
                self.assume(hp.append_mem_fact(t, old_elems, n0, z))
                return NONE_SV
            if name == "remove":
                return self.list_remove(c, args[0])
            if name == "pop":
                return self.list_pop(c, args[0] if args else None)
            if name == "popleft":  # a deque modelled as a list
                return self.list_pop(c, mk_int(0))
            if name == "extend":
                return self.list_extend(c, args[0])
            raise Reject("list.%s" % name)
        raise Reject("container method")

    def list_extend(self, c, other):
        """lst.extend(other): other's elements appended in order (other is a list of the same type)"""
        t = c.ty
        hp = self.heap
        if isinstance(other, PyTuple):
            for x in other.items:
                self.container_method(c, "append", [x], {})
            return NONE_SV
        if not (isinstance(other, SV) and isinstance(other.ty, T.List) and other.ty == t):
            raise Reject("list.extend with %r" % (other,))
        self.touch(other)
        es = T.sort(t.elem)
        e1, n1 = hp.l_elems(t, c.z), hp.c_len(t, c.z)
        e2, n2 = hp.l_elems(t, other.z), hp.c_len(t, other.z)
        new = H.fresh("ext_elems", z3.ArraySort(H.I, es))
        j = z3.Int(H.fresh_name("ext_j"))
        e = z3.Const(H.fresh_name("ext_e"), es)
        M = H.mem_fn(es)
        # the same fact stated for both directions of use: by position in the new list, and by position in `other`
        self.assume(z3.ForAll([j], z3.And(z3.Implies(z3.And(0 <= j, j < n1), z3.Select(new, j) == z3.Select(e1, j)), z3.Implies(z3.And(n1 <= j, j < n1 + n2), z3.Select(new, j) == z3.Select(e2, j - n1))), patterns=[z3.Select(new, j)]))
        self.assume(z3.ForAll([j], z3.Implies(z3.And(0 <= j, j < n2), z3.Select(new, n1 + j) == z3.Select(e2, j)), patterns=[z3.Select(e2, j)]))
        # every indexed element of `other` is a member of it (consequence of the definition of membership)
        self.assume(z3.ForAll([j], z3.Implies(z3.And(0 <= j, j < n2), M(e2, n2, z3.Select(e2, j))), patterns=[z3.Select(e2, j)]))
        self.assume(z3.ForAll([e], M(new, n1 + n2, e) == z3.Or(M(e1, n1, e), M(e2, n2, e)), patterns=[M(new, n1 + n2, e)]))
        self.note_written([hp._upd(t, "elem", c.z, new)])
        name, a = hp.carr(t, "len")
        hp.set(name, z3.Store(a, c.z, n1 + n2))
        self.note_written([name])
        return NONE_SV

    def list_pop(self, c, idx):
        """list.pop([i]): IndexError when empty / out of range; removes and returns the element at i (default: last),
        later elements shift down by one."""
        t = c.ty
        hp = self.heap
        self.touch(c)
        es = T.sort(t.elem)
        elems, n = hp.l_elems(t, c.z), hp.c_len(t, c.z)
        i = z3.IntVal(-1) if idx is None else self.coerce(idx, T.INT).z
        p = z3.If(i < 0, i + n, i)
        if self.choose(z3.Or(p < 0, p >= n)):
            raise Raise_("IndexError")
        xz = z3.Select(elems, p)
        res = SV(t.elem, z3.Const(H.fresh_name("popped"), es))
        self.assume(res.z == xz)
        self.assume_typed(res)
        j = z3.Int(H.fresh_name("pp_j"))
        e = z3.Const(H.fresh_name("pp_e"), es)
        new = H.fresh("pop_elems", z3.ArraySort(H.I, es))
        M = H.mem_fn(es)
        self.assume(z3.ForAll([j], z3.And(z3.Implies(z3.And(0 <= j, j < p), z3.Select(new, j) == z3.Select(elems, j)), z3.Implies(z3.And(p <= j, j < n - 1), z3.Select(new, j) == z3.Select(elems, j + 1))), patterns=[z3.Select(new, j)]))
        self.assume(z3.ForAll([e], z3.Implies(M(new, n - 1, e), M(elems, n, e)), patterns=[M(new, n - 1, e)]))
        self.assume(z3.ForAll([e], z3.Implies(z3.And(M(elems, n, e), e != res.z), M(new, n - 1, e)), patterns=[M(elems, n, e)]))
        self.note_written([hp._upd(t, "elem", c.z, new)])
        name, a = hp.carr(t, "len")
        hp.set(name, z3.Store(a, c.z, n - 1))
        self.note_written([name])
        return res

    def list_remove(self, c, x):
        """list.remove(x): first element equal to x (identity / structural ==) is removed."""
        t = c.ty
        hp = self.heap
        if isinstance(t.elem, T.Val) and resolve_method(t.elem.name, "__eq__"):
            raise Reject("list.remove with custom __eq__")
        if isinstance(t.elem, T.Ref) and t.elem.cls and resolve_method(t.elem.cls, "__eq__"):
            ceq = CONTRACTS.get(t.elem.cls + ".__eq__")
            if not (ceq is not None and ceq.trusted and ceq.eq_identity):
                raise Reject("list.remove with custom __eq__")
        xz = self.coerce(x, t.elem).z
        es = T.sort(t.elem)
        elems, n = hp.l_elems(t, c.z), hp.c_len(t, c.z)
        M = H.mem_fn(es)
        self.assume(H.mem_def(es, elems, n, xz))
        if not self.choose(M(elems, n, xz)):
            raise Raise_("ValueError")
        p = z3.Int(H.fresh_name("rm_p"))
        j = z3.Int(H.fresh_name("rm_j"))
        e = z3.Const(H.fresh_name("rm_e"), es)
        new = H.fresh("rm_elems", z3.ArraySort(H.I, es))
        self.assume(z3.And(0 <= p, p < n, z3.Select(elems, p) == xz))
        self.assume(z3.ForAll([j], z3.Implies(z3.And(0 <= j, j < p), z3.Select(elems, j) != xz), patterns=[z3.Select(elems, j)]))
        self.assume(z3.ForAll([j], z3.And(z3.Implies(z3.And(0 <= j, j < p), z3.Select(new, j) == z3.Select(elems, j)), z3.Implies(z3.And(p <= j, j < n - 1), z3.Select(new, j) == z3.Select(elems, j + 1))), patterns=[z3.Select(new, j)]))
        # consequences of the shift for membership (true of every list; part of the list encoding)
        self.assume(z3.ForAll([e], z3.Implies(M(new, n - 1, e), M(elems, n, e)), patterns=[M(new, n - 1, e)]))
        self.assume(z3.ForAll([e], z3.Implies(z3.And(M(elems, n, e), e != xz), M(new, n - 1, e)), patterns=[M(elems, n, e)]))
        self.note_written([hp._upd(t, "elem", c.z, new)])
        name, a = hp.carr(t, "len")
        hp.set(name, z3.Store(a, c.z, n - 1))
        self.note_written([name])
        return NONE_SV

    # ---- user functions -----------------------------------------------------------------------
    def call_function(self, qname, args, kwargs):
        c = CONTRACTS.get(qname)
        if c is None:
            fdef, cls, kind = find_function(qname)
            body = self.body_of(fdef, None)
            if kind == "property" and len(body) == 1 and isinstance(body[0], ast.Return):
                c = Contract(qname, inline=True, note="auto-inlined one-line property getter")
            elif self.depth < 3 and not any(isinstance(n_, (ast.For, ast.While, ast.Try, ast.With, ast.Yield, ast.YieldFrom)) for n_ in ast.walk(fdef)):
                # a loop-free helper without a contract (e.g. one introduced by a refactoring): execute its
                # body at the call site instead of giving up; listed in the evidence as inlined
                c = Contract(qname, inline=True, note="auto-inlined loop-free helper without a contract")
                self.v.auto_inlined.add(qname)
            else:
                raise Reject("call of %s: no contract and not declared inline" % qname)
        if c.inline:
            return self.inline_call(qname, c, args, kwargs)
        return self.apply_contract(c, args, kwargs)

    def bind_args(self, qname, contract, args, kwargs, fdef=None):
        """positional/keyword binding against the real signature; defaults from the source."""
        if fdef is None:
            fdef, cls, kind = find_function(qname)
        a = fdef.args
        if a.vararg or a.kwarg:
            raise Reject("*args/**kwargs in %s" % qname)
        names = [x.arg for x in a.posonlyargs + a.args]
        kind = find_function(qname)[2] if fdef is not None else "function"
        bound = {}
        for n, v in zip(names, args):
            bound[n] = v
        if len(args) > len(names):
            raise Reject("too many args for %s" % qname)
        for k, v in kwargs.items():
            k2 = k
            if k2 not in names and k2 not in [x.arg for x in a.kwonlyargs]:
                raise Reject("unknown kwarg %s for %s" % (k, qname))
            bound[k2] = v
        defaults = dict(zip(names[len(names) - len(a.defaults):], a.defaults))
        for x, d in zip(a.kwonlyargs, a.kw_defaults):
            if d is not None:
                defaults[x.arg] = d
        mod = split_qname(qname)[0]
        for n in names + [x.arg for x in a.kwonlyargs]:
            if n not in bound:
                if n not in defaults:
                    raise Reject("missing arg %s for %s" % (n, qname))
                self.frames.append(Frame(mod + ".<default>", ast.parse("pass"), None, {}, mod))
                try:
                    bound[n] = self.ev(defaults[n])
                finally:
                    self.frames.pop()
        return bound

    def typed_args(self, contract, bound):
        out = {}
        for n, v in bound.items():
            if n in contract.params:
                if v is None:
                    out[n] = None
                else:
                    out[n] = self.coerce(v, contract.params[n])
            else:
                out[n] = v
        return out

    def inline_call(self, qname, c, args, kwargs):
        if self.depth > 6:
            raise Reject("inline depth")
        fdef, cls, kind = find_function(qname)
        bound = self.bind_args(qname, c, args, kwargs, fdef)
        bound = self.typed_args(c, bound)
        mod = split_qname(qname)[0]
        self.frames.append(Frame(qname, fdef, cls, dict(bound), mod))
        self.depth += 1
        self.v.inlined.add(qname)
        try:
            self.exec_block(self.body_of(fdef, c))
            r = NONE_SV
        except Return_ as e:
            r = e.value
        finally:
            self.depth -= 1
            self.frames.pop()
        return r

    def body_of(self, fdef, contract):
        body = list(fdef.body)
        if body and isinstance(body[0], ast.Expr) and isinstance(body[0].value, ast.Constant) and isinstance(body[0].value.value, str):
            body = body[1:]
        return body

    def apply_contract(self, c, args, kwargs, ctor=None):
        qname = c.qname
        if c.trusted and c.params and not _has_source(qname):
            names = list(c.params)
            bound = dict(zip(names, args))
            bound.update(kwargs)
        else:
            bound = self.bind_args(qname, c, args, kwargs)
        if ctor is not None:
            bound.pop("self", None)
        targs = {}
        for n, v in bound.items():
            if n in c.params:
                targs[n] = self.coerce(v, c.params[n])
            elif isinstance(v, SV):
                targs[n] = v
        pre = self.heap.copy()
        cc = Ctx(targs, pre, pre, run=self, alloc0=self.cur_alloc())
        site = "%s@%s" % (qname, ".".join(map(str, self.taken[-6:])))
        if c.requires is not None:
            req = c.requires(cc)
            for nm, g in _named(req, "requires"):
                self.oblige("call:%s.%s" % (qname.split(".", 1)[-1], nm), g, site=str(len(self.taken)), kind="call")
        # exceptional exits
        for exc, cond in c.raises.items():
            cz = cond(cc)
            if isinstance(cz, bool):
                cz = z3.BoolVal(cz)
            if self.choose(cz):
                raise Raise_(exc)
        for exc in c.may_raise:
            if self.choose_n(2) == 1:
                raise Raise_(exc)
        # normal exit: havoc the frame, assume ensures
        mods = c.modifies(cc) if c.modifies else {}
        post = self.heap
        for name, objs in mods.items():
            try:
                old = post.ensure(name)
            except KeyError:
                raise Reject("modifies of unknown heap array %s" % name)
            new = H.fresh("hv_" + name, old.sort())
            if objs is not ANY:
                r = z3.Int(H.fresh_name("fr_r"))
                cond = z3.And(*[r != o for o in objs]) if objs else TRUE
                self.assume(
                    z3.ForAll([r], z3.Implies(z3.And(cond, r < cc.alloc0), z3.Select(new, r) == z3.Select(old, r)), patterns=[z3.Select(new, r)])
                )
            post.set(name, new)
            self.note_written([name])
        res = None
        q = getattr(self, "qctx", None)
        if q is not None and mods:
            raise Reject("call with side effects inside a comprehension")

        def fresh_res(prefix, sort_):
            if q is None:
                return H.fresh(prefix, sort_)
            qv = q[0] if isinstance(q[0], list) else [q[0]]
            app = z3.Function(H.fresh_name(prefix), *([H.I] * len(qv) + [sort_]))(*qv)
            if not hasattr(self, "_q_terms"):
                self._q_terms = []
            self._q_terms.append(app)
            return app

        if ctor is not None:
            res = SV(ctor.ty, fresh_res("new_" + ctor.short, T.sort(ctor.ty)))
        elif c.ret is not None and c.ret != T.NONE:
            res = SV(c.ret, fresh_res("ret_" + qname.split(".")[-1], T.sort(c.ret)))
        # fresh objects the callee may have allocated: bump allocation counter by an unknown amount
        if getattr(c, "allocates", False) or (c.ret is not None and T.is_reflike(c.ret)):
            bump = z3.Int(H.fresh_name("bump"))
            self.assume(bump >= 0)
            self.alloc0_shift(bump)
        if res is not None:
            self.assume_typed(res)
        cc2 = Ctx(targs, pre, post, res=res, run=self, alloc0=cc.alloc0)
        if c.ensures is not None:
            for nm, g in _named(c.ensures(cc2), "ensures"):
                self.assume(g)
        if res is not None and isinstance(res.ty, T.List):
            # true of every list: membership is "some index holds the value" (contracts of list-returning callees speak of
            # membership, callers often iterate by index)
            self.assume(self.heap.l_mem_def(res.ty, res.z))
            self.assume(self.heap.l_index_mem(res.ty, res.z))
        return res if res is not None else NONE_SV

    def alloc0_shift(self, bump):
        # allocation counter = alloc0 + nalloc ; fold an unknown non-negative bump into a new base
        base = z3.Int(H.fresh_name("$alloc"))
        self.assume(base == self.alloc0 + self.nalloc + bump)
        self.alloc0 = base
        self.nalloc = 0

    # -------------------------------------------------------------------------------------------
    # statements
    def exec_block(self, stmts):
        for s in stmts:
            self.exec_stmt(s)

    def exec_stmt(self, s):
        fr = self.frames[-1]
        self.cur_line = getattr(s, "lineno", 0)
        c = CONTRACTS.get(fr.qname)
        if is_logger_call(s):
            self.dropped.append(ast.unparse(s)[:80])
            return
        if c is not None and c.drops:
            src = ast.unparse(s)
            for d in c.drops:
                if src.startswith(d) or (self.depth == 0 and src.startswith(alias_text(d))):
                    self.dropped.append(src[:80])
                    return
        if c is not None and getattr(c, "at", None) and self.depth == 0:
            src = ast.unparse(s)
            for prefix, fn in c.at.items():
                if src.startswith(prefix) or src.startswith(alias_text(prefix)):
                    cc = Ctx(self.v.entry_args, self.v.pre_heap, self.heap, run=self, alloc0=self.v.alloc_entry)
                    for nm, g in _named(fn(cc, LoopCtx(None, None, fr.env, fr.env, self.heap, "at")), "at"):
                        self.oblige("at.%s" % nm, g, site="at:" + prefix[:40], kind="at")
                    self.v.at_hits.add(prefix)
        m = getattr(self, "st_" + type(s).__name__, None)
        if m is None:
            raise Reject("statement %s" % type(s).__name__)
        m(s)

    def st_Pass(self, s):
        pass

    def st_FunctionDef(self, s):
        """a local helper `def f(x): return <expr>` (optionally with a docstring) is a named lambda"""
        body = [st for st in s.body if not (isinstance(st, ast.Expr) and isinstance(st.value, ast.Constant) and isinstance(st.value.value, str))]
        if len(body) != 1 or not isinstance(body[0], ast.Return) or body[0].value is None or s.decorator_list or s.args.vararg or s.args.kwarg or s.args.kwonlyargs or s.args.defaults:
            raise Reject("nested function %s (only a single-return helper is in the subset)" % s.name)
        lam = ast.Lambda(args=s.args, body=body[0].value)
        ast.copy_location(lam, s)
        ast.fix_missing_locations(lam)
        self.frames[-1].env[s.name] = LambdaVal(lam, dict(self.frames[-1].env), self)

    def st_Expr(self, s):
        if isinstance(s.value, ast.Constant):
            return
        self.ev(s.value)

    def st_Return(self, s):
        raise Return_(self.ev(s.value) if s.value is not None else NONE_SV)

    def st_Raise(self, s):
        if s.exc is None:
            raise Reject("bare raise")
        e = s.exc
        if isinstance(e, ast.Call):
            e = e.func
        if isinstance(e, ast.Name):
            raise Raise_(e.id)
        raise Reject("raise of %s" % ast.unparse(s.exc))

    def st_Assert(self, s):
        c = self.truthy(self.ev(s.test))
        if not self.choose(c):
            raise Raise_("AssertionError")

    def st_If(self, s):
        t = self.ev(s.test)
        cond = z3.simplify(self.truthy(t))
        if not (z3.is_true(cond) or z3.is_false(cond)):
            if _only_logging(s.body) and _only_logging(s.orelse):
                return  # both arms are dropped log statements: nothing to execute, no fork
            if not has_quantifier(cond) and self.feasible(cond) and self.feasible(z3.Not(cond)) and _mergeable(s.body) and _mergeable(s.orelse):
                if self.try_merged_if(s, cond):
                    return
        if self.choose(cond):
            self.exec_block(s.body)
        else:
            self.exec_block(s.orelse)

    def try_merged_if(self, s, cond):
        """if-conversion: run both arms under their guard on copies of the state and join the results with
        z3 `If` (no path fork). Only for arms that do not exit, fork or allocate."""
        fr = self.frames[-1]
        base_heap = self.heap
        base_env = dict(fr.env)
        base_pc = len(self.pc)
        base_taken = len(self.taken)
        base_alts = len(self.alternatives)
        base_alloc = (self.alloc0, self.nalloc)
        base_obl = set(self.v.obligations)
        results = []
        ok = True
        for branch, guard in ((s.body, cond), (s.orelse, z3.Not(cond))):
            self.heap = base_heap.copy()
            fr.env.clear()
            fr.env.update(base_env)
            self.solver.push()
            self.solver_qf.push()
            self.merge_depth = getattr(self, "merge_depth", 0) + 1
            try:
                self.assume(guard)
                self.exec_block(branch)
                if (self.alloc0, self.nalloc) != base_alloc and not (self.alloc0.eq(base_alloc[0]) and self.nalloc == base_alloc[1]):
                    raise MergeAbort()
                results.append((self.heap, dict(fr.env), list(self.pc[base_pc + 1 :])))
            except (MergeAbort, Return_, Raise_, Break_, Continue_, PathEnd):
                ok = False
            finally:
                self.merge_depth -= 1
                self.solver.pop()
                self.solver_qf.pop()
                del self.pc[base_pc:]
            if not ok:
                break
        if ok:
            (h1, e1, f1), (h2, e2, f2) = results
            merged_env = {}
            for name in set(e1) | set(e2):
                a, b = e1.get(name), e2.get(name)
                if a is b:
                    merged_env[name] = a
                elif isinstance(a, SV) and isinstance(b, SV) and a.ty == b.ty:
                    merged_env[name] = a if a.z.eq(b.z) else SV(a.ty, z3.If(cond, a.z, b.z))
                elif a is None or b is None:
                    continue  # defined on one arm only: unusable afterwards (python would raise if read)
                else:
                    ok = False
                    break
        if not ok:
            # restore everything and let the caller fork
            self.heap = base_heap
            fr.env.clear()
            fr.env.update(base_env)
            del self.taken[base_taken:]
            del self.alternatives[base_alts:]
            self.alloc0, self.nalloc = base_alloc
            for k in list(self.v.obligations):
                if k not in base_obl:
                    del self.v.obligations[k]
            return False
        merged = base_heap.copy()
        joins = []
        for name in sorted(set(h1.arr) | set(h2.arr)):
            a = h1.arr.get(name)
            b = h2.arr.get(name)
            if a is None:
                a = h2.get(name) if name in base_heap.arr else z3.Const("%s0!%s" % (h1.tag, name), b.sort())
            if b is None:
                b = h1.get(name) if name in base_heap.arr else z3.Const("%s0!%s" % (h2.tag, name), a.sort())
            if a.eq(b):
                merged.set(name, a)
            else:
                # a named array (so that quantifier patterns over it stay legal) defined as the guarded join
                m_ = H.fresh("mg_" + name, a.sort())
                joins.append(m_ == z3.If(cond, a, b))
                merged.set(name, m_)
        self.heap = merged
        for j_ in joins:
            self.assume(j_)
        fr.env.clear()
        fr.env.update(merged_env)
        for f_ in f1:
            self.assume(z3.Implies(cond, f_))
        for f_ in f2:
            self.assume(z3.Implies(z3.Not(cond), f_))
        return True

    def st_Assign(self, s):
        v = self.ev(s.value)
        for t in s.targets:
            self.assign(t, v)

    def st_AnnAssign(self, s):
        if s.value is None:
            return
        self.assign(s.target, self.ev(s.value))

    def st_AugAssign(self, s):
        load = _as_load(s.target)
        cur = self.ev(load)
        v = self.binop(type(s.op).__name__, cur, self.ev(s.value))
        self.assign(s.target, v)

    def st_Delete(self, s):
        for t in s.targets:
            if not isinstance(t, ast.Subscript):
                raise Reject("del of non-subscript")
            base = self.ev(t.value)
            k = self.ev(t.slice)
            if not (isinstance(base, SV) and isinstance(base.ty, T.Dict)):
                raise Reject("del on %r" % (base,))
            self.touch(base)
            kz = self.key_of(k, base.ty.k)
            if not self.choose(self.heap.d_dom(base.ty, base.z, kz)):
                raise Raise_("KeyError")
            w, facts = self.heap.d_delete(base.ty, base.z, kz)
            self.note_written(w)
            for f in facts:
                self.assume(f)

    def assign(self, target, v):
        fr = self.frames[-1]
        if isinstance(target, ast.Name):
            c_ = CONTRACTS.get(fr.qname)
            lt = getattr(c_, "locals", None) if c_ is not None else None
            lk = target.id
            if lt and lk not in lt and self.depth == 0:
                for old_, new_ in LOCAL_ALIASES.items():
                    if new_ == lk and old_ in lt:
                        lk = old_  # the local was renamed: its declared type is recorded under the old name
            if lt and lk in lt and (isinstance(v, (EmptyContainer, PyTuple)) or (isinstance(v, SV) and v.ty != lt[lk])):
                # a declared static type of a local: container literals become containers of that type, and a local that
                # holds None or a value (Optional[...]) is kept at its declared optional type on every path
                v = self.coerce(v, lt[lk])
            fr.env[target.id] = v
            return
        if isinstance(target, (ast.Tuple, ast.List)):
            items = self.unpack(v, len(target.elts))
            for t, x in zip(target.elts, items):
                self.assign(t, x)
            return
        if isinstance(target, ast.Attribute):
            base = self.ev(target.value)
            attr = self.mangle(target.attr)
            if isinstance(base, dict):  # value object under construction
                base[attr] = v
                return
            if isinstance(base, SV) and base.ty == T.NONE:
                raise Raise_("AttributeError")
            if isinstance(base, SV) and isinstance(base.ty, T.Ref):
                if self.feasible(base.z == 0):
                    if self.choose(base.z == 0):
                        raise Raise_("AttributeError")
                info = CLASSES[base.ty.cls]
                if info.field_owner(attr) is None:
                    raise Reject("write to undeclared field %s.%s" % (base.ty.cls, attr))
                fty = info.field_owner(attr).all_fields()[attr]
                if fty == T.OPAQUE:
                    return
                cv = self.coerce(v, fty)
                if isinstance(fty, T.Ref) and not getattr(fty, "nullable", False):
                    self.oblige("type.nonnull_field.%s" % attr, cv.z != 0, kind="type")
                self.note_written([self.heap.wr(base.z, base.ty.cls, attr, cv.z)])
                return
            if isinstance(base, ClassRef) or isinstance(base, OpaqueObj):
                raise Reject("write to class attribute")
            raise Reject("attribute store on %r" % (base,))
        if isinstance(target, ast.Subscript):
            base = self.ev(target.value)
            k = self.ev(target.slice)
            if isinstance(base, SV) and isinstance(base.ty, T.Dict):
                t = base.ty
                self.touch(base)
                kz = self.key_of(k, t.k)
                vz = self.coerce(v, t.v).z
                if self.choose(self.heap.d_dom(t, base.z, kz)):
                    self.note_written(self.heap.d_update(t, base.z, kz, vz))
                else:
                    self.note_written(self.heap.d_insert_new(t, base.z, kz, vz))
                return
            if isinstance(base, SV) and isinstance(base.ty, T.List):
                t = base.ty
                self.touch(base)
                n = self.heap.c_len(t, base.z)
                i = self.coerce(k, T.INT).z
                eff = z3.If(i < 0, i + n, i)
                if self.choose(z3.Or(eff < 0, eff >= n)):
                    raise Raise_("IndexError")
                self.note_written(self.heap.l_set(t, base.z, eff, self.coerce(v, t.elem).z))
                return
            raise Reject("subscript store on %r" % (base,))
        raise Reject("assignment target %s" % type(target).__name__)

    def unpack(self, v, n):
        if isinstance(v, PyTuple):
            if len(v.items) != n:
                raise Raise_("ValueError")
            return v.items
        if isinstance(v, SV) and isinstance(v.ty, T.Tup):
            if len(v.ty.elems) != n:
                raise Raise_("ValueError")
            return [SV(e, T.tup_get(v.ty, v.z, i)) for i, e in enumerate(v.ty.elems)]
        raise Reject("unpack of %r" % (v,))

    # ---- loops -------------------------------------------------------------------------------
    def iter_desc(self, it):
        """Describe an iterable as (length z3 Int, elem(i)->value, container or None)."""
        if isinstance(it, PyTuple):
            raise Reject("loop over literal tuple")  # handled by unrolling in st_For
        if isinstance(it, RangeVal):
            n = z3.If(it.hi > it.lo, it.hi - it.lo, 0)
            return n, (lambda i: SV(T.INT, it.lo + i)), None
        if isinstance(it, EnumerateVal):
            n, elem, cont = self.iter_desc(it.seq)
            return n, (lambda i: PyTuple([SV(T.INT, it.start + i), elem(i)])), cont
        if isinstance(it, DictView):
            d = it.d
            t = d.ty
            self.touch(d)
            hp = self.heap.copy()
            n = hp.c_len(t, d.z)
            if it.kind == "keys":
                return n, (lambda i: SV(t.k, hp.d_key(t, d.z, i))), d
            if it.kind == "values":
                return n, (lambda i: SV(t.v, self.heap.d_val(t, d.z, hp.d_key(t, d.z, i)))), d
            return n, (lambda i: PyTuple([SV(t.k, hp.d_key(t, d.z, i)), SV(t.v, self.heap.d_val(t, d.z, hp.d_key(t, d.z, i)))])), d
        if isinstance(it, SV) and isinstance(it.ty, T.Dict):
            return self.iter_desc(DictView("keys", it))
        if isinstance(it, SV) and isinstance(it.ty, T.List):
            self.touch(it)
            hp = self.heap.copy()
            t = it.ty
            n = hp.c_len(t, it.z)
            return n, (lambda i: SV(t.elem, self.heap.l_elem(t, it.z, i))), it
        if isinstance(it, SV) and isinstance(it.ty, T.Set):
            # arbitrary enumeration order: a fresh permutation consistent with membership
            t = it.ty
            self.touch(it)
            ks = T.sort(t.elem)
            perm = H.fresh("setorder", z3.ArraySort(H.I, ks))
            pidx = H.fresh("setidx", z3.ArraySort(ks, H.I))
            n = self.heap.c_len(t, it.z)
            dom = self.heap.d_doms(t, it.z)
            i = z3.Int(H.fresh_name("so_i"))
            k = z3.Const(H.fresh_name("so_k"), ks)
            self.assume(z3.ForAll([i], z3.Implies(z3.And(0 <= i, i < n), z3.And(z3.Select(dom, z3.Select(perm, i)), z3.Select(pidx, z3.Select(perm, i)) == i)), patterns=[z3.Select(perm, i)]))
            self.assume(z3.ForAll([k], z3.Implies(z3.Select(dom, k), z3.And(0 <= z3.Select(pidx, k), z3.Select(pidx, k) < n, z3.Select(perm, z3.Select(pidx, k)) == k)), patterns=[z3.Select(dom, k)]))
            return n, (lambda j: SV(t.elem, z3.Select(perm, j))), it
        if isinstance(it, SV) and isinstance(it.ty, T.Ref) and it.ty.cls in CLASSES and getattr(CLASSES[it.ty.cls], "iter_field", None):
            # `for x in obj` where obj.__iter__ yields the elements of one list field (declared in the shape)
            fty, z = self.heap.rd(it.z, it.ty.cls, CLASSES[it.ty.cls].iter_field)
            fv = self.assume_typed(SV(fty, z))
            if isinstance(fty, T.Dict) and getattr(CLASSES[it.ty.cls], "iter_kind", None) == "values":
                return self.iter_desc(DictView("values", fv))  # __iter__ yields the values of a dict field
            return self.iter_desc(fv)
        raise Reject("iteration over %r" % (it,))

    def loop_spec(self, node):
        fr = self.frames[-1]
        c = CONTRACTS.get(fr.qname)
        k = fr.loop_ordinals.get(id(node))
        spec = c.loops.get(k) if c is not None else None
        return c, k, spec

    def havoc_for_loop(self, node, c, spec, cc):
        """Havoc assigned locals and the heap arrays the loop may write. Returns head snapshot."""
        fr = self.frames[-1]
        names = assigned_names(node.body + node.orelse)
        if isinstance(node, ast.For):
            names |= assigned_names([ast.Assign(targets=[node.target], value=ast.Constant(0))])
        entry_env = dict(fr.env)
        for nme in sorted(names):
            if nme in fr.env:
                v = fr.env[nme]
                if isinstance(v, SV):
                    nv = SV(v.ty, H.fresh("lv_" + nme, T.sort(v.ty)))
                    fr.env[nme] = nv
                    self.assume_typed(nv)
                elif isinstance(v, PyTuple):
                    raise Reject("loop-carried python tuple %s" % nme)
                else:
                    raise Reject("loop-carried non-symbolic local %s" % nme)
        mods = None
        if spec is not None and spec.modifies is not None:
            mods = spec.modifies(cc)
        elif c is not None and c.modifies is not None:
            mods = c.modifies(cc)
        mods = mods or {}
        head_before = self.heap.copy()
        alloc_at_head = self.cur_alloc()
        for name, objs in mods.items():
            old = self.heap.ensure(name)
            new = H.fresh("lh_" + name, old.sort())
            if objs is not ANY:
                r = z3.Int(H.fresh_name("fr_r"))
                # objects that existed when the loop was entered and are not listed keep their contents;
                # objects allocated by earlier iterations may differ
                cond = z3.And(r < alloc_at_head, *[r != o for o in objs])
                self.assume(z3.ForAll([r], z3.Implies(cond, z3.Select(new, r) == z3.Select(old, r)), patterns=[z3.Select(new, r)]))
            self.heap.set(name, new)
        # objects allocated by earlier iterations: the allocation counter is unknown but not smaller
        bump = z3.Int(H.fresh_name("lbump"))
        self.assume(bump >= 0)
        self.alloc0_shift(bump)
        return entry_env, set(mods), head_before

    def check_loop_local_types(self, entry_env):
        """The arbitrary iteration starts with every loop-carried local at the static type it had on loop entry (e.g. a
        local initialised to None is None). That is only sound if the type is the same again at the back edge; a body
        that re-binds such a local to a value of another type and keeps iterating is outside the subset."""
        fr = self.frames[-1]
        for nme, v0 in entry_env.items():
            v1 = fr.env.get(nme)
            if isinstance(v0, SV) and isinstance(v1, SV) and v0.ty != v1.ty:
                raise Reject("loop-carried local %s changes its static type across iterations (%s -> %s)" % (nme, v0.ty, v1.ty))

    def check_loop_frame(self, havoced, head_after_havoc):
        """Arrays not havoced at the loop head must not change for objects that existed at the head: either they
        are syntactically untouched, or (e.g. temporaries such as a comprehension's list) an obligation shows the
        body wrote only to objects allocated inside the iteration."""
        alloc_head = getattr(head_after_havoc, "alloc_at_head", None)
        for name, arr in list(self.heap.arr.items()):
            if name in havoced or name == "$cls":
                continue
            old = head_after_havoc.arr.get(name)
            if old is None:
                if z3.is_const(arr):
                    continue
                old = z3.Const("%s0!%s" % (self.heap.tag, name), arr.sort())
            if arr.eq(old):
                continue
            if alloc_head is None:
                raise Reject("loop body writes heap array %s that the loop frame does not list" % name)
            r = z3.Int("lf_r!" + name)
            self.oblige("loop.writes_only_fresh_objects.%s" % name, z3.Implies(z3.And(r >= 0, r < alloc_head), z3.Select(arr, r) == z3.Select(old, r)), site="loopframe", kind="frame")

    def st_For(self, s):
        it = self.ev(s.iter)
        if _only_logging(s.body) and not s.orelse:
            return  # nothing but dropped log statements: the loop has no effect
        if isinstance(it, PyTuple):
            # literal: unroll
            for x in it.items:
                self.assign(s.target, x)
                try:
                    self.exec_block(s.body)
                except Continue_:
                    continue
                except Break_:
                    return
            self.exec_block(s.orelse)
            return
        fr = self.frames[-1]
        c, k, spec = self.loop_spec(s)
        fn_args = self.v.entry_args if self.depth == 0 else {}
        pre = self.v.pre_heap if self.depth == 0 else self.heap.copy()
        n, elem, cont = self.iter_desc(it)
        mk_cc = lambda: Ctx(fn_args, pre, self.heap, run=self, alloc0=self.v.alloc_entry)
        tag = "%s.loop%d" % (fr.qname.split(".")[-1], k)

        iter_heap = [None]

        def mkL(i):
            L = LoopCtx(i, it, fr.env, entry_env, head_before, "for")
            L.n = n
            L.elem = elem
            L.cont = cont
            L.iter_heap = iter_heap[0]
            return L

        def lemmas_at(i, phase):
            if spec is None or getattr(spec, "lemmas", None) is None:
                return
            for fct in spec.lemmas(mk_cc(), mkL(i), phase) or []:
                self.use_fact(fct)

        def inv_at(i, label, assume):
            if spec is None or spec.inv is None:
                return
            L = mkL(i)
            for nm, g in _named(spec.inv(mk_cc(), L), "inv"):
                if assume:
                    self.assume(g)
                else:
                    self.oblige("%s.inv.%s.%s" % (tag, nm, label), g, site=tag, kind="inv")

        entry_env = dict(fr.env)
        head_before = self.heap.copy()
        inv_at(z3.IntVal(0), "entry", False)
        entry_env, havoced, head_before = self.havoc_for_loop(s, c, spec, mk_cc())
        head = self.heap.copy()
        head.alloc_at_head = self.cur_alloc()
        which = self.choose_n(2, "loop")
        if which == 0:
            # an arbitrary iteration
            i = z3.Int(H.fresh_name("it"))
            self.assume(z3.And(0 <= i, i < n))
            inv_at(i, "assume", True)
            x = elem(i)
            if isinstance(x, SV):
                self.assume_typed(x)
                if cont is not None and isinstance(cont.ty, T.List):
                    self.assume(self.heap.l_mem(cont.ty, cont.z, x.z))  # the i-th element is a member
            elif isinstance(x, PyTuple):
                for y in x.items:
                    self.assume_typed(y)
                if isinstance(it, EnumerateVal) and cont is not None and isinstance(cont.ty, T.List) and isinstance(x.items[1], SV):
                    self.assume(self.heap.l_mem(cont.ty, cont.z, x.items[1].z))
            self.assign(s.target, x)
            iter_heap[0] = self.heap.copy()
            lemmas_at(i, "start")
            try:
                self.exec_block(s.body)
            except Continue_:
                pass
            except Break_:
                self.check_loop_frame(havoced, head)
                lemmas_at(i, "break")
                return  # continue after the loop with the state at the break
            self.check_loop_frame(havoced, head)
            self.check_loop_local_types(entry_env)
            lemmas_at(i, "end")
            if cont is not None:
                # python raises RuntimeError when a dict/set changes size during iteration
                self.oblige("%s.no_resize" % tag, self.heap.c_len(cont.ty, cont.z) == n, site=tag, kind="inv")
            inv_at(i + 1, "preserved", False)
            raise PathEnd()
        # loop exit without break
        self.assume(n >= 0)
        inv_at(n, "assume", True)
        lemmas_at(n, "exit")
        self.exec_block(s.orelse)

    def st_While(self, s):
        fr = self.frames[-1]
        c, k, spec = self.loop_spec(s)
        fn_args = self.v.entry_args if self.depth == 0 else {}
        pre = self.v.pre_heap if self.depth == 0 else self.heap.copy()
        mk_cc = lambda: Ctx(fn_args, pre, self.heap, run=self, alloc0=self.v.alloc_entry)
        tag = "%s.loop%d" % (fr.qname.split(".")[-1], k)

        def inv_at(label, assume):
            if spec is None or spec.inv is None:
                return
            L = LoopCtx(None, None, fr.env, entry_env, head_before, "while")
            for nm, g in _named(spec.inv(mk_cc(), L), "inv"):
                if assume:
                    self.assume(g)
                else:
                    self.oblige("%s.inv.%s.%s" % (tag, nm, label), g, site=tag, kind="inv")

        entry_env = dict(fr.env)
        head_before = self.heap.copy()
        inv_at("entry", False)
        entry_env, havoced, head_before = self.havoc_for_loop(s, c, spec, mk_cc())
        head = self.heap.copy()
        head.alloc_at_head = self.cur_alloc()
        inv_at("assume", True)
        cond = self.truthy(self.ev(s.test))
        if self.choose(cond):
            measure0 = None
            if spec is not None and spec.decreases is not None:
                L = LoopCtx(None, None, fr.env, entry_env, head_before, "while")
                measure0 = spec.decreases(mk_cc(), L)
            try:
                self.exec_block(s.body)
            except Continue_:
                pass
            except Break_:
                self.check_loop_frame(havoced, head)
                return
            self.check_loop_frame(havoced, head)
            self.check_loop_local_types(entry_env)
            inv_at("preserved", False)
            if measure0 is not None:
                L = LoopCtx(None, None, fr.env, entry_env, head_before, "while")
                m1 = spec.decreases(mk_cc(), L)
                self.oblige("%s.decreases" % tag, z3.And(m1 < measure0, measure0 >= 0), site=tag, kind="inv")
            raise PathEnd()
        self.exec_block(s.orelse)

    def st_Break(self, s):
        raise Break_()

    def st_Continue(self, s):
        raise Continue_()


_fstr_fns = {}


def fstring_fn(skeleton, sorts):
    key = (skeleton, tuple(str(x) for x in sorts))
    if key not in _fstr_fns:
        _fstr_fns[key] = z3.Function("fstr_%d" % len(_fstr_fns), *(list(sorts) + [z3.IntSort()]))
    return _fstr_fns[key]


_STR_LT = z3.Function("str_lt", z3.IntSort(), z3.IntSort(), z3.BoolSort())


def str_lt(a, b):
    return _STR_LT(a, b)


def str_order_axioms():
    """python `<` on str is a strict total order (lexicographic); only that much is modelled."""
    a, b, c = z3.Ints("sa sb sc")
    return [
        z3.ForAll([a], z3.Not(_STR_LT(a, a))),
        z3.ForAll([a, b], z3.Or(a == b, _STR_LT(a, b), _STR_LT(b, a)), patterns=[z3.MultiPattern(_STR_LT(a, b))]),
        z3.ForAll([a, b, c], z3.Implies(z3.And(_STR_LT(a, b), _STR_LT(b, c)), _STR_LT(a, c)), patterns=[z3.MultiPattern(_STR_LT(a, b), _STR_LT(b, c))]),
        z3.ForAll([a, b], z3.Implies(_STR_LT(a, b), z3.Not(_STR_LT(b, a))), patterns=[_STR_LT(a, b)]),
    ]


def _mentions(e, t):
    todo = [e]
    seen = set()
    tid = t.get_id()
    while todo:
        x = todo.pop()
        i = x.get_id()
        if i == tid:
            return True
        if i in seen:
            continue
        seen.add(i)
        if z3.is_quantifier(x):
            todo.append(x.body())
        else:
            todo.extend(x.children())
    return False


def _only_logging(stmts):
    return all(is_logger_call(x) or isinstance(x, ast.Pass) for x in stmts)


def _mergeable(stmts):
    """syntactic pre-filter for if-conversion: straight-line code without exits, loops or nested defs"""
    for st in stmts:
        for n in ast.walk(st):
            if isinstance(n, (ast.Return, ast.Raise, ast.Break, ast.Continue, ast.For, ast.While, ast.Try, ast.With, ast.Assert, ast.FunctionDef, ast.Lambda, ast.ListComp, ast.GeneratorExp, ast.Delete)):
                return False
    return True


def _has_source(qname):
    try:
        find_function(qname)
        return True
    except KeyError:
        return False


def _as_load(t):
    t2 = ast.parse(ast.unparse(t), mode="eval").body
    return t2


def _named(x, default):
    if x is None:
        return []
    if isinstance(x, dict):
        return list(x.items())
    return [(default, x)]
