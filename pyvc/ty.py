"""Static types of the pyvc encoding and their z3 sorts.

Every type maps to exactly one z3 sort:
  INT, STR (interned code), Enum (member ordinal), Ref (object id, 0 = None) and the three
  container types List/Dict/Set (id of a container object) -> Int;  BOOL -> Bool;  REAL -> Real;
  Val (immutable value class), Tup, Opt -> z3 datatypes.
"""
import z3

# Quantifier patterns may not contain if-then-else; heap arrays can (stored values / indices such as a
# normalised negative index). All quantifiers in pyvc and in the contracts go through this wrapper, which keeps
# the requested triggers when they are legal and otherwise lets z3 choose its own.
_z3_forall = z3.ForAll
_z3_exists = z3.Exists


def _safe_quant(orig):
    def q(vs, body, weight=1, qid="", skid="", patterns=[], no_patterns=[]):
        if patterns:
            try:
                return orig(vs, body, weight, qid, skid, patterns, no_patterns)
            except z3.Z3Exception:
                return orig(vs, body, weight, qid, skid, [], no_patterns)
        return orig(vs, body, weight, qid, skid, patterns, no_patterns)

    return q


if not getattr(z3, "_pyvc_safe_quantifiers", False):
    z3.ForAll = _safe_quant(_z3_forall)
    z3.Exists = _safe_quant(_z3_exists)
    z3._pyvc_safe_quantifiers = True


class Ty:
    def __repr__(self):
        return self.key()

    def __eq__(self, other):
        return isinstance(other, Ty) and self.key() == other.key()

    def __hash__(self):
        return hash(self.key())


class _Prim(Ty):
    def __init__(self, name):
        self.name = name

    def key(self):
        return self.name


INT = _Prim("Int")
BOOL = _Prim("Bool")
REAL = _Prim("Real")
STR = _Prim("Str")
NONE = _Prim("NoneType")  # the literal None before it is coerced to an Opt / Ref
OPAQUE = _Prim("Opaque")  # values the encoding does not interpret (loggers, rng, ...)


class Enum(Ty):
    """members: ordered list of (name, python value)."""

    def __init__(self, name, members):
        self.name = name
        self.members = list(members)

    def key(self):
        return "Enum:" + self.name

    def ordinal(self, member):
        for i, (n, _) in enumerate(self.members):
            if n == member:
                return i
        raise KeyError(member)


class Val(Ty):
    """Immutable value class -> z3 datatype with one constructor."""

    def __init__(self, name, fields=None):
        self.name = name
        self.fields = fields  # ordered dict name -> Ty (filled by shapes)

    def key(self):
        return "Val:" + self.name


class Ref(Ty):
    """Reference to a mutable heap object of class `cls` (or a subclass); 0 is None."""

    def __init__(self, cls):
        self.cls = cls

    def key(self):
        return "Ref:" + str(self.cls)


class Opt(Ty):
    def __init__(self, inner):
        assert not isinstance(inner, (Ref, Opt)), "Ref is already nullable"
        self.inner = inner

    def key(self):
        return "Opt<" + self.inner.key() + ">"


class Tup(Ty):
    def __init__(self, *elems):
        self.elems = list(elems)

    def key(self):
        return "Tup<" + ",".join(e.key() for e in self.elems) + ">"


class List(Ty):
    def __init__(self, elem):
        self.elem = elem

    def key(self):
        return "List<" + self.elem.key() + ">"


class Dict(Ty):
    def __init__(self, k, v, default=None):
        self.k = k
        self.v = v
        self.default = default  # None | 'int' | 'list' | 'set'  (collections.defaultdict)

    def key(self):
        return "Dict<" + self.k.key() + "," + self.v.key() + ">"


class Set(Ty):
    def __init__(self, elem):
        self.elem = elem

    def key(self):
        return "Set<" + self.elem.key() + ">"


def is_container(t):
    return isinstance(t, (List, Dict, Set))


def is_reflike(t):
    return isinstance(t, (Ref, List, Dict, Set))


_sort_cache = {}
_str_codes = {}


def str_code(s):
    """Interned integer code of a string literal (distinct literals -> distinct codes >= 1)."""
    if s not in _str_codes:
        _str_codes[s] = len(_str_codes) + 1
    return _str_codes[s]


def str_of_code(c):
    for s, k in _str_codes.items():
        if k == c:
            return s
    return None


def _mangle(k):
    return (
        k.replace("<", "_L").replace(">", "_R").replace(",", "_").replace(":", "_").replace(".", "_")
    )


def sort(t):
    k = t.key()
    if k in _sort_cache:
        return _sort_cache[k]
    if t in (INT, STR) or isinstance(t, (Enum, Ref, List, Dict, Set)):
        s = z3.IntSort()
    elif t == BOOL:
        s = z3.BoolSort()
    elif t == REAL:
        s = z3.RealSort()
    elif t == OPAQUE:
        s = z3.IntSort()
    elif t == NONE:
        s = z3.IntSort()
    elif isinstance(t, Val):
        assert t.fields is not None, "shape of %s not declared" % t.name
        d = z3.Datatype(_mangle(k))
        d.declare("mk_" + _mangle(k), *[(_mangle(k) + "_" + fn, sort(ft)) for fn, ft in t.fields.items()])
        s = d.create()
    elif isinstance(t, Tup):
        d = z3.Datatype(_mangle(k))
        d.declare("mk_" + _mangle(k), *[(_mangle(k) + "_e%d" % i, sort(e)) for i, e in enumerate(t.elems)])
        s = d.create()
    elif isinstance(t, Opt):
        d = z3.Datatype(_mangle(k))
        d.declare("none_" + _mangle(k))
        d.declare("some_" + _mangle(k), (_mangle(k) + "_v", sort(t.inner)))
        s = d.create()
    else:
        raise TypeError(t)
    _sort_cache[k] = s
    return s


def val_field(t, z, name):
    s = sort(t)
    i = list(t.fields).index(name)
    return s.accessor(0, i)(z)


def val_mk(t, *zs):
    return sort(t).constructor(0)(*zs)


def tup_get(t, z, i):
    return sort(t).accessor(0, i)(z)


def tup_mk(t, *zs):
    return sort(t).constructor(0)(*zs)


def opt_none(t):
    return sort(t).constructor(0)()


def opt_some(t, z):
    return sort(t).constructor(1)(z)


def opt_is_none(t, z):
    return sort(t).recognizer(0)(z)


def opt_get(t, z):
    return sort(t).accessor(1, 0)(z)
