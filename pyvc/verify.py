"""Function-level verification driver: path enumeration, exit obligations, discharge."""
import ast
import os
import subprocess
import tempfile
import time
import traceback

import z3

from . import ty as T
from . import heap as H
from .engine import (
    Run,
    Reject,
    PathEnd,
    Return_,
    Raise_,
    Break_,
    Continue_,
    Frame,
    Ctx,
    SV,
    PyTuple,
    NONE_SV,
    OpaqueObj,
    Obligation,
    _named,
    OBL_TIMEOUT_MS,
)
from .registry import ANY, CLASSES, CONTRACTS, find_function, split_qname

CVC5 = "/usr/bin/cvc5"


class FnResult:
    def __init__(self, qname):
        self.qname = qname
        self.status = "ok"  # ok | rejected | error
        self.reason = ""
        self.paths = 0
        self.obligations = []  # dicts
        self.trivial = 0
        self.inlined = []
        self.dropped = []
        self.cover = None
        self.seconds = 0.0
        self.obl_names = []
        self.facts_used = []

    def to_dict(self):
        return self.__dict__


class Verifier:
    def __init__(self, qname):
        self.qname = qname
        self.contract = CONTRACTS[qname]
        self.obligations = {}
        self.trivial = 0
        self.obl_names = set()
        self.inlined = set()
        self.facts_used = set()
        self.at_hits = set()
        self.opaque_hits = set()
        self.auto_inlined = set()
        self.feas_cache = {}
        self.dropped = set()
        self.paths = 0
        self.entry_args = {}
        self.pre_heap = None
        self.alloc_entry = None

    # ---------------------------------------------------------------------------------------
    def setup_run(self, run):
        c = self.contract
        fdef, cls, kind = find_function(self.qname)
        mod = split_qname(self.qname)[0]
        H.reset_fresh()
        env = {}
        args = {}
        names = [a.arg for a in fdef.args.posonlyargs + fdef.args.args + fdef.args.kwonlyargs]
        self.building = None
        self.alloc_entry = run.cur_alloc()
        for n in names:
            if n == "self" and cls and CLASSES.get(cls) and CLASSES[cls].kind == "val" and fdef.name == "__init__":
                self.building = {}
                env[n] = self.building
                continue
            if n == "self" and cls and CLASSES.get(cls) and CLASSES[cls].kind == "ref" and fdef.name == "__init__":
                # fresh object under construction
                o = SV(CLASSES[cls].ty, run.new_obj(cls))
                env[n] = o
                args[n] = o
                continue
            if n not in c.params:
                if n == "self" and cls in CLASSES:
                    ty_ = CLASSES[cls].ty
                elif n in ("_logger", "memo"):
                    env[n] = OpaqueObj(n)
                    continue
                else:
                    raise Reject("parameter %s of %s has no declared type" % (n, self.qname))
            else:
                ty_ = c.params[n]
            v = SV(ty_, z3.Const("arg_" + n, T.sort(ty_)))
            env[n] = v
            args[n] = v
        # typing facts about arguments (in the entry heap)
        for n, v in args.items():
            if not (n == "self" and fdef.name == "__init__"):
                run.assume_typed_deep(v)
        from .engine import AliasEnv, set_local_aliases
        from .registry import recorded_locals

        set_local_aliases(self.qname, fdef, recorded_locals(self.qname))
        run.frames.append(Frame(self.qname, fdef, cls, AliasEnv(env), mod))
        self.entry_args = args
        self.pre_heap = run.heap.copy()
        cc = Ctx(args, self.pre_heap, self.pre_heap, run=run, alloc0=self.alloc_entry)
        if c.requires is not None:
            for nm, g in _named(c.requires(cc), "requires"):
                run.assume(g)
        self.pre_heap = run.heap.copy()  # requires may have touched (declared) arrays
        if c.entry_facts is not None:
            for fct in c.entry_facts(Ctx(args, self.pre_heap, self.pre_heap, run=run, alloc0=self.alloc_entry)) or []:
                run.use_fact(fct)
        return fdef, cls, kind

    def exit_normal(self, run, ret, cls, fdef):
        c = self.contract
        args = dict(self.entry_args)
        res = ret
        if self.building is not None:
            info = CLASSES[cls]
            missing = [f for f in info.fields if f not in self.building]
            if missing:
                raise Reject("__init__ leaves fields unset: %s" % missing)
            res = SV(info.ty, T.val_mk(info.ty, *[run.coerce(self.building[f], ft).z for f, ft in info.fields.items()]))
        elif c.ret is not None and c.ret != T.NONE:
            is_none = ret is None or (isinstance(ret, SV) and ret.ty == T.NONE)
            if is_none and not (isinstance(c.ret, (T.Opt, T.Ref)) or T.is_container(c.ret)):
                # a path that falls off the end / returns None where the contract declares a value: a failed
                # obligation on this path (not an engine limit)
                run.oblige("post.returns_a_value_of_the_declared_type", z3.BoolVal(False), site="exit", kind="post")
                raise PathEnd()
            res = run.coerce(ret, c.ret)
        if isinstance(res, SV) and not z3.is_const(res.z):
            # name the result, so that quantifier patterns in the postconditions stay legal even when the
            # value is a join (if-then-else) of several paths
            named = z3.Const(H.fresh_name("result"), res.z.sort())
            run.assume(named == res.z)
            res = SV(res.ty, named)
        cc0 = Ctx(args, self.pre_heap, self.pre_heap, run=run, alloc0=self.alloc_entry)
        for exc, cond in c.raises.items():
            run.oblige("noraise.%s" % exc, z3.Not(_b(cond(cc0))), site="exit", kind="raises")
        cc = Ctx(args, self.pre_heap, run.heap, res=res, run=run, alloc0=self.alloc_entry)
        if c.exit_facts is not None:
            for fct in c.exit_facts(cc) or []:
                run.use_fact(fct)
        if c.ensures is not None:
            for nm, g in _named(c.ensures(cc), "post"):
                run.oblige("post.%s" % nm, g, site="exit", kind="post")
        self.frame_obligations(run, cc, c.modifies(cc0) if c.modifies else {})

    def frame_obligations(self, run, cc, mods):
        for name, arr in list(run.heap.arr.items()):
            if name == "$cls":
                continue
            old = self.pre_heap.arr.get(name)
            if old is None:
                old = z3.Const("%s0!%s" % (run.heap.tag, name), arr.sort())
            if arr.eq(old):
                continue
            objs = mods.get(name)
            if objs is ANY:
                continue
            r = z3.Int("frame_r!" + name)
            cond = [r < self.alloc_entry, r >= 0]
            if objs:
                cond += [r != o for o in objs]
            run.oblige("frame.%s" % name, z3.Implies(z3.And(*cond), z3.Select(arr, r) == z3.Select(old, r)), site="exit", kind="frame")

    def exit_raise(self, run, exc):
        c = self.contract
        cc0 = Ctx(dict(self.entry_args), self.pre_heap, self.pre_heap, run=run, alloc0=self.alloc_entry)
        if exc in c.raises:
            run.oblige("raises.%s.only_when" % exc, _b(c.raises[exc](cc0)), site="exit", kind="raises")
        elif exc in c.may_raise:
            pass
        else:
            run.oblige("no_unexpected.%s" % exc, z3.BoolVal(False), site="exit:" + exc, kind="raises")
        unchanged = c.raise_unchanged if isinstance(c.raise_unchanged, bool) else (exc in c.raise_unchanged)
        if unchanged:
            cc = Ctx(dict(self.entry_args), self.pre_heap, run.heap, run=run, alloc0=self.alloc_entry)
            self.frame_obligations(run, cc, {})

    # ---------------------------------------------------------------------------------------
    def run_all(self):
        c = self.contract
        res = FnResult(self.qname)
        t0 = time.time()
        pending = [[]]
        try:
            while pending:
                prefix = pending.pop()
                if self.paths >= c.max_paths:
                    raise Reject("more than %d paths" % c.max_paths)
                run = Run(self, prefix)
                self.paths += 1
                try:
                    fdef, cls, kind = self.setup_run(run)
                    if res.cover is None:
                        res.cover = str(run.solver.check())
                        if res.cover == "unsat":
                            raise Reject("VACUOUS: requires of %s is contradictory" % self.qname)
                    try:
                        if getattr(c, "refines", None) is not None:
                            # refinement check: the only "statement" is one use of the #body contract on the same arguments
                            raise Return_(run.apply_contract(c.refines, [], dict(self.entry_args)))
                        run.exec_block(run.body_of(fdef, c))
                        ret = NONE_SV
                        self.exit_normal(run, ret, cls, fdef)
                    except Return_ as e:
                        self.exit_normal(run, e.value, cls, fdef)
                    except Raise_ as e:
                        self.exit_raise(run, e.exc)
                    except (Break_, Continue_):
                        raise Reject("break/continue outside loop")
                except PathEnd:
                    pass
                pending.extend(run.alternatives)
                self.dropped.update(run.dropped)
        except Reject as e:
            res.status = "rejected"
            res.reason = str(e)
        except Exception as e:  # engine bug: never a verdict
            res.status = "error"
            res.reason = "%s: %s\n%s" % (type(e).__name__, e, traceback.format_exc())
        if res.status == "ok":
            missing = [p_ for p_ in getattr(c, "at", {}) if p_ not in self.at_hits]
            if missing:
                res.status = "rejected"
                res.reason = "program-point assertion(s) no longer match any statement: %s" % missing
        res.paths = self.paths
        res.trivial = self.trivial
        res.inlined = sorted(self.inlined)
        res.dropped = sorted(self.dropped)
        res.facts_used = sorted(self.facts_used)
        res.obl_names = sorted(self.obl_names | {o.name for o in self.obligations.values()})
        if res.status == "ok":
            obls = list(self.obligations.values())
            discharge_all(obls, self)
            for o in obls:
                res.obligations.append(
                    {
                        "fn": o.fn,
                        "name": o.name,
                        "site": o.site,
                        "kind": o.kind,
                        "status": o.status,
                        "backend": o.backend,
                        "seconds": round(o.seconds, 4),
                        "model": o.model,
                        "path": list(o.key[2]),
                    }
                )
        res.seconds = time.time() - t0
        return res


Z3_CLI = "z3-new"


def _cli_check(args):
    """decide one obligation with the z3 command-line binary in a fresh process (hard timeout enforced
    by the binary itself; no fork of a process that already runs z3 timer threads)."""
    i, path, timeout_s = args
    t0 = time.time()
    try:
        p = subprocess.run([Z3_CLI, "-T:%d" % timeout_s, path], capture_output=True, text=True, timeout=timeout_s + 10)
        out = (p.stdout.strip().split("\n") or ["error"])[0].strip()
    except Exception as e:
        out = "error"
    return i, out, time.time() - t0


def discharge_all(obls, verifier, jobs=None):
    """Obligations are independent SMT queries. Each is written as SMT-LIB and decided by a fresh z3
    process (same z3 version as the API), several at a time; anything that does not come back `unsat`
    is re-decided in-process to obtain the counter-model / reason (and the cvc5 second opinion)."""
    from concurrent.futures import ThreadPoolExecutor
    import shutil

    jobs = jobs or int(os.environ.get("PYVC_DISCHARGE_JOBS", "6"))
    if len(obls) < 4 or jobs <= 1 or shutil.which(Z3_CLI) is None:
        for o in obls:
            discharge(o, verifier)
        return
    from .engine import OBL_TIMEOUT_MS

    tmpd = tempfile.mkdtemp(prefix="pyvc_obl_")
    work = []
    for i, o in enumerate(obls):
        s = z3.Solver()
        for p_ in o.pc:
            s.add(p_)
        s.add(z3.Not(o.goal))
        path = os.path.join(tmpd, "%d.smt2" % i)
        with open(path, "w") as f:
            f.write(s.to_smt2())
        work.append((i, path, max(1, OBL_TIMEOUT_MS // 1000)))
    try:
        with ThreadPoolExecutor(max_workers=min(jobs, len(obls))) as ex:
            results = list(ex.map(_cli_check, work))
    finally:
        shutil.rmtree(tmpd, ignore_errors=True)
    for i, out, secs in results:
        o = obls[i]
        if out == "unsat":
            o.status, o.backend, o.seconds = "discharged", "z3-cli-" + z3.get_version_string(), secs
        else:
            discharge(o, verifier)
            o.seconds += secs


def _b(x):
    return z3.BoolVal(x) if isinstance(x, bool) else x


def discharge(o, verifier=None):
    t0 = time.time()
    s = z3.Solver()
    s.set("timeout", OBL_TIMEOUT_MS)
    for p in o.pc:
        s.add(p)
    s.add(z3.Not(o.goal))
    r = s.check()
    o.backend = "z3-" + z3.get_version_string()
    if r == z3.unsat:
        o.status = "discharged"
    elif r == z3.sat:
        o.status = "failed"
        m = s.model()
        o.model = render_model(m, verifier)
    else:
        reason = s.reason_unknown()
        # second opinion: cvc5 on the SMT-LIB dump
        st = cvc5_check(s.to_smt2(), timeout_s=15)
        if st == "unsat":
            o.status = "discharged"
            o.backend = "cvc5"
        else:
            o.status = "undecided"
            o.backend += "+cvc5:" + st
            o.model = {"reason_unknown": reason}
    o.seconds = time.time() - t0


def cvc5_check(smt2, timeout_s=30):
    if not os.path.exists(CVC5):
        return "absent"
    with tempfile.NamedTemporaryFile("w", suffix=".smt2", delete=False, dir=os.environ.get("PYVC_TMP", None)) as f:
        f.write("(set-logic ALL)\n" + smt2)
        path = f.name
    try:
        p = subprocess.run([CVC5, "--tlimit=%d" % (timeout_s * 1000), path], capture_output=True, text=True, timeout=timeout_s + 5)
        out = p.stdout.strip().split("\n")[0] if p.stdout.strip() else "error"
        return out
    except Exception as e:
        return "error"
    finally:
        os.unlink(path)


def render_model(m, verifier):
    out = {}
    if verifier is None:
        return out
    for n, v in verifier.entry_args.items():
        try:
            out[n] = render_value(m, v, verifier)
        except Exception as e:
            out[n] = "?(%s)" % e
    c = verifier.contract
    probe = getattr(c, "probe", None)
    if probe:
        try:
            cc = Ctx(verifier.entry_args, verifier.pre_heap, verifier.pre_heap, alloc0=verifier.alloc_entry)
            for k, term in probe(cc).items():
                out["probe:" + k] = str(m.eval(term, model_completion=True))
        except Exception as e:
            out["probe_error"] = str(e)
    return out


def render_value(m, sv, verifier, depth=0):
    t, z = sv.ty, sv.z
    ev = lambda x: m.eval(x, model_completion=True)
    if t == T.INT:
        return ev(z).as_long()
    if t == T.BOOL:
        return z3.is_true(ev(z))
    if t == T.REAL:
        return str(ev(z))
    if t == T.STR:
        c = ev(z).as_long()
        s = T.str_of_code(c)
        return s if s is not None else "str#%d" % c
    if isinstance(t, T.Enum):
        k = ev(z).as_long()
        return t.members[k][0] if 0 <= k < len(t.members) else "enum?%d" % k
    if isinstance(t, T.Val):
        return {fn: render_value(m, SV(ft, T.val_field(t, z, fn)), verifier, depth + 1) for fn, ft in t.fields.items()}
    if isinstance(t, T.Tup):
        return [render_value(m, SV(e, T.tup_get(t, z, i)), verifier, depth + 1) for i, e in enumerate(t.elems)]
    if isinstance(t, T.Opt):
        if z3.is_true(ev(T.opt_is_none(t, z))):
            return None
        return render_value(m, SV(t.inner, T.opt_get(t, z)), verifier, depth + 1)
    hp = verifier.pre_heap
    if isinstance(t, T.Ref):
        o = ev(z).as_long()
        if o == 0 or depth > 2 or t.cls is None:
            return {"ref": o}
        d = {"ref": o, "class": t.cls}
        for fn, ft in CLASSES[t.cls].all_fields().items():
            try:
                name, fty, a = hp.fld_arr(t.cls, fn)
                if name in hp.arr:
                    d[fn] = render_value(m, SV(fty, z3.Select(a, z)), verifier, depth + 1)
            except Exception:
                pass
        return d
    if isinstance(t, T.List):
        n = ev(hp.c_len(t, z)).as_long()
        return {"list": [render_value(m, SV(t.elem, hp.l_elem(t, z, z3.IntVal(i))), verifier, depth + 1) for i in range(max(0, min(n, 6)))], "len": n, "ref": ev(z).as_long()}
    if isinstance(t, T.Dict):
        n = ev(hp.c_len(t, z)).as_long()
        items = []
        for i in range(max(0, min(n, 6))):
            k = hp.d_key(t, z, z3.IntVal(i))
            items.append([render_value(m, SV(t.k, k), verifier, depth + 1), render_value(m, SV(t.v, hp.d_val(t, z, k)), verifier, depth + 1)])
        return {"dict": items, "len": n, "ref": ev(z).as_long()}
    if isinstance(t, T.Set):
        n = ev(hp.c_len(t, z)).as_long()
        return {"set": [render_value(m, SV(t.elem, hp.d_key(t, z, z3.IntVal(i))), verifier, depth + 1) for i in range(max(0, min(n, 6)))], "len": n}
    return str(ev(z))


def verify_function(qname):
    v = Verifier(qname)
    return v.run_all()
