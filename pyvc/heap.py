"""Heap model: per-field arrays, typed container arrays, object allocation.

A `Heap` is an immutable-by-convention mapping  name -> z3 array ; `set` returns the updated
array in place on the *copy held by one path* (each path owns its Heap object).
"""
import z3

from . import ty as T
from .registry import CLASSES

I = z3.IntSort()
B = z3.BoolSort()

_fresh_counter = [0]


def fresh_name(prefix):
    _fresh_counter[0] += 1
    return "%s!%d" % (prefix, _fresh_counter[0])


def reset_fresh():
    _fresh_counter[0] = 0


def fresh(prefix, sort):
    return z3.Const(fresh_name(prefix), sort)


_mem_fns = {}


def mem_fn(es):
    k = str(es)
    if k not in _mem_fns:
        _mem_fns[k] = z3.Function("mem_" + k.replace(" ", "_"), z3.ArraySort(I, es), I, es, B)
    return _mem_fns[k]


def mem_def(es, elems, n, e):
    """definition instance of mem for one (array, length, element)"""
    i = z3.Int(fresh_name("md_i"))
    return mem_fn(es)(elems, n, e) == z3.Exists([i], z3.And(0 <= i, i < n, z3.Select(elems, i) == e))


_CONTAINER_TYPES = {}


def container_arrays(t):
    """Names and sorts of the heap arrays that hold containers of type t."""
    k = t.key()
    _CONTAINER_TYPES[k] = t
    if isinstance(t, T.List):
        return {k + ".len": z3.ArraySort(I, I), k + ".elem": z3.ArraySort(I, z3.ArraySort(I, T.sort(t.elem)))}
    if isinstance(t, T.Dict):
        ks, vs = T.sort(t.k), T.sort(t.v)
        return {
            k + ".len": z3.ArraySort(I, I),
            k + ".keys": z3.ArraySort(I, z3.ArraySort(I, ks)),
            k + ".idx": z3.ArraySort(I, z3.ArraySort(ks, I)),
            k + ".dom": z3.ArraySort(I, z3.ArraySort(ks, B)),
            k + ".val": z3.ArraySort(I, z3.ArraySort(ks, vs)),
        }
    if isinstance(t, T.Set):
        ks = T.sort(t.elem)
        return {
            k + ".len": z3.ArraySort(I, I),
            k + ".keys": z3.ArraySort(I, z3.ArraySort(I, ks)),
            k + ".idx": z3.ArraySort(I, z3.ArraySort(ks, I)),
            k + ".dom": z3.ArraySort(I, z3.ArraySort(ks, B)),
        }
    raise TypeError(t)


def field_array_name(cls_qname, field):
    info = CLASSES[cls_qname]
    owner = info.field_owner(field)
    if owner is None:
        raise KeyError("%s has no declared field %s" % (cls_qname, field))
    return owner.short + "." + field, owner.all_fields()[field]


class Heap:
    def __init__(self, tag="H"):
        self.arr = {}
        self.sorts = {}
        self.tag = tag
        self.types = {}  # array name -> element Ty (fields) for documentation

    def copy(self):
        h = Heap(self.tag)
        h.arr = dict(self.arr)
        h.sorts = self.sorts  # shared: append-only
        h.types = self.types
        return h

    def get(self, name, sort=None):
        if name not in self.arr:
            if sort is None:
                sort = self.sorts[name]
            self.sorts[name] = sort
            self.arr[name] = z3.Const("%s0!%s" % (self.tag, name), sort)
        return self.arr[name]

    def ensure(self, name):
        """declare a heap array by name (field array `Short.field` or a known container array)"""
        if name in self.arr:
            return self.arr[name]
        if name in self.sorts:
            return self.get(name)
        short, _, field = name.rpartition(".")
        for info in CLASSES.values():
            if info.short == short and (field in info.fields or field in info.ghost):
                fty = info.all_fields()[field]
                return self.get(name, z3.ArraySort(I, T.sort(fty)))
        t = _CONTAINER_TYPES.get(short)
        if t is not None:
            return self.get(name, container_arrays(t)[name])
        raise KeyError(name)

    def set(self, name, arr):
        self.sorts[name] = arr.sort()
        self.arr[name] = arr

    # ---- object fields
    def fld_arr(self, cls_qname, field):
        name, fty = field_array_name(cls_qname, field)
        return name, fty, self.get(name, z3.ArraySort(I, T.sort(fty)))

    def rd(self, obj, cls_qname, field):
        name, fty, a = self.fld_arr(cls_qname, field)
        return fty, z3.Select(a, obj)

    def wr(self, obj, cls_qname, field, z):
        name, fty, a = self.fld_arr(cls_qname, field)
        self.set(name, z3.Store(a, obj, z))
        return name

    def cls_tag(self, obj):
        return z3.Select(self.get("$cls", z3.ArraySort(I, I)), obj)

    # ---- containers
    def carr(self, t, part):
        name = t.key() + "." + part
        return name, self.get(name, container_arrays(t)[name])

    def c_len(self, t, c):
        return z3.Select(self.carr(t, "len")[1], c)

    def l_elem(self, t, c, i):
        return z3.Select(z3.Select(self.carr(t, "elem")[1], c), i)

    def l_elems(self, t, c):
        return z3.Select(self.carr(t, "elem")[1], c)

    def d_key(self, t, c, i):
        return z3.Select(z3.Select(self.carr(t, "keys")[1], c), i)

    def d_keys(self, t, c):
        return z3.Select(self.carr(t, "keys")[1], c)

    def d_idx(self, t, c, k):
        return z3.Select(z3.Select(self.carr(t, "idx")[1], c), k)

    def d_dom(self, t, c, k):
        return z3.Select(z3.Select(self.carr(t, "dom")[1], c), k)

    def d_val(self, t, c, k):
        return z3.Select(z3.Select(self.carr(t, "val")[1], c), k)

    def d_vals(self, t, c):
        return z3.Select(self.carr(t, "val")[1], c)

    def d_doms(self, t, c):
        return z3.Select(self.carr(t, "dom")[1], c)

    def _upd(self, t, part, c, inner):
        name, a = self.carr(t, part)
        self.set(name, z3.Store(a, c, inner))
        return name

    def wf_container(self, t, c):
        """Representation facts that hold of every concrete Python list/dict/set (sound to assume)."""
        n = self.c_len(t, c)
        facts = [n >= 0]
        if isinstance(t, (T.Dict, T.Set)):
            i = z3.Int(fresh_name("wf_i"))
            k = z3.Const(fresh_name("wf_k"), T.sort(t.k if isinstance(t, T.Dict) else t.elem))
            keys = self.d_keys(t, c)
            idx = z3.Select(self.carr(t, "idx")[1], c)
            dom = self.d_doms(t, c)
            facts.append(
                z3.ForAll(
                    [i],
                    z3.Implies(
                        z3.And(0 <= i, i < n),
                        z3.And(z3.Select(dom, z3.Select(keys, i)), z3.Select(idx, z3.Select(keys, i)) == i),
                    ),
                    patterns=[z3.Select(keys, i)],
                )
            )
            facts.append(
                z3.ForAll(
                    [k],
                    z3.Implies(
                        z3.Select(dom, k),
                        z3.And(0 <= z3.Select(idx, k), z3.Select(idx, k) < n, z3.Select(keys, z3.Select(idx, k)) == k),
                    ),
                    patterns=[z3.Select(dom, k)],
                )
            )
        return facts

    # list ops -----------------------------------------------------------------------------
    def l_mem(self, t, c, z):
        """membership in a list as an uninterpreted predicate of (element array, length, value);
        its definition  mem(a,n,e) <=> exists i in [0,n). a[i]==e  is supplied by `mem_def`."""
        return mem_fn(T.sort(t.elem))(self.l_elems(t, c), self.c_len(t, c), z)

    def l_mem_def(self, t, c):
        """definition of list membership for this list in this state, for all values (a true fact)"""
        es = T.sort(t.elem)
        e = z3.Const(fresh_name("mdef_e"), es)
        i = z3.Int(fresh_name("mdef_i"))
        elems, n = self.l_elems(t, c), self.c_len(t, c)
        return z3.ForAll([e], mem_fn(es)(elems, n, e) == z3.Exists([i], z3.And(0 <= i, i < n, z3.Select(elems, i) == e)), patterns=[mem_fn(es)(elems, n, e)])

    def l_index_mem(self, t, c):
        """every indexed element of the list is a member (a true fact, consequence of the definition of mem)"""
        es = T.sort(t.elem)
        i = z3.Int(fresh_name("im_i"))
        elems, n = self.l_elems(t, c), self.c_len(t, c)
        return z3.ForAll([i], z3.Implies(z3.And(0 <= i, i < n), mem_fn(es)(elems, n, z3.Select(elems, i))), patterns=[z3.Select(elems, i)])

    def l_append(self, t, c, z):
        n = self.c_len(t, c)
        old_elems = self.l_elems(t, c)
        w = [self._upd(t, "elem", c, z3.Store(old_elems, n, z))]
        name, a = self.carr(t, "len")
        self.set(name, z3.Store(a, c, n + 1))
        return w + [name]

    def append_mem_fact(self, t, old_elems, n, z):
        es = T.sort(t.elem)
        e = z3.Const(fresh_name("am_e"), es)
        M = mem_fn(es)
        body = M(z3.Store(old_elems, n, z), n + 1, e) == z3.Or(M(old_elems, n, e), e == z)
        try:
            return z3.ForAll([e], body, patterns=[M(z3.Store(old_elems, n, z), n + 1, e)])
        except z3.Z3Exception:
            return z3.ForAll([e], body)  # the index term contains an if-then-else: let z3 choose the triggers

    def l_set(self, t, c, i, z):
        return [self._upd(t, "elem", c, z3.Store(self.l_elems(t, c), i, z))]

    # dict / set ops ------------------------------------------------------------------------
    def d_insert_new(self, t, c, k, v=None):
        """k is known not to be in the dict."""
        n = self.c_len(t, c)
        w = [
            self._upd(t, "keys", c, z3.Store(self.d_keys(t, c), n, k)),
            self._upd(t, "idx", c, z3.Store(z3.Select(self.carr(t, "idx")[1], c), k, n)),
            self._upd(t, "dom", c, z3.Store(self.d_doms(t, c), k, z3.BoolVal(True))),
        ]
        if v is not None:
            w.append(self._upd(t, "val", c, z3.Store(self.d_vals(t, c), k, v)))
        name, a = self.carr(t, "len")
        self.set(name, z3.Store(a, c, n + 1))
        return w + [name]

    def d_update(self, t, c, k, v):
        return [self._upd(t, "val", c, z3.Store(self.d_vals(t, c), k, v))]

    def d_delete(self, t, c, k):
        """k is known to be in the dict. Returns (written arrays, facts defining the new order)."""
        n = self.c_len(t, c)
        keys = self.d_keys(t, c)
        idx = z3.Select(self.carr(t, "idx")[1], c)
        ks = T.sort(t.k if isinstance(t, T.Dict) else t.elem)
        p = z3.Select(idx, k)
        keys2 = fresh("keys", z3.ArraySort(I, ks))
        idx2 = fresh("idx", z3.ArraySort(ks, I))
        i = z3.Int(fresh_name("del_i"))
        x = z3.Const(fresh_name("del_k"), ks)
        dom = self.d_doms(t, c)
        facts = [
            z3.ForAll(
                [i],
                z3.And(
                    z3.Implies(z3.And(0 <= i, i < p), z3.Select(keys2, i) == z3.Select(keys, i)),
                    z3.Implies(z3.And(p <= i, i < n - 1), z3.Select(keys2, i) == z3.Select(keys, i + 1)),
                ),
                patterns=[z3.Select(keys2, i)],
            ),
            z3.ForAll(
                [x],
                z3.Implies(
                    z3.And(z3.Select(dom, x), x != k),
                    z3.Select(idx2, x) == z3.If(z3.Select(idx, x) > p, z3.Select(idx, x) - 1, z3.Select(idx, x)),
                ),
                patterns=[z3.Select(idx2, x)],
            ),
        ]
        w = [
            self._upd(t, "keys", c, keys2),
            self._upd(t, "idx", c, idx2),
            self._upd(t, "dom", c, z3.Store(dom, k, z3.BoolVal(False))),
        ]
        name, a = self.carr(t, "len")
        self.set(name, z3.Store(a, c, n - 1))
        return w + [name], facts
