"""Registry of class shapes, contracts and spec helpers (filled by /verif/contracts/*.py)."""
import ast
import os

from . import ty as T

REPO = os.environ.get("PYVC_REPO", "/repo")

CLASSES = {}  # qname -> ClassInfo
CONTRACTS = {}  # qname -> Contract
MODULE_CONSTS = {}  # "module.NAME" -> declared Ty hints (optional)

ANY = "ANY"  # modifies: any object of that heap array may change


class ClassInfo:
    def __init__(self, qname, kind, fields=None, bases=(), members=None, ghost=None):
        self.qname = qname
        self.kind = kind  # 'val' | 'ref' | 'enum'
        self.fields = dict(fields or {})
        self.ghost = dict(ghost or {})  # ghost fields (only contracts / ghost statements touch them)
        self.bases = list(bases)
        self.short = qname.split(".", 1)[1] if "." in qname else qname
        if kind == "val":
            self.ty = T.Val(qname, self.fields)
        elif kind == "ref":
            self.ty = T.Ref(qname)
        elif kind == "enum":
            self.ty = T.Enum(qname, members)
        self.code = len(CLASSES) + 1
        CLASSES[qname] = self

    def all_fields(self):
        out = {}
        for b in self.bases:
            out.update(CLASSES[b].all_fields())
        out.update(self.fields)
        out.update(self.ghost)
        return out

    def field_owner(self, name):
        if name in self.fields or name in self.ghost:
            return self
        for b in self.bases:
            o = CLASSES[b].field_owner(name)
            if o is not None:
                return o
        return None

    def subclasses(self):
        out = [self]
        for c in CLASSES.values():
            if c is not self and self.qname in c.mro_names():
                out.append(c)
        return out

    def mro_names(self):
        out = [self.qname]
        for b in self.bases:
            out += CLASSES[b].mro_names()
        return out


def declare_val(qname, fields, bases=()):
    return ClassInfo(qname, "val", fields, bases)


def declare_ref(qname, fields, bases=(), ghost=None):
    return ClassInfo(qname, "ref", fields, bases, ghost=ghost)


def declare_enum(qname):
    """Members are read from the class body in /repo on every run."""
    node = find_class(qname)
    members = []
    for st in node.body:
        if isinstance(st, ast.Assign) and len(st.targets) == 1 and isinstance(st.targets[0], ast.Name):
            try:
                v = ast.literal_eval(st.value)
            except Exception:
                continue
            members.append((st.targets[0].id, v))
    if not members:
        raise RuntimeError("enum %s: no members found" % qname)
    return ClassInfo(qname, "enum", members=members)


class Contract:
    def __init__(
        self,
        qname,
        params=None,
        ret=None,
        requires=None,
        ensures=None,
        raises=None,
        modifies=None,
        loops=None,
        inline=False,
        trusted=False,
        drops=(),
        props=(),
        replay=None,
        raise_unchanged=True,
        ghost_after=None,
        note="",
        max_paths=4000,
        extra_inline=(),
        may_raise=(),
        entry_facts=None,
        exit_facts=None,
        allocates=False,
        locals=None,
        at=None,
        eq_identity=False,
        opaque=None,
        tier=None,
    ):
        self.tier = tier  # "thorough": verified in the thorough tier only (too many paths for the per-change check)
        self.opaque = opaque or {}  # {expression source prefix: type}: pure expressions outside the subset, evaluated to an arbitrary value
        self.eq_identity = eq_identity  # trusted __eq__ contract stating that equality is object identity (ids are unique)
        self.at = at or {}  # program-point assertions: {statement source prefix: fn(c, L) -> {name: goal}}
        self.locals = locals or {}  # static types of container-valued locals ([] / set() / {} literals)
        self.entry_facts = entry_facts  # fn(c) -> [Fact] assumed at function entry (verification only)
        self.exit_facts = exit_facts  # fn(c) -> [Fact] assumed before the exit obligations
        self.allocates = allocates
        self.qname = qname
        self.params = params or {}
        self.ret = ret
        self.requires = requires
        self.ensures = ensures  # fn(c) -> Bool | {name: Bool}
        self.raises = raises or {}  # exc -> fn(c) -> Bool  (raises exc IFF cond, under requires)
        self.may_raise = tuple(may_raise)  # exceptions that may escape without an iff-condition
        self.modifies = modifies  # fn(c) -> {heap array: [object ids] | ANY}
        self.loops = loops or {}  # ordinal -> Loop
        self.inline = inline
        self.trusted = trusted  # library / assumed contract: body not verified
        self.drops = tuple(drops)  # source texts of statements removed before execution (justified)
        self.props = tuple(props)  # property ids this contract serves
        self.replay = replay
        self.raise_unchanged = raise_unchanged
        self.ghost_after = ghost_after or {}
        self.note = note
        self.max_paths = max_paths
        CONTRACTS[qname] = self


def _named_items(x, default):
    if x is None:
        return []
    if isinstance(x, dict):
        return list(x.items())
    return [(default, x)]


def body_frame(qname, extra=None):
    """modifies clause of an abstract contract: whatever the verified `<qname>#body` contract may write (+ extra)"""

    def m(c):
        b = CONTRACTS[qname + "#body"]
        out = dict(b.modifies(c)) if b.modifies else {}
        if extra is not None:
            for k, v in extra(c).items():
                if out.get(k) is ANY or v is ANY:
                    out[k] = ANY
                else:
                    out[k] = list(out.get(k, [])) + list(v)
        return out

    return m


class _AnyArgs:
    """a contract context seen from another function: same heaps, arbitrary arguments (to read off WHICH heap arrays a
    callee's frame names, not which objects)"""

    def __init__(self, c):
        self._c = c

    def __getattr__(self, n):
        return getattr(self._c, n)

    def arg(self, n):
        import z3

        return z3.Int("anyarg!" + n)


def frame_arrays_any(*qnames):
    """for a caller's modifies clause: every heap array the given callee contracts may write, for ANY object (the
    caller does not say which pool / worker the callee is applied to)"""

    def m(c):
        out = {}
        for q in qnames:
            b = CONTRACTS[q]
            if b.modifies:
                for k in b.modifies(_AnyArgs(c)):
                    out[k] = ANY
        return out

    return m


def add_refinements(skip=None, defs=None):
    """For every pair (abstract trusted contract X used by the callers, X#body verified against the source) register
    the refinement check X#refines: under the preconditions of both, whatever X#body allows (result, post-state, frame,
    exceptions) must be allowed by X. The "body" of X#refines is a single use of X#body's contract (see Verifier.run_all),
    so the obligations are X's postconditions / frame / exception clauses proved from X#body's. `skip` maps qnames that
    are exempt to the reason (reported by the driver)."""
    import copy

    skip = skip or {}
    out = []
    for q in sorted(list(CONTRACTS)):
        if not q.endswith("#body"):
            continue
        base = q[: -len("#body")]
        a, b = CONTRACTS.get(base), CONTRACTS[q]
        if a is None or not a.trusted or base in skip:
            continue
        r = copy.copy(a)
        r.qname = base + "#refines"
        r.trusted = False
        r.refines = b
        r.loops, r.at, r.drops, r.locals, r.opaque = {}, {}, (), {}, {}
        r.props = tuple(b.props)
        r.tier = b.tier
        r.params = dict(b.params)
        r.entry_facts = b.entry_facts
        r.exit_facts = (defs or {}).get(base)

        def req(c, a=a, b=b):
            d = {}
            for tag, cx in (("abstract", a), ("body", b)):
                if cx.requires is not None:
                    for nm, g in _named_items(cx.requires(c), "requires"):
                        d[tag + "." + nm] = g
            return d

        r.requires = req
        r.note = "refinement: every behaviour allowed by %s (verified against the source) is allowed by the abstract contract the callers use; the preconditions of %s are assumed here (section 0.5: invariants the call sites assume)" % (q, q)
        CONTRACTS[r.qname] = r
        out.append(r.qname)
    return out


class Loop:
    def __init__(self, inv=None, modifies=None, decreases=None, lemmas=None):
        self.lemmas = lemmas  # fn(c, L, phase) -> [Fact]; phase in start|end|break|exit
        self.inv = inv  # fn(c, L) -> Bool | {name: Bool}
        self.modifies = modifies  # fn(c) -> {heap array: [ids]|ANY}; None => function's modifies
        self.decreases = decreases


# ------------------------------------------------------------------------------------------
# source access
_ast_cache = {}


def module_path(mod):
    p = os.path.join(REPO, *mod.split("."))
    if os.path.isdir(p):
        return os.path.join(p, "__init__.py")
    return p + ".py"


def module_ast(mod):
    path = module_path(mod)
    if path not in _ast_cache:
        with open(path) as f:
            src = f.read()
        _ast_cache[path] = (ast.parse(src), src)
    return _ast_cache[path][0]


def split_qname(qname):
    """'workload.tasks.Task.start' -> ('workload.tasks', ['Task','start']).  A suffix '#view' names a second
    contract of the same function: the body is verified against it, callers keep using the plain contract."""
    parts = qname.split("#")[0].split(".")
    for i in range(len(parts), 0, -1):
        mod = ".".join(parts[:i])
        p = os.path.join(REPO, *parts[:i])
        if os.path.isfile(p + ".py"):
            return mod, parts[i:]
    raise KeyError("no module for " + qname)


def find_class(qname):
    mod, path = split_qname(qname)
    node = module_ast(mod)
    for name in path:
        for st in node.body:
            if isinstance(st, ast.ClassDef) and st.name == name:
                node = st
                break
        else:
            raise KeyError("class %s not found" % qname)
    return node


def find_function(qname):
    """Returns (FunctionDef, enclosing class qname or None, kind) ; kind in
    {'method','staticmethod','classmethod','property','function'}"""
    mod, path = split_qname(qname)
    node = module_ast(mod)
    cls = None
    for name in path[:-1]:
        for st in node.body:
            if isinstance(st, ast.ClassDef) and st.name == name:
                node = st
                cls = (cls + "." + name) if cls else (mod + "." + name)
                break
        else:
            raise KeyError("class path of %s not found" % qname)
    fname = path[-1]
    found = None
    for st in node.body:
        if isinstance(st, (ast.FunctionDef,)) and st.name == fname:
            # property setters share the name; prefer the getter / first definition
            if found is None:
                found = st
    if found is None:
        raise KeyError("function %s not found" % qname)
    kind = "method" if cls else "function"
    for d in found.decorator_list:
        if isinstance(d, ast.Name) and d.id in ("staticmethod", "classmethod", "property"):
            kind = d.id
        if isinstance(d, ast.Name) and d.id == "cached_property":
            kind = "property"
    return found, cls, kind


def class_defines(cls_qname, name):
    try:
        node = find_class(cls_qname)
    except KeyError:
        return False
    for st in node.body:
        if isinstance(st, ast.FunctionDef) and st.name == name:
            return True
    return False


def resolve_method(cls_qname, name):
    """Walk declared bases to the class whose body defines `name`."""
    short = cls_qname.split(".")[-1].lstrip("_")
    if name.startswith("_" + short + "__"):
        name = name[len(short) + 1 :]  # undo private-name mangling: _Cls__x is defined as __x
    info = CLASSES.get(cls_qname)
    if class_defines(cls_qname, name):
        return cls_qname + "." + name
    if info:
        for b in info.bases:
            r = resolve_method(b, name)
            if r:
                return r
    return None


def class_decorators(cls_qname):
    node = find_class(cls_qname)
    out = []
    for d in node.decorator_list:
        if isinstance(d, ast.Name):
            out.append(d.id)
    return out


def module_global(mod, name):
    """Return the ast value node of a module-level `name = <expr>` (last one wins)."""
    tree = module_ast(mod)
    val = None
    for st in tree.body:
        if isinstance(st, ast.Assign):
            for t in st.targets:
                if isinstance(t, ast.Name) and t.id == name:
                    val = st.value
    return val


def module_imports(mod):
    """name -> ('module', modname) | ('from', modname, attr)"""
    tree = module_ast(mod)
    out = {}
    pkg = mod.rsplit(".", 1)[0] if "." in mod else ""
    for st in tree.body:
        if isinstance(st, ast.Import):
            for a in st.names:
                out[a.asname or a.name.split(".")[0]] = ("module", a.name)
        elif isinstance(st, ast.ImportFrom):
            base = st.module or ""
            if st.level:
                parts = mod.split(".")
                base_parts = parts[: len(parts) - st.level]
                base = ".".join(base_parts + ([st.module] if st.module else []))
            for a in st.names:
                out[a.asname or a.name] = ("from", base, a.name)
    return out


# ------------------------------------------------------------------------------------------
# per-property extras (filled by the contract modules)
LEMMAS = {}  # pid -> [fn() -> [(name, [assumptions], goal)]]
SCANS = {}  # pid -> [fn() -> [(name, ok, detail)]]
BOUNDED = {}  # pid -> [(name, script relative to /verif, [args quick], [args thorough])]
REPLAYS = {}  # (fn qname, obligation-name prefix) -> fn(model dict, obligation dict) -> script text or None
OBSERVATIONS = {}  # pid -> [text]
ASSUMPTIONS = {}  # pid -> [text]


def lemma(pid):
    def deco(f):
        LEMMAS.setdefault(pid, []).append(f)
        return f

    return deco


def scan(*pids):
    def deco(f):
        for pid in pids:
            SCANS.setdefault(pid, []).append(f)
        return f

    return deco


def bounded(pid, name, script, quick=(), thorough=None):
    BOUNDED.setdefault(pid, []).append((name, script, list(quick), list(thorough if thorough is not None else quick)))


def assumption(pid, text):
    ASSUMPTIONS.setdefault(pid, []).append(text)


def observation(pid, text):
    OBSERVATIONS.setdefault(pid, []).append(text)


# ---- recorded binding order of locals (robustness to renames, see engine.LOCAL_ALIASES) ------------------------------
_locals_cache = None


def recorded_locals(qname):
    global _locals_cache
    if _locals_cache is None:
        import json

        p = os.path.join(os.path.dirname(os.path.dirname(os.path.abspath(__file__))), "baseline", "locals.json")
        try:
            _locals_cache = json.load(open(p))
        except Exception:
            _locals_cache = {}
    return _locals_cache.get(qname.split("#")[0])
