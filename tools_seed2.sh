#!/bin/bash
# usage: tools_seed2.sh <seed-id> <src-dir with patch.diff demo.py meta.json> <pid> [<pid> ...]
# Like tools_seed.sh, but /repo is never touched: the change is applied to a scratch worktree and the checks run against
# that copy (PYVC_REPO), writing evidence / replays to a scratch directory.  Safe to run while other checks use /repo.
set -u
ID=$1; SRC=$2; shift 2
DST=/verif/seeded/$ID
mkdir -p $DST
cp $SRC/patch.diff $SRC/demo.py $DST/ 2>/dev/null
[ -f $SRC/meta.json ] && cp $SRC/meta.json $DST/meta_agent.json
WT=/tmp/seed/verify_wt_$ID
SCR=/tmp/seed/scratch_$ID
rm -rf $SCR; mkdir -p $SCR/evidence $SCR/replays
git -C /repo worktree add -q --detach $WT HEAD || exit 9
( cd $WT && PYTHONPATH=$WT timeout 300 /venv/bin/python $DST/demo.py > $DST/demo_without.log 2>&1 ); RC_WITHOUT=$?
( cd $WT && git apply $DST/patch.diff ) || { echo "PATCH DOES NOT APPLY"; git -C /repo worktree remove --force $WT; exit 9; }
TESTS=$(cd $WT && /venv/bin/python -m pytest -q -p no:cacheprovider --timeout=900 2>&1 | tail -1)
( cd $WT && PYTHONPATH=$WT timeout 300 /venv/bin/python $DST/demo.py > $DST/demo_with.log 2>&1 ); RC_WITH=$?
echo "tests: $TESTS | demo with change rc=$RC_WITH | without rc=$RC_WITHOUT"
RES=""
for P in "$@"; do
  OUT=$(cd /verif && PYVC_REPO=$WT VERIF_EVIDENCE_DIR=$SCR/evidence VERIF_REPLAY_DIR=$SCR/replays ./check $P 2>&1); RC=$?
  echo "$OUT" | grep -E "^(VIOLATION|UNDECIDED|FAILED)" | cut -c1-220 | head -6
  echo "$OUT" | tail -1
  echo "$OUT" > $DST/check_$P.log
  RES="$RES $P:rc=$RC"
done
git -C /repo worktree remove --force $WT
rm -rf $SCR
echo "RESULT $ID tests=[$TESTS] demo_with=$RC_WITH demo_without=$RC_WITHOUT checks:$RES"
python3 - "$ID" "$TESTS" "$RC_WITH" "$RC_WITHOUT" "$RES" <<'PY'
import json, sys, os
sid, tests, w, wo, res = sys.argv[1:6]
d = "/verif/seeded/" + sid
meta = {}
if os.path.exists(d + "/meta_agent.json"):
    try: meta = json.load(open(d + "/meta_agent.json"))
    except Exception: meta = {}
out = {"id": sid, "property": meta.get("property"), "summary": meta.get("summary"), "needs_to_manifest": meta.get("needs_to_manifest"), "files": meta.get("files"),
       "confirmed_by_me": {"existing_tests": tests, "demo_exit_with_change": int(w), "demo_exit_without_change": int(wo), "how": "scratch worktree of /repo HEAD; git apply patch.diff; pytest; demo.py on the clean worktree; git apply patch.diff; pytest; demo.py"},
       "checks_run_against_it": {kv.split(":")[0]: kv.split(":")[1] for kv in res.split()},
       "how_checks_were_run": "PYVC_REPO=<scratch worktree with the change applied> ./check <pid> (the checks re-read that tree; /repo untouched)"}
json.dump(out, open(d + "/meta.json", "w"), indent=1)
PY
