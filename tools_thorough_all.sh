#!/bin/bash
# runs every registered thorough command once (against $PYVC_REPO if set) and prints rc + wall time
HERE="$(cd "$(dirname "$0")" && pwd)"; cd "$HERE"
for p in C16 C17 C19 C04 C01 C06 C07 C18 C02 C03 C05 C08 C09 C10 C11 C12 C13 C14 C15; do
  t0=$(date +%s); out=$(./check $p --tier thorough 2>&1); rc=$?; t1=$(date +%s)
  echo "THOROUGH $p rc=$rc wall=$((t1-t0))s :: $(echo "$out" | tail -1)"
  echo "$out" | grep -E "^(VIOLATION|UNDECIDED)" | cut -c1-200 | head -5
done
