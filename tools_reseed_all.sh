#!/bin/bash
# re-runs every seeded change in /verif/seeded against the checks that are recorded for it (regression suite for the checker)
cd /verif
for d in seeded/*/; do
  id=$(basename $d)
  pids=$(python3 -c "import json;print(' '.join(json.load(open('$d/meta.json'))['checks_run_against_it'].keys()))")
  git -C /repo apply $d/patch.diff || { echo "RESEED $id cannot apply"; continue; }
  res=""
  for P in $pids; do
    out=$(./check $P 2>&1); rc=$?
    res="$res $P:rc=$rc"
    echo "$out" > $d/check_$P.log
  done
  git -C /repo checkout -- .
  echo "RESEED $id $res"
done
