#!/bin/bash
# re-runs every seeded change in seeded/ against the checks recorded for it (regression suite for the checker).
# location independent: works from /verif or from a `vp run` snapshot of it; applies patches to /repo and reverts.
HERE="$(cd "$(dirname "$0")" && pwd)"
cd "$HERE"
for d in seeded/*/; do
  id=$(basename $d)
  pids=$(python3 -c "import json;print(' '.join(json.load(open('$d/meta.json'))['checks_run_against_it'].keys()))")
  git -C /repo apply "$HERE/$d/patch.diff" || { echo "RESEED $id cannot apply"; continue; }
  res=""
  for P in $pids; do
    out=$(./check $P 2>&1); rc=$?
    res="$res $P:rc=$rc"
    echo "$out" | grep -E "^(VIOLATION|UNDECIDED)" | cut -c1-160 | head -3
  done
  git -C /repo checkout -- .
  echo "RESEED $id $res"
done
