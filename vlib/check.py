#!/usr/bin/env python3
"""./check Cxx [--tier quick|thorough] [--replay path]

Decides one property: (1) pyvc proof obligations generated from /repo's current source for every
function under contract that serves the property, (2) lemmas over those contracts, (3) mechanical
scans, (4) bounded stand-ins (labelled bounded). Writes /verif/evidence/Cxx.json.
Exit: 0 held; 1 violation (VIOLATION line); 2 undecided; 3 checker crash.
"""
import argparse
import glob
import importlib
import json
import multiprocessing as mp
import os
import subprocess
import sys
import time
import traceback

VERIF = os.path.dirname(os.path.dirname(os.path.abspath(__file__)))
sys.path.insert(0, VERIF)
REPO = os.environ.get("PYVC_REPO", "/repo")
VENV_PY = "/venv/bin/python"
# evaluation of seeded changes on a scratch copy (PYVC_REPO=<copy>) writes its evidence / replays elsewhere, so that the
# committed evidence always comes from /repo itself
EVID_DIR = os.environ.get("VERIF_EVIDENCE_DIR") or os.path.join(VERIF, "evidence")
REPLAY_DIR = os.environ.get("VERIF_REPLAY_DIR") or os.path.join(VERIF, "replays")

LEVELS = {}  # pid -> level, filled from MANIFEST


def load_manifest_levels():
    try:
        LEVELS.update(json.load(open(os.path.join(VERIF, "vlib", "levels.json"))))
    except Exception:
        pass
    try:
        m = json.load(open(os.path.join(VERIF, "MANIFEST.json")))
        for c in m.get("checks", []):
            LEVELS[c["property_id"]] = c["level_claimed"]["category"]
    except Exception:
        pass


def load_contracts():
    mods = sorted(glob.glob(os.path.join(VERIF, "contracts", "c_*.py")))
    for p in mods:
        importlib.import_module("contracts." + os.path.basename(p)[:-3])


def _verify_one(q):
    from pyvc.verify import verify_function

    try:
        r = verify_function(q)
        return r.to_dict()
    except Exception as e:
        return {"qname": q, "status": "error", "reason": "%s\n%s" % (e, traceback.format_exc()), "obligations": [], "paths": 0, "trivial": 0, "inlined": [], "dropped": [], "cover": None, "seconds": 0, "obl_names": []}


def _child(q, path):
    import faulthandler

    if os.environ.get("PYVC_TRACE_HANG_S"):
        faulthandler.dump_traceback_later(int(os.environ["PYVC_TRACE_HANG_S"]), exit=True)
    r = _verify_one(q)
    with open(path, "w") as f:
        json.dump(r, f, default=str)
    os._exit(0)


def run_functions(fns, jobs, deadline_s):
    """One forked, non-daemonic process per function (each may fork its own discharge pool); results
    come back through files; a function that exceeds its deadline is killed and reported undecided
    (never a verdict)."""
    import tempfile, signal

    ctx = mp.get_context("fork")
    tmpd = tempfile.mkdtemp(prefix="pyvc_")
    pending = list(enumerate(fns))
    running = {}
    out = {}
    tries = {}
    while pending or running:
        while pending and len(running) < jobs:
            i, q = pending.pop(0)
            path = os.path.join(tmpd, "%d.json" % i)
            p = ctx.Process(target=_child, args=(q, path))
            p.start()
            running[i] = (p, q, path, time.time())
        time.sleep(0.05)
        for i in list(running):
            p, q, path, t0 = running[i]
            if not p.is_alive():
                p.join()
                try:
                    out[i] = json.load(open(path))
                except Exception:
                    out[i] = {"qname": q, "status": "error", "reason": "verifier process died (exit %s)" % p.exitcode, "obligations": [], "paths": 0, "trivial": 0, "inlined": [], "dropped": [], "cover": None, "seconds": time.time() - t0, "obl_names": []}
                del running[i]
            elif time.time() - t0 > deadline_s:
                try:
                    p.kill()
                except Exception:
                    pass
                p.join()
                del running[i]
                tries[i] = tries.get(i, 0) + 1
                if tries[i] <= 2:
                    # a z3 call that ignores its limits is rare and not reproducible: try again
                    pending.append((i, q))
                else:
                    out[i] = {"qname": q, "status": "rejected", "reason": "deadline of %ds exceeded three times" % deadline_s, "obligations": [], "paths": 0, "trivial": 0, "inlined": [], "dropped": [], "cover": None, "seconds": time.time() - t0, "obl_names": []}
    import shutil

    shutil.rmtree(tmpd, ignore_errors=True)
    return [out[i] for i in range(len(fns))]


def known_findings():
    p = os.path.join(VERIF, "known_findings.json")
    if not os.path.exists(p):
        return []
    return json.load(open(p)).get("findings", [])


def match_known(pid, viol, findings):
    for f in findings:
        if f.get("status") != "known" or f.get("property") != pid:
            continue
        m = f.get("match", {})
        if m.get("engine") != viol["engine"]:
            continue
        if viol["engine"] == "pyvc":
            if m.get("fn") == viol["fn"] and viol["obligation"].startswith(m.get("obligation", "\0")):
                return f
        elif viol["engine"] in ("bounded", "scan", "lemma"):
            if m.get("check") == viol.get("check") and str(viol.get("id", "")).startswith(m.get("id", "\0")):
                return f
    return None


def run_replay(path):
    """Run a generated replay natively; exit 1 of the script == violation reproduced."""
    env = dict(os.environ, PYTHONPATH=REPO, PYTHONHASHSEED="0")
    try:
        p = subprocess.run([VENV_PY, path], capture_output=True, text=True, timeout=120, env=env, cwd=REPO)
        return p.returncode, (p.stdout + p.stderr)[-2000:]
    except subprocess.TimeoutExpired:
        return 1, "timeout (120 s) -- treated as reproduced non-termination"


def write_replay(pid, viol, script, extra):
    d = os.path.join(REPLAY_DIR, pid)
    os.makedirs(d, exist_ok=True)
    safe = "".join(ch if ch.isalnum() or ch in "._-" else "_" for ch in (viol.get("fn", viol.get("check", "")) + "." + viol.get("obligation", str(viol.get("id", "")))))[:150]
    path = os.path.join(d, safe + ".py")
    header = '"""Replay for property %s\nfailed obligation: %s\nverifier output:\n%s\n"""\n' % (pid, viol.get("obligation", viol.get("id")), json.dumps(extra, indent=1, default=str)[:6000].replace('"""', "'''"))
    with open(path, "w") as f:
        f.write(header)
        if script:
            f.write(script)
        else:
            f.write("import sys\nprint('no native witness builder for this obligation; see the verifier output above')\nsys.exit(0)\n")
    return path


def _not_comparable():
    try:
        from contracts.c_zz_refines import NOT_COMPARABLE

        return dict(NOT_COMPARABLE)
    except Exception:
        return {}


def main():
    ap = argparse.ArgumentParser()
    ap.add_argument("pid")
    ap.add_argument("--tier", default=os.environ.get("VERIF_TIER", "quick"))
    ap.add_argument("--replay", default=None)
    ap.add_argument("--jobs", type=int, default=min(16, os.cpu_count() or 4))
    ap.add_argument("--only", default=None, help="substring filter on function names (debugging)")
    ap.add_argument("--no-bounded", action="store_true", help="skip the bounded stand-ins (debugging; implies no evidence file)")
    ap.add_argument("--write-baseline", action="store_true", help="record which obligations discharge on this (unchanged) tree")
    args = ap.parse_args()
    pid = args.pid
    seed = int(os.environ.get("VERIF_SEED", "0") or 0)
    t0 = time.time()
    if args.replay:
        rc, out = run_replay(args.replay)
        print(out)
        if rc == 1:
            print("VIOLATION property=%s replay=%s" % (pid, args.replay))
            sys.exit(1)
        sys.exit(0)
    load_manifest_levels()
    try:
        load_contracts()
    except Exception:
        traceback.print_exc()
        print("CHECKER-CRASH loading contracts")
        sys.exit(3)
    from pyvc import registry as R
    from pyvc.verify import discharge
    from pyvc.engine import Obligation
    import z3

    fns = [q for q, c in R.CONTRACTS.items() if pid in c.props and not c.inline and not c.trusted and (args.tier != "quick" or getattr(c, "tier", None) != "thorough")]
    thorough_only = sorted(q for q, c in R.CONTRACTS.items() if pid in c.props and getattr(c, "tier", None) == "thorough")
    if args.only:
        fns = [q for q in fns if args.only in q]
    fns.sort()
    results = []
    if fns:
        results = run_functions(fns, args.jobs, float(os.environ.get("PYVC_FN_DEADLINE_S", "420" if args.tier == "quick" else "1800")))

    base_path = os.path.join(VERIF, "baseline", pid + ".json")
    baseline = json.load(open(base_path)).get("obligations", {}) if os.path.exists(base_path) else {}
    seen_obl = {}
    violations = []  # dicts: engine, fn, obligation, model, text
    undecided = []
    obligations = 0
    discharged = 0
    solver_s = 0.0
    backends = {}
    samples = []
    fn_summaries = []
    dropped_all = set()
    inlined_all = set()
    for r in results:
        nd = sum(1 for o in r["obligations"] if o["status"] == "discharged")
        fn_summaries.append({"fn": r["qname"], "status": r["status"], "paths": r["paths"], "obligations": len(r["obligations"]), "discharged": nd, "trivially_true": r["trivial"], "seconds": round(r["seconds"], 2), "requires_cover": r["cover"], "obligation_names": r["obl_names"]})
        dropped_all.update(r["dropped"])
        inlined_all.update(r["inlined"])
        if r["status"] != "ok":
            undecided.append({"fn": r["qname"], "why": r["status"] + ": " + r["reason"][:400]})
            continue
        if len(r["obligations"]) + r["trivial"] == 0:
            undecided.append({"fn": r["qname"], "why": "VACUOUS: zero obligations generated"})
        for o in r["obligations"]:
            obligations += 1
            solver_s += o["seconds"]
            backends[o["backend"]] = backends.get(o["backend"], 0) + 1
            okey = o["fn"] + "|" + o["name"]
            if o["status"] == "discharged":
                prev = seen_obl.get(okey, [0, 0.0])
                seen_obl[okey] = [prev[0] + 1, max(prev[1], o["seconds"])]
            if o["status"] == "discharged":
                discharged += 1
                if len(samples) < 6:
                    samples.append({"fn": o["fn"], "obligation": o["name"], "path": o["path"], "backend": o["backend"], "seconds": o["seconds"]})
            elif o["status"] == "failed":
                violations.append({"engine": "pyvc", "fn": o["fn"], "obligation": o["name"], "model": o["model"], "path": o["path"]})
            else:
                reason = (o.get("model") or {}).get("reason_unknown", "")
                b0 = baseline.get(okey)
                if isinstance(b0, int):
                    b0 = [b0, 0.0]
                if b0 and b0[0] > 0 and b0[1] <= 5.0:
                    # an obligation that is discharged on the unchanged tree in at most a third of the solver budget and can
                    # no longer be discharged (z3 in a fresh process, z3 in-process and cvc5 all gave up): reported as
                    # failed, without a model
                    violations.append({"engine": "pyvc", "fn": o["fn"], "obligation": o["name"], "model": {"no_model": "solver gave up without a model: " + reason, "baseline": "discharged on the unchanged tree"}, "path": o["path"]})
                else:
                    undecided.append({"fn": o["fn"], "why": "obligation %s: %s (%s; %s)" % (o["name"], o["status"], o["backend"], reason)})

    # lemmas -----------------------------------------------------------------------------------
    lemma_names = []
    for lf in R.LEMMAS.get(pid, []):
        try:
            items = lf()
        except Exception:
            undecided.append({"fn": lf.__name__, "why": "lemma generator crashed: " + traceback.format_exc()[-300:]})
            continue
        for name, assumptions, goal in items:
            o = Obligation("lemma:" + lf.__name__, name, "", assumptions, goal, (name,), "lemma")
            discharge(o)
            obligations += 1
            solver_s += o.seconds
            backends[o.backend] = backends.get(o.backend, 0) + 1
            lemma_names.append(name)
            if o.status == "discharged":
                discharged += 1
            elif o.status == "failed":
                violations.append({"engine": "lemma", "check": lf.__name__, "id": name, "fn": "lemma:" + lf.__name__, "obligation": name, "model": str(o.model)})
            else:
                undecided.append({"fn": "lemma:" + lf.__name__, "why": "%s: %s" % (name, o.status)})

    # canary: a deliberately false obligation must be refuted (engine vacuity guard) --------------
    x = z3.Int("canary_x")
    co = Obligation("canary", "canary.must_fail", "", [x > 0], x > 1, ("canary",), "canary")
    discharge(co)
    canary_ok = co.status == "failed"
    if not canary_ok:
        undecided.append({"fn": "canary", "why": "canary obligation was not refuted: solver/driver broken"})

    # scans -------------------------------------------------------------------------------------
    scan_results = []
    for sf in R.SCANS.get(pid, []):
        try:
            for name, ok, detail in sf():
                scan_results.append({"scan": name, "ok": bool(ok), "detail": detail})
                if not ok:
                    violations.append({"engine": "scan", "check": sf.__name__, "id": name, "fn": "scan:" + sf.__name__, "obligation": name, "model": detail})
        except Exception:
            undecided.append({"fn": "scan:" + sf.__name__, "why": "scan crashed: " + traceback.format_exc()[-400:]})

    # bounded stand-ins ---------------------------------------------------------------------------
    bounded_out = []
    for name, script, qargs, targs in ([] if args.no_bounded else R.BOUNDED.get(pid, [])):
        out_path = os.path.join(EVID_DIR, ".bounded_%s_%s.json" % (pid, name))
        if os.path.exists(out_path):
            os.unlink(out_path)
        cmd = [VENV_PY, os.path.join(VERIF, script), "--pid", pid, "--tier", args.tier, "--seed", str(seed), "--out", out_path] + (qargs if args.tier == "quick" else targs)
        env = dict(os.environ, PYTHONPATH=REPO + os.pathsep + VERIF, PYTHONHASHSEED="0", PYVC_REPO=REPO)
        tb = time.time()
        try:
            p = subprocess.run(cmd, capture_output=True, text=True, env=env, cwd=VERIF, timeout=7200 if args.tier != "quick" else 1500)
            if not os.path.exists(out_path):
                undecided.append({"fn": "bounded:" + name, "why": "no output (rc=%s): %s" % (p.returncode, (p.stdout + p.stderr)[-600:])})
                continue
            b = json.load(open(out_path))
            os.unlink(out_path)
        except subprocess.TimeoutExpired:
            undecided.append({"fn": "bounded:" + name, "why": "timeout"})
            continue
        b["name"] = name
        b["wall_s"] = round(time.time() - tb, 1)
        for v in b.get("violations", []):
            violations.append({"engine": "bounded", "check": name, "id": v["id"], "fn": "bounded:" + name, "obligation": v["id"], "model": v.get("what"), "replay": v.get("replay")})
        for u in b.get("undecided", []):
            undecided.append({"fn": "bounded:" + name, "why": u})
        bounded_out.append(b)

    if args.write_baseline and not args.only:
        os.makedirs(os.path.dirname(base_path), exist_ok=True)
        keep = {k: v for k, v in baseline.items() if k.split("|")[0] in thorough_only and k not in seen_obl} if args.tier == "quick" else {}
        json.dump({"property": pid, "obligations": dict(sorted(dict(keep, **seen_obl).items()))}, open(base_path, "w"), indent=0)
    elif baseline and not args.only:
        for okey, n0 in baseline.items():
            fn0 = okey.split("|")[0]
            names_now = set()
            for r in results:
                if r["qname"] == fn0:
                    names_now = set(r.get("obl_names", []))
            if fn0 in [r["qname"] for r in results if r["status"] == "ok"] and okey not in seen_obl and okey.split("|")[1] not in names_now and not any(v.get("fn") == fn0 for v in violations) and not any(u["fn"] == fn0 for u in undecided):
                undecided.append({"fn": fn0, "why": "obligation %s was generated and discharged on the baseline tree but was not generated now (vacuity guard)" % okey.split("|")[1]})
    if obligations == 0 and not bounded_out and not scan_results:
        undecided.append({"fn": pid, "why": "VACUOUS: no obligation, scan or bounded case was generated for this property"})

    # verdicts -----------------------------------------------------------------------------------
    findings = known_findings()
    new_viol = []
    known_hit = []
    printed = set()
    for v in violations:
        f = match_known(pid, v, findings)
        if f is not None:
            if id(f) not in printed:
                printed.add(id(f))
                print("KNOWN-FINDING: property=%s %s" % (pid, f["text"]))
            known_hit.append({"finding": f["text"], "obligation": v["obligation"], "fn": v["fn"]})
            continue
        new_viol.append(v)
    exit_code = 0
    seen_replays = set()
    for v in new_viol:
        exit_code = 1
        replay_path = v.get("replay")
        reproduced = None
        out = ""
        if v["engine"] == "pyvc":
            script = None
            for (fn, pref), builder in R.REPLAYS.items():
                if fn == v["fn"] and v["obligation"].startswith(pref):
                    try:
                        script = builder(v["model"], v)
                    except Exception:
                        script = None
                    break
            replay_path = write_replay(pid, v, script, v)
            if script:
                rc, out = run_replay(replay_path)
                reproduced = rc == 1
        elif replay_path is None:
            replay_path = write_replay(pid, v, None, v)
        else:
            reproduced = True
        if replay_path in seen_replays:
            continue
        seen_replays.add(replay_path)
        v["replay"] = replay_path
        v["reproduced"] = reproduced
        tail = "" if reproduced else " no-failing-input-found"
        print("FAILED obligation=%s fn=%s model=%s" % (v["obligation"], v["fn"], json.dumps(v.get("model"), default=str)[:400]))
        print("VIOLATION property=%s replay=%s%s" % (pid, replay_path, tail))
    if exit_code == 0 and undecided:
        exit_code = 2
    for u in undecided:
        print("UNDECIDED %s: %s" % (u["fn"], u["why"]))

    # evidence -----------------------------------------------------------------------------------
    level = LEVELS.get(pid, "proof")
    trusted = sorted(q for q, c in R.CONTRACTS.items() if c.trusted and (pid in c.props or not c.props))
    n_known_obl = len([k for k in known_hit if not k["fn"].startswith(("bounded:", "scan:"))])
    cov = {
        # obligations of the claim = all generated obligations minus those that fail and are listed as known findings
        # (those are reported, with their text, under known_findings_hit and as KNOWN-FINDING lines)
        "obligations": obligations - n_known_obl,
        "discharged": discharged,
        "obligations_generated": obligations,
        "failed_listed_as_known_findings": n_known_obl,
        "checker_cmd": "cd /verif && ./check %s --tier %s   (pyvc AST->SMT symbolic executor over %s; z3 %s, cvc5 fallback)" % (pid, args.tier, REPO, z3.get_version_string()),
        "trusted_base": [
            "pyvc encoding of Python semantics (DESIGN.md section 3.3): ints mathematical, floats as reals, objects as ids into per-field arrays, containers as typed heap objects, value classes as datatypes",
            "z3 %s / cvc5 1.0.3 soundness" % z3.get_version_string(),
        ]
        + ["assumed library/dependency contract: " + q for q in trusted],
        "functions_under_contract": fn_summaries,
        "lemmas": lemma_names,
        "backends": backends,
        "solver_seconds": round(solver_s, 2),
        "functions_inlined_at_call_sites": sorted(inlined_all),
        "functions_verified_in_the_thorough_tier_only": thorough_only,
        # X#refines: every behaviour allowed by X#body (verified against the source) is allowed by the abstract contract X
        # the callers use; pairs that cannot be compared stay assumed, with the reason
        "refinement_checks": sorted(q for q in fns if q.endswith("#refines")),
        "abstract_contracts_not_compared_with_their_body_contract": {q: why for q, why in _not_comparable().items() if q + "#body" in R.CONTRACTS and pid in R.CONTRACTS[q + "#body"].props},
        "dropped_statements": sorted(dropped_all)[:40],
        "dropped_statement_count": len(dropped_all),
        "scans": scan_results,
        "canary_refuted": canary_ok,
        "samples": samples + [{"bounded": b["name"], "sample": b.get("samples", [])[:3]} for b in bounded_out],
        "bounded": bounded_out,
        "known_findings_hit": known_hit,
        "undecided": undecided,
        "observations": R.OBSERVATIONS.get(pid, []),
        "explanation": "see DESIGN.md; proof obligations are per-function SMT queries generated from the current source; bounded parts are labelled bounded",
    }
    ev_total = sum(b.get("evaluations", 0) for b in bounded_out)
    dn_total = sum(b.get("distinct_nontrivial", 0) for b in bounded_out)
    if bounded_out or level in ("exploration", "fault_enumeration"):
        cov["evaluations"] = ev_total + obligations
        cov["distinct_nontrivial"] = dn_total + discharged
        cov["rule"] = "; ".join("%s: %s" % (b["name"], b.get("rule", "")) for b in bounded_out) or "one case per discharged proof obligation"
        cov["exhaustive"] = all(b.get("exhaustive", False) for b in bounded_out) if bounded_out else False
    if level == "translation_validation":
        cov["programs"] = sum(b.get("programs", b.get("evaluations", 0)) for b in bounded_out)
        cov["disagreements_checked"] = sum(b.get("disagreements_checked", 0) for b in bounded_out)
    assumptions = list(R.ASSUMPTIONS.get(pid, [])) + list(R.ASSUMPTIONS.get("*", []))
    for q, c in R.CONTRACTS.items():
        if c.trusted and (pid in c.props or not c.props):
            if q + "#refines" in R.CONTRACTS:
                assumptions.append("abstract contract used by the callers, refinement-checked (%s#refines) against %s#body, which is verified against the source under an invariant the call sites assume: %s %s" % (q, q, q, c.note))
            else:
                assumptions.append("trusted contract (not verified): %s %s" % (q, c.note))
        elif pid in c.props and c.note:
            assumptions.append("%s: %s" % (q, c.note))
    ev = {
        "property_id": pid,
        "tier": args.tier if args.tier in ("quick", "thorough") else "quick",
        "seed": seed,
        "level": level,
        "coverage": cov,
        "assumptions": assumptions,
        "wall_s": round(time.time() - t0, 2),
        "violations": len(new_viol),
    }
    os.makedirs(EVID_DIR, exist_ok=True)
    # a partial (debugging) run never replaces the evidence of a full run
    with open(os.path.join(EVID_DIR, (".partial_" if (args.only or args.no_bounded) else "") + pid + ".json"), "w") as f:
        json.dump(ev, f, indent=1, default=str)
    print("%s: functions=%d obligations=%d discharged=%d violations=%d known=%d undecided=%d wall=%.1fs" % (pid, len(fns), obligations, discharged, len(new_viol), len(known_hit), len(undecided), time.time() - t0))
    sys.exit(exit_code)


if __name__ == "__main__":
    try:
        main()
    except SystemExit:
        raise
    except Exception:
        traceback.print_exc()
        print("CHECKER-CRASH")
        sys.exit(3)
