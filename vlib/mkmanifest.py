#!/usr/bin/env python3
"""Regenerates /verif/MANIFEST.json from the table below (single source of truth)."""
import json
import os

VERIF = os.path.dirname(os.path.dirname(os.path.abspath(__file__)))

BASE_NOTE = (
    "Trusted base: the pyvc encoding of Python semantics (DESIGN 3.3: mathematical ints, floats as reals, "
    "objects as ids into per-field arrays, typed container objects, value classes as datatypes, f-strings and "
    "str ordering uninterpreted), z3 5.1 / cvc5 1.0.3, the library contracts listed in the evidence file "
    "(trusted_base / assumptions). Functions not under contract surround the verified ones unverified."
)

CHECKS = {
    "C16": dict(
        category="proof",
        technique="contract-based deductive verification: pyvc (self-written AST->SMT VC generator over the real source) + z3/cvc5; lemmas over the contracts; mechanical write-site scans",
        text=(
            "Every EventTime operation (to/add/sub/eq/lt/mul/hash/copy, unit order) is proved equal to the microsecond spec function us(t) for "
            "all integer times and all unit mixes; Event.__lt__ is proved equal to the documented key (time, type priority, task name) and that "
            "key is proved a strict weak order; EventQueue operations are proved to keep the heap invariant / hand out a minimum given the "
            "stated heapq library contracts; a lemma shows consecutive pops are non-decreasing; a scan pins the in-place re-timing sites and the simulator "
            "obligations at those sites require re-heapification. Unbounded in values and queue contents."
        ),
        note=BASE_NOTE + " Specific: float exactness of int(time*1e3|1e6) below 2^53 is assumed (floats modelled as reals); heapq/list.remove behaviour is a stated library contract.",
        design_ref="DESIGN.md section 6 (C16)",
    ),
}

PYVC = "contract-based deductive verification: pyvc (self-written AST->SMT VC generator over the real source, contracts at call sites, loop invariants, induction lemmas) + z3/cvc5"
CHECKS.update(
    {
        "C04": dict(
            category="proof",
            technique=PYVC + "; bounded operation-history enumeration as cross-check",
            text=(
                "Resources.allocate / allocate_multiple / deallocate / __gt__ / getters and Worker.place_task / remove_task / load_profile / evict_profile / "
                "can_accomodate_strategy are proved against an abstract ledger view for ALL resource vectors, requests and residents: a refused request changes "
                "nothing, a served request lowers the availability of exactly the matching keys by exactly the requested amount and records exactly that amount for "
                "the holder, deallocation returns exactly what was recorded, and the worker ledger invariant WF_W (residents <-> allocations <-> batches <-> profiles) is "
                "preserved by every mutator. Prefix-sum facts are lemmas proved by explicit induction steps. Bounded part: operation histories (copy/deepcopy, pool level) "
                "are enumerated up to a stated length. Not machine-checked: additivity of the finite sum over holders (per-operation conservation is)."
            ),
            note=BASE_NOTE + " Specific: allocate_multiple is proved atomic under Pre_disjoint (no two request keys match one vector key) -- the overlapping case is a known finding of the bounded check; dict keys of value class Resource compared structurally (no hash collisions); Task/strategy/profile keys by identity (distinct ids); copy()/deepcopy() of Resources/Worker are bounded-only.",
            design_ref="DESIGN.md section 6 (C04)",
        ),
        "C06": dict(
            category="proof",
            technique=PYVC + "; lemmas over the transition relation; write-site scan; bounded enumeration for the cancellation closure",
            text=(
                "Every Task mutator (release, schedule, unschedule, start, step, preempt, resume, finish, cancel, update_remaining_time) is proved to move the state only along "
                "the allowed transition relation taken from the statement, to raise (leaving the task unchanged) exactly in the stated states, and to preserve the task "
                "representation invariant; lemmas show COMPLETED/CANCELLED/EVICTED have no outgoing edge, CANCELLED is entered only before running and RUNNING only from "
                "SCHEDULED/PREEMPTED; a scan shows _state is written only inside Task. Cancellation closure and graph-finished reporting are bounded (labelled so)."
            ),
            note=BASE_NOTE + " Specific: Task.__init__ is an assumed contract; log-statement arguments are assumed pure; TaskGraph.cancel is decided only by the bounded stand-in.",
            design_ref="DESIGN.md section 6 (C06)",
        ),
        "C19": dict(
            category="exploration",
            technique="bounded small-scope enumeration of descriptions against contracts written from the statement (stand-in), plus pyvc proof obligations on EventTime.fuzz",
            text=(
                "Bounded stand-in: generated YAML/JSON descriptions (job graphs <= 4 nodes, all optional-field combinations up to the bound, every release policy) are "
                "loaded by the real loaders and compared structurally with an independent reading; release times, closed-loop in-flight bound, fresh isomorphic copies and "
                "deadline stretch are checked per invocation. EventTime.fuzz is additionally under a proved contract (floats as reals). Not a proof: the loaders are outside "
                "the pyvc subset (string/dict parsing)."
            ),
            note="Bounded: the bound is in the evidence file. Trusted: independent re-reader in bounded/loaders.py; numpy arange/linspace; seeded RNG wrappers.",
            design_ref="DESIGN.md section 6 (C19)",
        ),
        "C10": dict(
            category="exploration",
            technique="captured solver-model implication (every feasible point of the model the real schedule() builds, z3-decided) on bounded instances; pyvc contracts on the fit test",
            text=(
                "Bounded in instances, complete in solutions: on each enumerated small instance the real ILP / TetriSched-Gurobi / TetriSched-CPLEX / Z3 schedule() runs, the solver "
                "model it built is read back and translated to z3, and 'model AND NOT (capacity at every instant, existing worker, own strategy, time >= now/release)' must be unsat; "
                "run-level: one decision per task, only offered tasks, live cluster and task states unchanged. Greedy/Clockwork policies: small-scope enumeration (when registered). "
                "The fit test Resources.__gt__ / Worker.can_accomodate_strategy is proved."
            ),
            note="Bounded: instance bound in the evidence. Trusted: read-back API of gurobipy/docplex/z3, the model->z3 translation in bounded/milp_capture.py, solver feasibility answers.",
            design_ref="DESIGN.md section 6 (C10)",
        ),
        "C11": dict(
            category="exploration",
            technique="captured solver-model implication: precedence holds at EVERY feasible point of the captured ILP / TetriSched-Gurobi / Z3 model, bounded instances",
            text="Bounded in instances (all DAG shapes <= 4 nodes x new/running/scheduled parents), complete in solutions (z3 decides model AND NOT precedence).",
            note="Bounded. Trusted: model read-back and translation, decode rule cross-checked against the returned placements on every instance.",
            design_ref="DESIGN.md section 6 (C11)",
        ),
        "C12": dict(
            category="exploration",
            technique="captured solver-model implication for the deadline rows / cell pruning on bounded instances; run-level cancellation check",
            text="Bounded in instances (deadlines past / tight / loose), complete in solutions: placed => start + chosen runtime <= deadline at every feasible point; hopeless tasks cancelled (CPLEX) or unplaced (ILP, Gurobi).",
            note="Bounded. Greedy/Clockwork admission is covered by the sched_small stand-in when registered.",
            design_ref="DESIGN.md section 6 (C12)",
        ),
        "C14": dict(
            category="translation_validation",
            technique="captured solver model vs an independent brute-force feasibility spec in the planner's own decision space (no over-tight row; goodput / maximality of the returned plan), bounded instances",
            text="Per instance: every plan the statement allows must be a feasible point of the captured model, the ILP plan must reach the brute-force goodput optimum and the TetriSched plan must be maximal. Instances up to the property's own enumeration bound.",
            note="Bounded; solver optimality trusted (gap < 1 unit at these sizes).",
            design_ref="DESIGN.md section 6 (C14)",
        ),
    }
)

NOT_APPLICABLE = {
    "C20": "C++20 back-end (templates, shared_ptr DAGs, TBB): no deductive verifier for C++ is installed, the code cannot be annotated in place nor mechanically extracted into something z3/cvc5 VCs model soundly, and the library cannot be built here (TBB absent); a dump-and-check driver would be a different technique family.",
}

PENDING_REASON = "check under construction in this session (see DESIGN.md section 11 build order); not claimed until its obligations are discharged on the unchanged tree"


def main():
    props = [json.loads(l) for l in open(os.path.join(VERIF, "properties.jsonl"))]
    checks = []
    na = []
    for p in props:
        pid = p["id"]
        if pid in CHECKS:
            c = CHECKS[pid]
            checks.append(
                {
                    "property_id": pid,
                    "quick_cmd": "./check %s --tier quick" % pid,
                    "thorough_cmd": "./check %s --tier thorough" % pid,
                    "evidence_file": "evidence/%s.json" % pid,
                    "replay_cmd_template": "./check %s --replay {path}" % pid,
                    "engine": "pyvc" if c["category"] == "proof" else "bounded",
                    "level_claimed": {"category": c["category"], "text": c["text"], "design_ref": c["design_ref"]},
                    "level_note": c["note"],
                    "technique": c["technique"],
                }
            )
        else:
            na.append({"property_id": pid, "reason": NOT_APPLICABLE.get(pid, PENDING_REASON)})
    m = {
        "version": 1,
        "setup_cmd": "python3-vt vlib/selftest.py",
        "hooks": {
            "guard": "ERDOS_SCHEDULING_SIMULATOR_VERIF",
            "enable": "no hooks are needed: contracts are side-cars under /verif/contracts and /repo is re-read with ast on every run; the guard is declared but guards no code",
            "baseline_off_cmd": "cd /repo && /venv/bin/python -m pytest -ra -q -p no:cacheprovider --timeout=900 --continue-on-collection-errors",
            "source_commits": [],
            "add_only": True,
        },
        "engines": [
            {"name": "pyvc", "path": "pyvc/", "serves_properties": sorted(CHECKS), "kind_free_text": "E1: AST->SMT verification-condition generator (symbolic path executor, contracts at call sites, loop invariants), z3 + cvc5"},
            {"name": "bounded", "path": "bounded/", "serves_properties": [], "kind_free_text": "E2b/E3 bounded stand-ins (small-scope enumeration against the same contracts; captured solver-model implication), always labelled bounded"},
        ],
        "checks": checks,
        "not_applicable": na,
        "notes": "Exit codes of ./check: 0 held, 1 violation (VIOLATION line), 2 undecided (UNDECIDED lines; never a violation), 3 checker crash.",
    }
    json.dump(m, open(os.path.join(VERIF, "MANIFEST.json"), "w"), indent=1)


if __name__ == "__main__":
    main()
