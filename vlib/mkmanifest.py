#!/usr/bin/env python3
"""Regenerates /verif/MANIFEST.json from the table below (single source of truth)."""
import json
import os

VERIF = os.path.dirname(os.path.dirname(os.path.abspath(__file__)))

BASE_NOTE = (
    "Trusted base: the pyvc encoding of Python semantics (DESIGN 3.3: mathematical ints, floats as reals, "
    "objects as ids into per-field arrays, typed container objects, value classes as datatypes, f-strings and "
    "str ordering uninterpreted), z3 5.1 / cvc5 1.0.3, the library contracts listed in the evidence file "
    "(trusted_base / assumptions). Functions not under contract surround the verified ones unverified."
)

CHECKS = {
    "C16": dict(
        category="proof",
        technique="contract-based deductive verification: pyvc (self-written AST->SMT VC generator over the real source) + z3/cvc5; lemmas over the contracts; mechanical write-site scans",
        text=(
            "Every EventTime operation (to/add/sub/eq/lt/mul/hash/copy, unit order) is proved equal to the microsecond spec function us(t) for "
            "all integer times and all unit mixes; Event.__lt__ is proved equal to the documented key (time, type priority, task name) and that "
            "key is proved a strict weak order; EventQueue operations are proved to keep the heap invariant / hand out a minimum given the "
            "stated heapq library contracts; a lemma shows consecutive pops are non-decreasing; a scan pins the in-place re-timing sites and the simulator "
            "obligations at those sites require re-heapification. Unbounded in values and queue contents."
        ),
        note=BASE_NOTE + " Specific: float exactness of int(time*1e3|1e6) below 2^53 is assumed (floats modelled as reals); heapq/list.remove behaviour is a stated library contract.",
        design_ref="DESIGN.md section 6 (C16)",
    ),
}

NOT_APPLICABLE = {
    "C20": "C++20 back-end (templates, shared_ptr DAGs, TBB): no deductive verifier for C++ is installed, the code cannot be annotated in place nor mechanically extracted into something z3/cvc5 VCs model soundly, and the library cannot be built here (TBB absent); a dump-and-check driver would be a different technique family.",
}

PENDING_REASON = "check under construction in this session (see DESIGN.md section 11 build order); not claimed until its obligations are discharged on the unchanged tree"


def main():
    props = [json.loads(l) for l in open(os.path.join(VERIF, "properties.jsonl"))]
    checks = []
    na = []
    for p in props:
        pid = p["id"]
        if pid in CHECKS:
            c = CHECKS[pid]
            checks.append(
                {
                    "property_id": pid,
                    "quick_cmd": "./check %s --tier quick" % pid,
                    "thorough_cmd": "./check %s --tier thorough" % pid,
                    "evidence_file": "evidence/%s.json" % pid,
                    "replay_cmd_template": "./check %s --replay {path}" % pid,
                    "engine": "pyvc",
                    "level_claimed": {"category": c["category"], "text": c["text"], "design_ref": c["design_ref"]},
                    "level_note": c["note"],
                    "technique": c["technique"],
                }
            )
        else:
            na.append({"property_id": pid, "reason": NOT_APPLICABLE.get(pid, PENDING_REASON)})
    m = {
        "version": 1,
        "setup_cmd": "python3-vt vlib/selftest.py",
        "hooks": {
            "guard": "ERDOS_SCHEDULING_SIMULATOR_VERIF",
            "enable": "no hooks are needed: contracts are side-cars under /verif/contracts and /repo is re-read with ast on every run; the guard is declared but guards no code",
            "baseline_off_cmd": "cd /repo && /venv/bin/python -m pytest -ra -q -p no:cacheprovider --timeout=900 --continue-on-collection-errors",
            "source_commits": [],
            "add_only": True,
        },
        "engines": [
            {"name": "pyvc", "path": "pyvc/", "serves_properties": sorted(CHECKS), "kind_free_text": "E1: AST->SMT verification-condition generator (symbolic path executor, contracts at call sites, loop invariants), z3 + cvc5"},
            {"name": "bounded", "path": "bounded/", "serves_properties": [], "kind_free_text": "E2b/E3 bounded stand-ins (small-scope enumeration against the same contracts; captured solver-model implication), always labelled bounded"},
        ],
        "checks": checks,
        "not_applicable": na,
        "notes": "Exit codes of ./check: 0 held, 1 violation (VIOLATION line), 2 undecided (UNDECIDED lines; never a violation), 3 checker crash.",
    }
    json.dump(m, open(os.path.join(VERIF, "MANIFEST.json"), "w"), indent=1)


if __name__ == "__main__":
    main()
