#!/usr/bin/env python3
"""Regenerates /verif/MANIFEST.json from the table below (single source of truth)."""
import json
import os

VERIF = os.path.dirname(os.path.dirname(os.path.abspath(__file__)))

BASE_NOTE = (
    "Trusted base: the pyvc encoding of Python semantics (DESIGN 3.3: mathematical ints, floats as reals, "
    "objects as ids into per-field arrays, typed container objects, value classes as datatypes, f-strings and "
    "str ordering uninterpreted), z3 5.1 / cvc5 1.0.3, the library contracts listed in the evidence file "
    "(trusted_base / assumptions). Functions not under contract surround the verified ones unverified."
)

CHECKS = {
    "C16": dict(
        category="proof",
        technique="contract-based deductive verification: pyvc (self-written AST->SMT VC generator over the real source) + z3/cvc5; lemmas over the contracts; mechanical write-site scans",
        text=(
            "Every EventTime operation (to/add/sub/eq/lt/mul/hash/copy, unit order) is proved equal to the microsecond spec function us(t) for "
            "all integer times and all unit mixes; Event.__lt__ is proved equal to the documented key (time, type priority, task name) and that "
            "key is proved a strict weak order; EventQueue operations are proved to keep the heap invariant / hand out a minimum given the "
            "stated heapq library contracts; a lemma shows consecutive pops are non-decreasing; a scan pins the in-place re-timing sites and the simulator "
            "obligations at those sites require re-heapification. Unbounded in values and queue contents. A bounded reference-model cross-check (bounded/eventqueue.py) gives concrete replays."
        ),
        note=BASE_NOTE + " Specific: float exactness of int(time*1e3|1e6) below 2^53 is assumed (floats modelled as reals); heapq/list.remove behaviour is a stated library contract.",
        design_ref="DESIGN.md section 6 (C16)",
    ),
}

PYVC = "contract-based deductive verification: pyvc (self-written AST->SMT VC generator over the real source, contracts at call sites, loop invariants, induction lemmas) + z3/cvc5"
CHECKS.update(
    {
        "C04": dict(
            category="proof",
            technique=PYVC + "; bounded operation-history enumeration as cross-check",
            text=(
                "Resources.allocate / allocate_multiple / deallocate / __gt__ / getters and Worker.place_task / remove_task / load_profile / evict_profile / "
                "can_accomodate_strategy are proved against an abstract ledger view for ALL resource vectors, requests and residents: a refused request changes "
                "nothing, a served request lowers the availability of exactly the matching keys by exactly the requested amount and records exactly that amount for "
                "the holder, deallocation returns exactly what was recorded, and the worker ledger invariant WF_W (residents <-> allocations <-> batches <-> profiles) is "
                "preserved by every mutator. Prefix-sum facts are lemmas proved by explicit induction steps. The pool level is proved too: WorkerPool.place_task (for the calls that pass a strategy), remove_task and step are verified against "
                "bodies-in-terms-of-Worker-contracts under the pool invariant (every worker WF_W, workers own separate containers, a task resident on at most one worker, the pool's task->worker map agrees with the workers): "
                "a refused placement changes nothing, a successful one changes exactly one worker (first fit / the named worker) and every other worker's footprint is untouched. Bounded part: operation histories (copy/deepcopy, read-only views "
                "such as pool.resources must not change the cluster) are enumerated up to a stated length. Not machine-checked: additivity of the finite sum over holders (per-operation conservation is)."
            ),
            note=BASE_NOTE + " Specific: allocate_multiple is proved atomic under Pre_disjoint (no two request keys match one vector key) -- the overlapping case is a known finding of the bounded check; dict keys of value class Resource compared structurally (no hash collisions); Task/strategy/profile keys by identity (distinct ids); copy()/deepcopy() of Resources/Worker/WorkerPool, Resources.__add__ and the load/evict_profile of a pool are bounded-only; WorkerPool.place_task without a strategy or with a pool-level scheduler is excluded by precondition (not verified).",
            design_ref="DESIGN.md section 6 (C04)",
        ),
        "C06": dict(
            category="proof",
            technique=PYVC + "; lemmas over the transition relation; write-site scan; bounded enumeration for the cancellation closure",
            text=(
                "Every Task mutator (release, schedule, unschedule, start, step, preempt, resume, finish, cancel, update_remaining_time) is proved to move the state only along "
                "the allowed transition relation taken from the statement, to raise (leaving the task unchanged) exactly in the stated states, and to preserve the task "
                "representation invariant; lemmas show COMPLETED/CANCELLED/EVICTED have no outgoing edge, CANCELLED is entered only before running and RUNNING only from "
                "SCHEDULED/PREEMPTED; a scan shows _state is written only inside Task. TaskGraph.is_sink_task / get_sink_tasks / is_complete / is_cancelled are proved against the definition (finished EXACTLY when every sink - no child, or only the same task of the next timestamp - is complete). "
                "Simulator.__handle_task_cancellation is proved to drop the pending placement of a cancelled task from the queue and the cache; Simulator.__handle_task_preempt moves a task from RUNNING to PREEMPTED after taking it off its pool. Cancellation closure (TaskGraph.cancel) is bounded (labelled so)."
            ),
            note=BASE_NOTE + " Specific: Task.__init__ is verified (the random id, its hash and `_last_step_time = -1` are dropped: fields left unconstrained); log-statement arguments are assumed pure; TaskGraph.cancel is decided only by the bounded stand-in.",
            design_ref="DESIGN.md section 6 (C06)",
        ),
        "C19": dict(
            category="exploration",
            technique="bounded small-scope enumeration of descriptions against contracts written from the statement (stand-in), plus pyvc proof obligations on EventTime.fuzz",
            text=(
                "Bounded stand-in: generated YAML/JSON descriptions (job graphs <= 4 nodes, all optional-field combinations up to the bound, every release policy) are "
                "loaded by the real loaders and compared structurally with an independent reading; release times, closed-loop in-flight bound, fresh isomorphic copies and "
                "deadline stretch are checked per invocation. EventTime.fuzz is additionally under a proved contract (floats as reals). Not a proof: the loaders are outside "
                "the pyvc subset (string/dict parsing)."
            ),
            note="Bounded: the bound is in the evidence file. Trusted: independent re-reader in bounded/loaders.py; numpy arange/linspace; seeded RNG wrappers.",
            design_ref="DESIGN.md section 6 (C19)",
        ),
        "C10": dict(
            category="exploration",
            technique="captured solver-model implication (every feasible point of the model the real schedule() builds, z3-decided) on bounded instances; pyvc contracts on the fit test",
            text=(
                "Bounded in instances, complete in solutions: on each enumerated small instance the real ILP / TetriSched-Gurobi / TetriSched-CPLEX / Z3 schedule() runs, the solver "
                "model it built is read back and translated to z3, and 'model AND NOT (capacity at every instant, existing worker, own strategy, time >= now/release)' must be unsat; "
                "run-level: one decision per task, only offered tasks, live cluster and task states unchanged. EDF / FIFO / LSF schedule() are under pyvc contracts (one decision per offered task, "
                "the virtual cluster moves exactly by the recorded decisions, placement time = now, live pools untouched); Clockwork by small-scope enumeration. "
                "The fit test Resources.__gt__ / Worker.can_accomodate_strategy is proved."
            ),
            note="Bounded: instance bound in the evidence. Trusted: read-back API of gurobipy/docplex/z3, the model->z3 translation in bounded/milp_capture.py, solver feasibility answers.",
            design_ref="DESIGN.md section 6 (C10)",
        ),
        "C11": dict(
            category="exploration",
            technique="captured solver-model implication: precedence holds at EVERY feasible point of the captured ILP / TetriSched-Gurobi / Z3 model, bounded instances",
            text="Bounded in instances (all DAG shapes <= 4 nodes x new/running/scheduled parents), complete in solutions (z3 decides model AND NOT precedence).",
            note="Bounded. Trusted: model read-back and translation, decode rule cross-checked against the returned placements on every instance.",
            design_ref="DESIGN.md section 6 (C11)",
        ),
        "C12": dict(
            category="exploration",
            technique="captured solver-model implication for the deadline rows / cell pruning on bounded instances; run-level cancellation check",
            text="Bounded in instances (deadlines past / tight / loose), complete in solutions: placed => start + chosen runtime <= deadline at every feasible point; hopeless tasks cancelled (CPLEX) or unplaced (ILP, Gurobi). EDF / FIFO admission is proved (pyvc obligations admit.cancel_only_if_hopeless / admit.hopeless_is_cancelled: a cancellation is issued iff enforcement is on and deadline < now + fastest runtime); Clockwork admission (ClockworkScheduler.run_admission) is proved the same way (admit.cancel_only_if_hopeless / admit.hopeless_is_never_queued) and additionally by small-scope enumeration.",
            note="Bounded for the optimisation policies and the Clockwork batching decisions; EDF / FIFO / Clockwork admission proved (get_fastest_strategy verified; Models.add_task assumed).",
            design_ref="DESIGN.md section 6 (C12)",
        ),
        "C14": dict(
            category="translation_validation",
            technique="captured solver model vs an independent brute-force feasibility spec in the planner's own decision space (no over-tight row; goodput / maximality of the returned plan), bounded instances",
            text="Per instance: every plan the statement allows must be a feasible point of the captured model, the ILP plan must reach the brute-force goodput optimum and the TetriSched plan must be maximal. Instances up to the property's own enumeration bound.",
            note="Bounded; solver optimality trusted (gap < 1 unit at these sizes).",
            design_ref="DESIGN.md section 6 (C14)",
        ),
    }
)

WORLDS = "bounded small-world runs of the real simulator (EDF/FIFO/LSF, <= 3 graphs x <= 4 tasks, sampled balanced over the dimension product) against an independent observer"
CHECKS.update(
    {
        "C01": dict(
            category="proof",
            technique=PYVC + "; ledger invariant preserved by every Worker mutator; " + WORLDS + " as cross-check",
            text=(
                "The worker ledger invariant WF_W (every holder of resources is a resident task, a registered batch placeholder or a profile; availability never negative; "
                "a served request lowers availability by exactly the demand) is proved preserved by Worker.place_task / remove_task / load_profile / evict_profile for all "
                "states, so by induction over the operations no history of them oversubscribes a worker. Which simulator code paths mutate live workers is pinned by a scan "
                "(when registered); the end-to-end clause (sum of resident demands <= capacity at every place/remove, one worker per task) is additionally observed on "
                "bounded runs. 'A task never draws resources from more than one worker' is the proved pool invariant (resident on at most one worker) preserved by WorkerPool.place_task#body / remove_task#body, which change exactly one worker. Not machine-checked: finite additivity of the sum over holders."
            ),
            note=BASE_NOTE + " Specific: Pre_disjoint on request keys; the pool-level bodies are verified under the pool invariant, which the simulator call sites assume (it is preserved by every verified mutator); the scheduler-side copies are covered by the bounded stand-ins only.",
            design_ref="DESIGN.md section 6 (C01)",
        ),
        "C02": dict(
            category="proof",
            technique=PYVC + " on the Task guards; transition-relation lemmas; " + WORLDS + " for the run-level clauses",
            text=(
                "Proved for all inputs: Task.start raises unless the task is SCHEDULED and asserts start_time >= release_time (obligation start.after_release), moves to RUNNING "
                "exactly once per SCHEDULED/PREEMPTED episode (lemmas over the transition relation: RUNNING is entered only from SCHEDULED or PREEMPTED, COMPLETED only from "
                "RUNNING/PREEMPTED and is final); the event-priority lemma orders finish < release < placement at one timestamp. Task.is_ready_to_run is proved equal to the readiness "
                "spec (join: some parent complete; otherwise all parents complete; state SCHEDULED or PREEMPTED) and Simulator.__handle_task_placement is proved to start a task only "
                "when that test held (obligation placement.guarded), at the event's time, and to re-queue it strictly later otherwise; __handle_task_finished is proved to queue only "
                "release/cancel events that are not in the past. Bounded: in enumerated small worlds no task starts before its release or its predecessors, and starts/completes at most once."
            ),
            note=BASE_NOTE + " Specific: the composition argument (release event before placement event at the same instant) relies on the C16 ordering lemmas; TaskGraph.cancel / is_cancelled / notify_task_completion, WorkerPool.place_task / remove_task are assumed contracts at the handlers (their own behaviour is decided by the bounded stand-ins).",
            design_ref="DESIGN.md section 6 (C02)",
        ),
        "C03": dict(
            category="proof",
            technique=PYVC + " on Task.start/step/finish, EventTime.fuzz, Simulator.__step and the main loop Simulator.simulate; " + WORLDS + " for the run-level clauses",
            text=(
                "Proved for all inputs: Task.step reports completion iff 0 < remaining <= step (under last_step_time == now), leaves remaining exactly reduced otherwise, "
                "and stamps the finish at now + remaining; Task.start keeps the strategy runtime exactly without variance and within [r, r(1+v/100)+1/2] with it; "
                "Simulator.__step refuses negative steps (clock never backwards), advances the clock by exactly the step and stamps every TASK_FINISHED event with the new clock value, "
                "keeping the event heap valid; Worker.step returns exactly the placed RUNNING tasks whose step reports completion; the placement handler starts a task exactly at the "
                "event's time and the finish handler stamps completion with the time the last step reached. Bounded: finish - start == runtime, resources held over exactly [s, s+r], "
                "events handled at their own time and in order, start >= chosen time; EventQueue cross-check against a reference model. Main loop (Simulator.simulate, loop invariant: valid heap, "
                "nothing queued in the past, clock monotone): every step is min(smallest remaining time of a resident task, time to the earliest queued event) - obligations "
                "loop.step_le_every_remaining_time, loop.step_le_time_to_next_event, loop.step_reaches_earliest_event (peek is an earliest event by the inductive lemma heap.root_earliest) - "
                "and an event is handed to its handler only when the clock equals its time (call:Simulator.__handle_event.event_at_its_time). "
                "Simulator.__handle_scheduler_finish rejects (ValueError) every placed decision timed before the end of the scheduler invocation, so no task is planned into the past; applying a decision "
                "(__create_events_from_task_placement) makes the task record exactly that decision (runtime of the chosen strategy) and its pending event carry it at the chosen time, also when an earlier decision is revised."
            ),
            note=BASE_NOTE + " Specific: the abstract contract of WorkerPool.step used by __step/simulate is verified against the body (WorkerPool.step#body) under the pool invariant; floats as reals in fuzz; the exact upper bound of fuzz is a known finding (rounding).",
            design_ref="DESIGN.md section 6 (C03)",
        ),
        "C05": dict(
            category="proof",
            technique=PYVC + " (safety half only: clock progress obligations); " + WORLDS + " with CPU-time alarms for termination; liveness is NOT decided",
            text=(
                "Deductive verification is silent on liveness. Proved: __step never moves the clock backwards, Task.step's zero-remaining behaviour is pinned by contract (the root of the "
                "known zero-runtime livelock), and a placement that is neither applied nor dropped is re-queued STRICTLY later (obligation placement.retry_strictly_later: no same-instant retry loop). Thorough tier only (190 paths, 2774 obligations): "
                "Simulator.__get_next_scheduler_event returns a SIMULATOR_END or SCHEDULER_START event; SIMULATOR_END before the timeout only when no event is pending and no placement is cached; outside the run-at-worker-free mode "
                "the next SCHEDULER_START is not before the finished invocation, strictly before the loop timeout, honours the period, and is strictly later when the scheduler is late or aperiodic (four side-effect-free sub-expressions "
                "outside the subset are declared opaque, listed in the evidence). EventQueue.get_next_event_of_type returns the first pending event of a type. Bounded: every enumerated small world must reach a single SIMULATOR_END no later than the timeout, complete all tasks under a "
                "work-conserving policy, and never end with released runnable work. The general claims 'every run terminates' and 'feasible work always finishes' are whole-history "
                "liveness and are not decided by any contract here."
            ),
            note="Bounded for the run-level clauses; the proof part covers only the clock/step functions. Three genuine defects are recorded as known findings.",
            design_ref="DESIGN.md section 6 (C05)",
        ),
        "C08": dict(
            category="exploration",
            technique=WORLDS + ": CSV trace and counters compared with the observed run, trace fed to the project's CSVReader",
            text="Bounded stand-in for rows / reader (per world, the SIMULATOR_END counters, every row's fields, scheduler rows and the reader's reconstruction are compared with what an observer saw) plus pyvc obligations on Simulator.__handle_task_finished: the finished counter moves by exactly one, the missed-deadline counter moves iff completion is later than the deadline, graph counters move at most once and only together; Simulator.__handle_task_cancellation: the cancelled-task counter moves by exactly one per TASK_CANCEL event; Simulator.__create_events_from_task_placement: the pending TASK_PLACEMENT event (from which the placement row is written) carries THIS decision, also when a SCHEDULED task is decided again; TaskGraph.deadline#body: the graph deadline a graph-level miss is measured against is the latest task deadline of the graph (related to the abstract contract the finish handler uses by TaskGraph.deadline#refines).",
            note="Bounded; sampled worlds (not exhaustive); observer wraps Task/Worker methods in the checking process. The CSV rows themselves (f-strings) are not modelled by pyvc.",
            design_ref="DESIGN.md section 6 (C08)",
        ),
        "C09": dict(
            category="other",
            technique="two-run comparison of bounded worlds through main.py in fresh processes with different PYTHONHASHSEED (stand-in for the relational contracts), plus a source scan for nondeterminism sources when registered",
            text="Not a proof of whole-trace determinism: the same small world is run twice through main.py with the same --random_seed and different hash seeds; traces must be identical after masking wall-clock durations.",
            note="Bounded; 2-3 hash seeds; solver back-ends' internal determinism is out of scope.",
            design_ref="DESIGN.md section 6 (C09)",
        ),
        "C17": dict(
            category="exploration",
            technique="exhaustive small-scope enumeration (all labelled DAGs <= 5 nodes quick / <= 6 thorough, weights, cyclic digraphs, random DAGs <= 40) against brute-force spec functions",
            text="Proved for all graphs (function level, not counted towards the level): Graph.add_child preserves the representation invariant (the parent map is the inverse of the child map, every child is a node, every entry owns its list) and adds exactly the edge; get_sources / is_source return exactly the parentless nodes. Bounded stand-in (deciding): toposort, longest path, critical-path runtime, are_dependent, node depth, sources/sinks, breadth_first() and depth_first(n) are compared with definitions by naive closure / path enumeration on every labelled DAG up to the bound (the property's own quantifier is this enumeration), also after a source was added, every routine was called (memoisation) and the source was removed again.",
            note="Exhaustive up to the stated bound; generator-based traversals and the recursive DFS toposort are outside the pyvc subset.",
            design_ref="DESIGN.md section 6 (C17)",
        ),
    }
)

CHECKS.update(
    {
        "C07": dict(
            category="exploration",
            technique="bounded small-scope enumeration (all DAGs <= 4-5 nodes x conditional/terminal flags x weights x state vectors built through legal call sequences) against contracts written from the statement; Task.cancel under a proved contract",
            text=(
                "Bounded stand-in: notify_task_completion on a conditional releases exactly one child drawn among positive-weight children and cancels the siblings' branches up to but "
                "excluding the join (closure computed independently); resolution at submission is compared with the run-time release. Task.cancel itself is proved (pyvc). "
                "TaskGraph.cancel / notify_task_completion are generator/closure heavy and are not yet under a pyvc contract."
            ),
            note="Bounded (bound in the evidence). FakeRandomNumberGenerator ignoring declared weights is an observation, not an obligation.",
            design_ref="DESIGN.md section 6 (C07)",
        ),
        "C13": dict(
            category="proof",
            technique=PYVC + " on EDFScheduler / FIFOScheduler / LSFScheduler.schedule with loop invariants and program-point assertions; bounded enumeration of scheduler inputs as cross-check",
            text=(
                "Proved for all inputs of the three greedy policies: the task list is ordered by the policy's key (obligation order.*: EDF deadline then graph name, FIFO release time, "
                "LSF deadline - now - remaining time; the key lambda is evaluated symbolically and compared with the spec key); at the point where a task is answered 'unplaced' no "
                "strategy of it fits any pool of the virtual cluster in its current occupancy (unplaced.nothing_fits), and the occupancy of the virtual cluster has moved exactly by the "
                "recorded decisions (placed.virtual_state_is_recorded_decision: the (task, strategy, pool) passed to place_task is the one the decision records), so every placed task "
                "of higher or equal priority is accounted for and nothing else. One decision per offered task; the live cluster is not touched. The cluster is abstracted by a ghost "
                "occupancy version per pool (can_accomodate_strategy is an uninterpreted function of it; place_task bumps it); what 'fits' means is the proved Worker-level fit test "
                "plus the bounded ledger stand-in. Bounded cross-check: every small input up to the stated bound, decisions replayed on an independent ledger."
            ),
            note=BASE_NOTE + " Specific: WorkerPool.can_accomodate_strategy / place_task, WorkerPools.__copy__/__deepcopy__, Workload.get_schedulable_tasks, Placements.__init__ are assumed contracts (get_fastest_strategy, Task.remaining_time, Placement.__init__ are verified; the concrete meaning of the pool fit test - some worker fits - is verified as WorkerPool.can_accomodate_strategy#body); sorted() is a library contract (permutation + ordered by the key under python's <).",
            design_ref="DESIGN.md section 6 (C13)",
        ),
        "C15": dict(
            category="exploration",
            technique="bounded enumeration of Clockwork arrival histories (<= 3 invocations x <= 5 requests x 2 models x batch sizes {1,2,4} x loading states x both goals) driven like the simulator would; " + PYVC + " on Model.add_task / remove_task / get_placements (queue representation invariant)",
            text=(
                "Bounded stand-in (deciding): every returned placement set is checked for same-model full batches on a loaded worker that can hold the strategy, on-time w.r.t. the earliest deadline, "
                "no request placed twice across invocations, hopeless requests cancelled; Model queue invariants after each call. Proved for all inputs at function level (not counted towards the level): "
                "under the queue invariant (distinct queues, every queued request is THE registered request of its task, no request twice in a queue) Model.get_placements returns exactly batch_size "
                "placements, for the first batch_size requests of the CHOSEN strategy's queue, all at sim_time under one fresh batch strategy with the chosen strategy's batch size and runtime, and "
                "afterwards every batched task is in no queue and not registered; Model.remove_task removes the task's request from every queue; Model.add_task is idempotent and enters a new "
                "request into every queue exactly once; each preserves the invariant."
            ),
            note="Bounded (bound in the evidence); the driver mimics simulator.py's application of placements. pyvc part: Request.__init__/__eq__/get_demand, BatchStrategy.__init__ and bisect.insort are assumed contracts (insertion position not modelled); the write to _last_used_at_worker is dropped.",
            design_ref="DESIGN.md section 6 (C15)",
        ),
        "C18": dict(
            category="exploration",
            technique="bounded enumeration of task-graph states built through legal call sequences x times x lookaheads x switches against contracts from the statement; " + PYVC + " on TaskGraph.get_schedulable_tasks (selection loop), TaskGraph.get_releasable_tasks and TaskGraph.notify_task_completion (release rule, both directions)",
            text=(
                "Bounded stand-in (deciding): get_schedulable_tasks never starves a released task, never offers completed/cancelled tasks, offers scheduled/running ones only with retraction/preemption, "
                "is monotone in lookahead and release_taskgraphs; get_releasable_tasks and notify_task_completion release exactly the unlocked children. Proved for all inputs at function level "
                "(not counted towards the level): get_releasable_tasks returns exactly the graph nodes in a releasable state whose every parent is complete (releasable.only / releasable.none_starved); "
                "for a non-conditional task notify_task_completion releases only (release.only_unlocked_children) and every (release.every_unlocked_child) child that is not cancelled and is a join or "
                "has all parents complete; for a conditional at most one child, of positive weight; TaskGraph.get_schedulable_tasks (324 obligations): every node that is RELEASED with release time <= time + lookahead, PREEMPTED or EVICTED is in the offer "
                "(frontier.no_starvation), and without preemption every offered task is a node that is not COMPLETED / CANCELLED / RUNNING and is SCHEDULED only with retract_schedules (frontier.only_allowed_without_preemption); "
                "phase 1 (estimate propagation) is shown to touch only its local work list and map. Bounded only: the clause about non-planning policies (depends on the estimates), monotonicity in lookahead / release_taskgraphs, the preemption tail."
            ),
            note="Bounded (bound in the evidence; 4-node frontier states sampled).",
            design_ref="DESIGN.md section 6 (C18)",
        ),
    }
)

NOT_APPLICABLE = {
    "C20": "C++20 back-end (templates, shared_ptr DAGs, TBB): no deductive verifier for C++ is installed, the code cannot be annotated in place nor mechanically extracted into something z3/cvc5 VCs model soundly, and the library cannot be built here (TBB absent); a dump-and-check driver would be a different technique family.",
}

PENDING_REASON = "check under construction in this session (see DESIGN.md section 11 build order); not claimed until its obligations are discharged on the unchanged tree"


def main():
    props = [json.loads(l) for l in open(os.path.join(VERIF, "properties.jsonl"))]
    checks = []
    na = []
    for p in props:
        pid = p["id"]
        if pid in CHECKS:
            c = CHECKS[pid]
            checks.append(
                {
                    "property_id": pid,
                    "quick_cmd": "./check %s --tier quick" % pid,
                    "thorough_cmd": "./check %s --tier thorough" % pid,
                    "evidence_file": "evidence/%s.json" % pid,
                    "replay_cmd_template": "./check %s --replay {path}" % pid,
                    "engine": "pyvc" if c["category"] == "proof" else "bounded",
                    "level_claimed": {"category": c["category"], "text": c["text"], "design_ref": c["design_ref"]},
                    "level_note": c["note"],
                    "technique": c["technique"],
                }
            )
        else:
            na.append({"property_id": pid, "reason": NOT_APPLICABLE.get(pid, PENDING_REASON)})
    m = {
        "version": 1,
        "setup_cmd": "python3-vt vlib/selftest.py",
        "hooks": {
            "guard": "ERDOS_SCHEDULING_SIMULATOR_VERIF",
            "enable": "no hooks are needed: contracts are side-cars under /verif/contracts and /repo is re-read with ast on every run; the guard is declared but guards no code",
            "baseline_off_cmd": "cd /repo && /venv/bin/python -m pytest -ra -q -p no:cacheprovider --timeout=900 --continue-on-collection-errors",
            "source_commits": [],
            "add_only": True,
        },
        "engines": [
            {"name": "pyvc", "path": "pyvc/", "serves_properties": sorted(CHECKS), "kind_free_text": "E1: AST->SMT verification-condition generator (symbolic path executor, contracts at call sites, loop invariants), z3 + cvc5"},
            {"name": "bounded", "path": "bounded/", "serves_properties": [], "kind_free_text": "E2b/E3 bounded stand-ins (small-scope enumeration against the same contracts; captured solver-model implication), always labelled bounded"},
        ],
        "checks": checks,
        "not_applicable": na,
        "notes": "Exit codes of ./check: 0 held, 1 violation (VIOLATION line), 2 undecided (UNDECIDED lines; never a violation), 3 checker crash.",
    }
    json.dump(m, open(os.path.join(VERIF, "MANIFEST.json"), "w"), indent=1)
    # the checks read their claimed level from this table (kept next to the driver)
    json.dump({pid: c["category"] for pid, c in CHECKS.items()}, open(os.path.join(VERIF, "vlib", "levels.json"), "w"), indent=1, sort_keys=True)


if __name__ == "__main__":
    main()
