#!/usr/bin/env python3
"""Differential self-test of the pyvc encoding (DESIGN 3.8): for the value-level functions of utils.EventTime the REAL
function is run by CPython (/venv/bin/python) on concrete inputs, and pyvc must derive exactly that outcome from the
source: a temporary contract `<fn>#difftest` with  requires = (arguments == the concrete values)  and
ensures = (result == CPython's result)  or  raises = {the exception CPython raised}  is verified against the body.
Any obligation that is not discharged means the engine's reading of Python differs from CPython on that input.

    python3-vt vlib/difftest.py [n_cases]        exit 0: all agree; 1: a disagreement (printed); 2: could not run
"""
import glob, importlib, json, os, random, subprocess, sys

VERIF = os.path.dirname(os.path.dirname(os.path.abspath(__file__)))
sys.path.insert(0, VERIF)
REPO = os.environ.get("PYVC_REPO", "/repo")

CPY = r'''
import json, sys, logging
logging.disable(logging.CRITICAL)
from utils import EventTime
U = {"US": EventTime.Unit.US, "MS": EventTime.Unit.MS, "S": EventTime.Unit.S}
NAME = {v: k for k, v in U.items()}
def enc(v):
    if isinstance(v, EventTime): return {"et": [v.time, NAME[v.unit]]}
    if isinstance(v, bool): return {"bool": v}
    if isinstance(v, int): return {"int": v}
    return {"other": repr(v)}
out = []
for case in json.load(sys.stdin):
    fn, a, b = case
    x = EventTime(a[0], U[a[1]])
    try:
        if fn == "to": r = x.to(U[b])
        elif fn == "is_invalid": r = x.is_invalid()
        elif fn == "__hash__": r = x.__hash__()
        else:
            y = EventTime(b[0], U[b[1]])
            r = {"__add__": lambda: x + y, "__sub__": lambda: x - y, "__eq__": lambda: x == y, "__lt__": lambda: x < y}[fn]()
        out.append(enc(r))
    except Exception as e:
        out.append({"raise": type(e).__name__})
print(json.dumps(out))
'''


def main():
    n = int(sys.argv[1]) if len(sys.argv) > 1 else 40
    rng = random.Random(20260924)
    units = ["US", "MS", "S"]
    vals = [-1, 0, 1, 2, 999, 1000, 1001, 12345, 10**6, 3 * 10**6 + 7, -2500]
    cases = []
    for _ in range(n):
        fn = rng.choice(["__add__", "__sub__", "__eq__", "__lt__", "to", "is_invalid", "__hash__"])
        a = [rng.choice(vals), rng.choice(units)]
        b = rng.choice(units) if fn == "to" else [rng.choice(vals), rng.choice(units)]
        cases.append([fn, a, b])
    p = subprocess.run(["/venv/bin/python", "-c", CPY], input=json.dumps(cases), capture_output=True, text=True, env=dict(os.environ, PYTHONPATH=REPO), cwd=REPO, timeout=120)
    if p.returncode != 0:
        print("difftest: CPython side failed:", p.stderr[-400:])
        return 2
    expected = json.loads(p.stdout.strip().splitlines()[-1])
    for pth in sorted(glob.glob(os.path.join(VERIF, "contracts", "c_utils.py"))):
        importlib.import_module("contracts." + os.path.basename(pth)[:-3])
    import z3
    from pyvc import registry as R
    from pyvc import verify as V
    from contracts.c_utils import ETy, UNIT, mk, t_time, t_unit

    def unit_z(name):
        return UNIT.ty.ordinal(name)

    def et_z(v):
        return mk(z3.IntVal(v[0]), unit_z(v[1]))

    bad = 0
    skipped = 0
    for k, (case, exp) in enumerate(zip(cases, expected)):
        fn, a, b = case
        base = R.CONTRACTS["utils.EventTime." + fn]
        q = "utils.EventTime.%s#difftest%d" % (fn, k)

        def requires(c, a=a, b=b, fn=fn):
            out = [c.arg("self") == et_z(a)]
            if fn == "to":
                out.append(c.arg("unit") == unit_z(b))
            elif fn not in ("is_invalid", "__hash__"):
                out.append(c.arg("other") == et_z(b))
            return z3.And(*out)

        raises, ensures = {}, None
        if "raise" in exp:
            raises = {exp["raise"]: (lambda c: z3.BoolVal(True))}
            ensures = lambda c: z3.BoolVal(False)  # a normal return is a disagreement
        elif "et" in exp:
            ensures = lambda c, e=exp: z3.And(t_time(c.res) == e["et"][0], t_unit(c.res) == unit_z(e["et"][1]))
        elif "bool" in exp:
            ensures = lambda c, e=exp: c.res == z3.BoolVal(e["bool"])
        elif "int" in exp:
            ensures = lambda c, e=exp: c.res == e["int"]
        else:
            continue
        R.Contract(q, params=base.params, ret=base.ret, requires=requires, raises=raises, ensures=ensures, drops=base.drops, props=())
        r = V.Verifier(q).run_all()
        del R.CONTRACTS[q]
        if r.status != "ok":
            skipped += 1  # the (edited) function left the subset: no statement about the encoding
            continue
        failed = [o["name"] for o in r.obligations if o["status"] == "failed"]
        if failed:
            bad += 1
            print("difftest DISAGREES: %s%r -> CPython %r ; pyvc refutes: %s" % (fn, (a, b), exp, failed[:3]))
        elif any(o["status"] != "discharged" for o in r.obligations):
            skipped += 1
    print("difftest: %d concrete cases of utils.EventTime (add/sub/eq/lt/to/is_invalid/hash), %d not evaluable, %d disagreements between pyvc and CPython" % (len(cases), skipped, bad))
    return 1 if bad else 0


if __name__ == "__main__":
    sys.exit(main())
