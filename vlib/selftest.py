#!/usr/bin/env python3
"""setup_cmd: checks that the tool chain the checks need is present and sane (offline)."""
import os
import subprocess
import sys

VERIF = os.path.dirname(os.path.dirname(os.path.abspath(__file__)))
sys.path.insert(0, VERIF)


def main():
    import z3

    x = z3.Int("x")
    s = z3.Solver()
    s.add(x > 0, z3.Not(x > 1))
    assert s.check() == z3.sat, "z3 canary"
    s = z3.Solver()
    s.add(x > 1, z3.Not(x > 0))
    assert s.check() == z3.unsat, "z3 canary 2"
    assert os.path.exists("/usr/bin/cvc5"), "cvc5 missing"
    assert os.path.exists("/venv/bin/python"), "/venv python missing"
    import glob, importlib

    for p in sorted(glob.glob(os.path.join(VERIF, "contracts", "c_*.py"))):
        importlib.import_module("contracts." + os.path.basename(p)[:-3])
    from pyvc.registry import CONTRACTS

    assert len(CONTRACTS) > 10
    r = subprocess.run(["/venv/bin/python", "-c", "import workload, workers, simulator, utils; print('repo imports ok')"], env=dict(os.environ, PYTHONPATH=os.environ.get("PYVC_REPO", "/repo")), capture_output=True, text=True)
    assert r.returncode == 0, r.stderr[-500:]
    print("selftest ok: z3", z3.get_version_string(), "contracts", len(CONTRACTS))


if __name__ == "__main__":
    main()
