#!/usr/bin/env python3
"""records, for every function under a (verified) contract, the names of its locals in binding order on the current tree
(run on the unchanged tree only): baseline/locals.json.  Used to resolve renamed locals (pyvc/engine.py)."""
import glob, importlib, json, os, sys

VERIF = os.path.dirname(os.path.dirname(os.path.abspath(__file__)))
sys.path.insert(0, VERIF)
for p in sorted(glob.glob(os.path.join(VERIF, "contracts", "c_*.py"))):
    importlib.import_module("contracts." + os.path.basename(p)[:-3])
from pyvc import registry as R
from pyvc.engine import binding_order

out = {}
for q, c in sorted(R.CONTRACTS.items()):
    if c.trusted or c.inline:
        continue
    try:
        fdef, cls, kind = R.find_function(q)
    except KeyError:
        continue
    out[q.split("#")[0]] = binding_order(fdef)
json.dump(out, open(os.path.join(VERIF, "baseline", "locals.json"), "w"), indent=0, sort_keys=True)
print("recorded", len(out), "functions")
