#!/bin/bash
# usage: tools_harmless.sh <name> <dir with harmless_*.diff> <pid> [<pid> ...]
# applies ALL behaviour-preserving edits of the directory to a scratch worktree and runs the listed checks against it:
# every check must still exit 0 (false-alarm probe).  /repo is not touched.
set -u
HERE="$(cd "$(dirname "$0")" && pwd)"
NAME=$1; SRC=$(realpath $2); shift 2
WT=/tmp/seed/harmless_wt_$NAME
SCR=/tmp/seed/harmless_scratch_$NAME
rm -rf $SCR; mkdir -p $SCR/evidence $SCR/replays
git -C /repo worktree add -q --detach $WT HEAD || exit 9
for d in $SRC/harmless_*.diff; do
  ( cd $WT && git apply $d ) || echo "HARMLESS $NAME: $(basename $d) does not apply on top of the others"
done
TESTS=$(cd $WT && /venv/bin/python -m pytest -q -p no:cacheprovider --timeout=900 2>&1 | tail -1)
echo "HARMLESS $NAME tests: $TESTS"
for P in "$@"; do
  OUT=$(cd $HERE && PYVC_REPO=$WT VERIF_EVIDENCE_DIR=$SCR/evidence VERIF_REPLAY_DIR=$SCR/replays ./check $P ${HARMLESS_FLAGS:-} 2>&1); RC=$?
  echo "$OUT" | grep -E "^(VIOLATION|UNDECIDED|FAILED|CHECKER)" | cut -c1-300 | head -8
  echo "HARMLESS $NAME $P rc=$RC :: $(echo "$OUT" | tail -1)"
done
git -C /repo worktree remove --force $WT
rm -rf $SCR
