#!/usr/bin/env python3
"""debug: verify one function serially with progress output:  tools_dbg.py <qname> [obl-timeout-ms]"""
import sys, time, os, glob, importlib
sys.path.insert(0, '/verif')
if len(sys.argv) > 2:
    os.environ["PYVC_OBL_MS"] = sys.argv[2]
for p in sorted(glob.glob('/verif/contracts/c_*.py')):
    importlib.import_module('contracts.' + os.path.basename(p)[:-3])
from pyvc import verify as V
q = sys.argv[1]
orig = V.discharge
def d2(o, ver=None):
    orig(o, ver)
    print("   %-60s %-11s %6.2fs %s %s" % (o.name[:60], o.status, o.seconds, list(o.key[2])[-8:], o.site), flush=True)
V.discharge = d2
os.environ["PYVC_DISCHARGE_JOBS"] = "1"
t0 = time.time()
v = V.Verifier(q)
r = v.run_all()
print(q, r.status, r.reason[:2000], 'paths', r.paths, 'obl', len(r.obligations), 'triv', r.trivial, 'cover', r.cover, round(r.seconds, 1))
