#!/bin/bash
# usage: tools_mut.sh <pid> <file> <python-expr on source s returning new source>
# copies *.py of /repo to /tmp/mut, applies the edit, runs ./check <pid> against it
set -e
rm -rf /tmp/mut && mkdir -p /tmp/mut && rsync -a --include='*/' --include='*.py' --exclude='*' --exclude='.git' /repo/ /tmp/mut/
python3 - "$2" "$3" <<'PY'
import sys
f, expr = sys.argv[1], sys.argv[2]
p = '/tmp/mut/' + f
s = open(p).read()
s2 = eval(expr)
assert s2 != s, "mutation did not apply"
open(p, 'w').write(s2)
PY
cd /verif && PYVC_REPO=/tmp/mut ./check $1 2>&1 | grep -v "^KNOWN" | cut -c1-300 | tail -${4:-8}
