"""Clockwork `Model` request queues (C15): removal from all queues, batch extraction."""
import z3

from pyvc import ty as T
from pyvc import heap as H
from pyvc.engine import Fact, Step
from pyvc.registry import ANY, CLASSES, Contract, Loop, declare_ref
from contracts import shapes as S_
from contracts.c_utils import ETy, OptET, us

REQ = "schedulers.clockwork_scheduler.Model.Request"
MODEL = "schedulers.clockwork_scheduler.Model"
TASK = "workload.tasks.Task"
STRAT = "workload.strategy.ExecutionStrategy"
ReqR = T.Ref(REQ)
ReqList = T.List(ReqR)
TaskReq = T.Dict(S_.TASKR, ReqR)
Queues = T.Dict(S_.STRAT, ReqList)
DemandT = T.Tup(T.REAL, T.REAL)

Request = declare_ref(REQ, {"_task": S_.TASKR, "_num_strategies": T.INT, "_execution_slo": ETy, "_loadweights_slo": ETy})
Model = declare_ref(
    MODEL,
    {
        "_tasks": TaskReq,
        "_request_queues": Queues,
        "_profile": T.Ref("workload.profile.WorkProfile"),
        "_outstanding_execution_demand": T.REAL,
        "_outstanding_load_demand": T.REAL,
        "_last_used_at_worker": T.OPAQUE,
    },
)
P = ("C15",)


def m_tasks(h, m):
    return h.rd(m, MODEL, "_tasks")[1]


def m_queues(h, m):
    return h.rd(m, MODEL, "_request_queues")[1]


def queue_at(h, m, k):
    d = m_queues(h, m)
    return h.d_val(Queues, d, h.d_key(Queues, d, k))


def r_task(h, r):
    return h.rd(r, REQ, "_task")[1]


def n_queues(h, m):
    return h.c_len(Queues, m_queues(h, m))


def inv_model(h, m, q_of=None):
    """representation invariant of the per-strategy request queues:
    distinct queue objects; every queued request is THE registered request of its task; no request twice in a queue"""
    k, k2, i, j = [z3.Int(H.fresh_name(n)) for n in ("iq_k", "iq_k2", "iq_i", "iq_j")]
    x_ = z3.Int(H.fresh_name("iq_x"))
    qk, qk2 = queue_at(h, m, k), queue_at(h, m, k2)
    el = lambda q, a: h.l_elem(ReqList, q, a)
    nq = n_queues(h, m)
    return {
        "queues_distinct": z3.ForAll([k, k2], z3.Implies(z3.And(0 <= k, k < k2, k2 < nq), qk != qk2), patterns=[z3.MultiPattern(qk, qk2)]),
        "queues_not_none": z3.ForAll([k], z3.Implies(z3.And(0 <= k, k < nq), qk != 0), patterns=[qk]),
        "requests_registered": z3.ForAll(
            [k, i],
            z3.Implies(
                z3.And(0 <= k, k < nq, 0 <= i, i < h.c_len(ReqList, qk)),
                z3.And(el(qk, i) != 0, h.d_dom(TaskReq, m_tasks(h, m), r_task(h, el(qk, i))), h.d_val(TaskReq, m_tasks(h, m), r_task(h, el(qk, i))) == el(qk, i)),
            ),
            patterns=[el(qk, i)],
        ),
        "registrations_consistent": z3.ForAll(
            [x_], z3.Implies(h.d_dom(TaskReq, m_tasks(h, m), x_), z3.And(h.d_val(TaskReq, m_tasks(h, m), x_) != 0, r_task(h, h.d_val(TaskReq, m_tasks(h, m), x_)) == x_)), patterns=[h.d_val(TaskReq, m_tasks(h, m), x_)]
        ),
        "no_request_twice": z3.ForAll([k, i, j], z3.Implies(z3.And(0 <= k, k < nq, 0 <= i, i < j, j < h.c_len(ReqList, qk)), el(qk, i) != el(qk, j)), patterns=[z3.MultiPattern(el(qk, i), el(qk, j))]),
    }


def inv_all(h, m):
    return z3.And(*inv_model(h, m).values())


def task_nowhere(h, m, task, hq=None):
    """C15 (placed at most once): no queue holds a request of `task` and it is not registered"""
    hq = hq or h
    k, r = z3.Int(H.fresh_name("tn_k")), z3.Int(H.fresh_name("tn_r"))
    qk = queue_at(hq, m, k)
    return z3.And(
        z3.Not(h.d_dom(TaskReq, m_tasks(hq, m), task)),
        z3.ForAll([k, r], z3.Implies(z3.And(0 <= k, k < n_queues(hq, m), h.l_mem(ReqList, qk, r)), r_task(h, r) != task), patterns=[h.l_mem(ReqList, qk, r)]),
    )


Contract(
    REQ + ".__eq__",
    params={"self": ReqR, "other": ReqR},
    ret=T.BOOL,
    trusted=True,
    eq_identity=True,
    ensures=lambda c: c.res == (c.arg("self") == c.arg("other")),
    note="Model.Request.__eq__ compares the task ids; on requests that satisfy the queue invariant (a queued request is THE registered request of its task; task ids unique) this is object identity",
    props=P,
)

Contract(
    REQ + ".get_demand",
    params={"self": ReqR},
    ret=DemandT,
    trusted=True,
    ensures=lambda c: z3.BoolVal(True),
    note="Model.Request.get_demand: pure (load / execution demand of a request; only the demand counters depend on it)",
    props=P,
)


def _rt_mod(c):
    m = c.arg("self")
    out = {c.pre.carr(ReqList, "len")[0]: ANY, c.pre.carr(ReqList, "elem")[0]: ANY}
    for part in ("len", "keys", "idx", "dom", "val"):
        out[c.pre.carr(TaskReq, part)[0]] = [m_tasks(c.pre, m)]
    for f in ("_outstanding_execution_demand", "_outstanding_load_demand"):
        out[c.pre.fld_arr(MODEL, f)[0]] = [m]
    return out


def queues_shrink_only(c, h, m, request):
    """every queue keeps exactly its old requests except `request` (membership view)"""
    k, r = z3.Int(H.fresh_name("qs_k")), z3.Int(H.fresh_name("qs_r"))
    qk = queue_at(c.pre, m, k)
    return z3.ForAll(
        [k, r],
        z3.Implies(z3.And(0 <= k, k < n_queues(c.pre, m)), h.l_mem(ReqList, qk, r) == z3.And(c.pre.l_mem(ReqList, qk, r), r != request)),
        patterns=[h.l_mem(ReqList, qk, r), c.pre.l_mem(ReqList, qk, r)],
    )


def _rt_ens(c):
    m, task = c.arg("self"), c.arg("task")
    was = c.pre.d_dom(TaskReq, m_tasks(c.pre, m), task)
    request = c.pre.d_val(TaskReq, m_tasks(c.pre, m), task)
    x = z3.Int(H.fresh_name("rt_x"))
    out = {
        # C15: once removed (e.g. because it was batched), the task's request is in NO strategy queue any more
        "remove.task_in_no_queue": task_nowhere(c.post, m, task),
        "remove.other_registrations_kept": z3.ForAll(
            [x],
            z3.Implies(x != task, z3.And(c.post.d_dom(TaskReq, m_tasks(c.pre, m), x) == c.pre.d_dom(TaskReq, m_tasks(c.pre, m), x), c.post.d_val(TaskReq, m_tasks(c.pre, m), x) == c.pre.d_val(TaskReq, m_tasks(c.pre, m), x))),
            patterns=[c.post.d_dom(TaskReq, m_tasks(c.pre, m), x)],
        ),
        "remove.only_that_request_leaves": z3.Implies(was, queues_shrink_only(c, c.post, m, request)),
        "remove.unknown_task_is_noop": z3.Implies(z3.Not(was), z3.And(c.post.carr(ReqList, "len")[1] == c.pre.carr(ReqList, "len")[1], c.post.carr(ReqList, "elem")[1] == c.pre.carr(ReqList, "elem")[1])),
    }
    for nm, g in inv_model(c.post, m).items():
        out["inv." + nm + ".preserved"] = g
    return out


def _rt_loop_inv(c, L):
    m, task = c.arg("self"), c.arg("task")
    h = c.post
    request = c.pre.d_val(TaskReq, m_tasks(c.pre, m), task)
    k, r, i = z3.Int(H.fresh_name("rl_k")), z3.Int(H.fresh_name("rl_r")), z3.Int(H.fresh_name("rl_i"))
    qk = queue_at(c.pre, m, k)
    nq = n_queues(c.pre, m)
    out = {
        "done_queues_lost_it": z3.ForAll([k, r], z3.Implies(z3.And(0 <= k, k < L.i, k < nq), h.l_mem(ReqList, qk, r) == z3.And(c.pre.l_mem(ReqList, qk, r), r != request)), patterns=[h.l_mem(ReqList, qk, r), c.pre.l_mem(ReqList, qk, r)]),
        "later_queues_untouched": z3.ForAll(
            [k],
            z3.Implies(z3.And(L.i <= k, k < nq), z3.And(h.c_len(ReqList, qk) == c.pre.c_len(ReqList, qk), h.l_elems(ReqList, qk) == c.pre.l_elems(ReqList, qk))),
            patterns=[qk],
        ),
        "registrations_untouched": z3.And(*[h.carr(TaskReq, part)[1] == c.pre.carr(TaskReq, part)[1] for part in ("len", "keys", "idx", "dom", "val")]),
        "queue_map_untouched": z3.And(*[h.carr(Queues, part)[1] == c.pre.carr(Queues, part)[1] for part in ("len", "keys", "idx", "dom", "val")]),
        "request_fields_untouched": z3.And(h.fld_arr(REQ, "_task")[2] == c.pre.fld_arr(REQ, "_task")[2]),
    }
    for nm, g in inv_model(h, m).items():
        out["inv." + nm] = g
    return out


def mem_def_all_queues(h, hq, m):
    """definition of list membership (exists an index), for every queue list of the model (queues named in heap hq, contents in h)"""
    k, e, i = z3.Int(H.fresh_name("md_k")), z3.Int(H.fresh_name("md_e")), z3.Int(H.fresh_name("md_i"))
    qk = queue_at(hq, m, k)
    return Fact(
        "list.mem_def",
        z3.And(
            z3.ForAll(
                [k, e],
                h.l_mem(ReqList, qk, e) == z3.Exists([i], z3.And(0 <= i, i < h.c_len(ReqList, qk), h.l_elem(ReqList, qk, i) == e)),
                patterns=[h.l_mem(ReqList, qk, e)],
            ),
            # the same definition read from right to left: the element at a valid index is a member
            z3.ForAll([k, i], z3.Implies(z3.And(0 <= i, i < h.c_len(ReqList, qk)), h.l_mem(ReqList, qk, h.l_elem(ReqList, qk, i))), patterns=[h.l_elem(ReqList, qk, i)]),
        ),
    )


def _rt_loop_lemmas(c, L, phase):
    m = c.arg("self")
    if phase in ("start", "end"):
        return [Fact("list.mem_def", c.post.l_mem_def(ReqList, L.var("request_queue")))]
    if phase == "exit":
        return [mem_def_all_queues(c.post, c.pre, m), mem_def_all_queues(c.pre, c.pre, m)]
    return []


def _rt_loop_mod(c):
    return {c.pre.carr(ReqList, "len")[0]: ANY, c.pre.carr(ReqList, "elem")[0]: ANY}


def closed_model(c):
    """heap closedness: queue lists, requests and tasks reachable from the model were allocated before entry"""
    m = c.arg("self")
    k, i = z3.Int(H.fresh_name("cm_k")), z3.Int(H.fresh_name("cm_i"))
    qk = queue_at(c.pre, m, k)
    return Fact(
        "heap.closed",
        z3.And(
            m_queues(c.pre, m) < c.alloc0,
            m_tasks(c.pre, m) < c.alloc0,
            z3.ForAll([k], z3.Implies(z3.And(0 <= k, k < n_queues(c.pre, m)), qk < c.alloc0), patterns=[qk]),
            z3.ForAll([i], z3.Implies(c.pre.d_dom(TaskReq, m_tasks(c.pre, m), i), c.pre.d_val(TaskReq, m_tasks(c.pre, m), i) < c.alloc0), patterns=[c.pre.d_val(TaskReq, m_tasks(c.pre, m), i)]),
            z3.ForAll([k, i], z3.Implies(z3.And(0 <= k, k < n_queues(c.pre, m), 0 <= i, i < c.pre.c_len(ReqList, qk)), c.pre.l_elem(ReqList, qk, i) < c.alloc0), patterns=[c.pre.l_elem(ReqList, qk, i)]),
        ),
    )


Contract(
    MODEL + ".remove_task",
    params={"self": Model.ty, "task": S_.TASKR},
    requires=lambda c: dict(inv_model(c.pre, c.arg("self")), task_not_none=c.arg("task") != 0),
    modifies=_rt_mod,
    loops={0: Loop(inv=_rt_loop_inv, modifies=_rt_loop_mod, lemmas=_rt_loop_lemmas)},
    ensures=_rt_ens,
    entry_facts=lambda c: [closed_model(c)],
    exit_facts=lambda c: [mem_def_all_queues(c.post, c.pre, c.arg("self")), mem_def_all_queues(c.pre, c.pre, c.arg("self"))],
    props=P,
)


# =================================================================================================
# Model.get_placements: the batch handed to a worker (C15)
# =================================================================================================
PLACEMENT = "workload.placement.Placement"
PlacementList = T.List(T.Ref(PLACEMENT))
TaskList = T.List(S_.TASKR)
BATCH = "workload.strategy.BatchStrategy"
PLACE_TASK = S_.PlacementType.ty.ordinal("PLACE_TASK")

Contract(
    BATCH + ".__init__",
    params={"self": T.Ref(BATCH), "execution_strategy": S_.STRAT},
    trusted=True,
    allocates=True,
    modifies=lambda c: {c.pre.fld_arr(STRAT, f)[0]: [c.arg("self")] for f in ("_resources", "_batch_size", "_runtime", "_id", "_hash")},
    ensures=lambda c: z3.And(
        c.f(c.arg("self"), STRAT, "_batch_size") == c.pre.rd(c.arg("execution_strategy"), STRAT, "_batch_size")[1],
        c.f(c.arg("self"), STRAT, "_runtime") == c.pre.rd(c.arg("execution_strategy"), STRAT, "_runtime")[1],
    ),
    note="BatchStrategy.__init__: a fresh strategy object with the batch size and runtime of the given strategy, a copy of its resources and a fresh random id (body not verified: uuid / copy)",
    props=P,
)


def strat_queue(h, m, s):
    return h.d_val(Queues, m_queues(h, m), s)


def _gp_requires(c):
    m, s = c.arg("self"), c.arg("strategy")
    out = dict(inv_model(c.pre, m))
    out["strategy_has_a_queue"] = c.pre.d_dom(Queues, m_queues(c.pre, m), s)
    out["batch_size_positive"] = c.pre.rd(s, STRAT, "_batch_size")[1] >= 1
    return out


def _placement_parts(c, h, pl, task, B):
    return {
        "is_place_task": z3.And(pl != 0, h.rd(pl, PLACEMENT, "_placement_type")[1] == PLACE_TASK),
        "task": h.rd(pl, PLACEMENT, "_computation")[1] == task,
        "time_is_now": h.rd(pl, PLACEMENT, "_placement_time")[1] == T.opt_some(OptET, c.arg("sim_time")),
        "batch_strategy": h.rd(pl, PLACEMENT, "_strategy")[1] == B,
        "pool": h.rd(pl, PLACEMENT, "_worker_pool_id")[1] == T.opt_some(S_.OptSTR, c.arg("worker_pool_id")),
        "worker": h.rd(pl, PLACEMENT, "_worker_id")[1] == c.arg("worker_id"),
    }


def _placement_ok(c, h, pl, task, B):
    return z3.And(*_placement_parts(c, h, pl, task, B).values())


def _placements_clauses(c, h, pls, upto, head_task, B, prefix):
    out = {}
    for nm in _placement_parts(c, h, pls, 0, B):
        j = z3.Int(H.fresh_name("pc_j"))
        pj = h.l_elem(PlacementList, pls, j)
        out[prefix + "." + nm] = z3.ForAll([j], z3.Implies(z3.And(0 <= j, j < upto), _placement_parts(c, h, pj, head_task(j), B)[nm]), patterns=[pj])
    return out


def _gp_ens(c):
    m, s = c.arg("self"), c.arg("strategy")
    bs = c.pre.rd(s, STRAT, "_batch_size")[1]
    q0 = strat_queue(c.pre, m, s)
    j = z3.Int(H.fresh_name("gp_j"))
    B = c.post.rd(c.post.l_elem(PlacementList, c.res, 0), PLACEMENT, "_strategy")[1]
    head_task = lambda a: r_task(c.pre, c.pre.l_elem(ReqList, q0, a))
    out = {
        # C15: the batch has exactly the batch size of the chosen strategy ...
        "batch.size_is_strategy_batch_size": c.post.c_len(PlacementList, c.res) == bs,
        # ... its members are the first requests of THAT strategy's queue (earliest deadlines first), all placed now under one batch strategy
        **_placements_clauses(c, c.post, c.res, bs, head_task, B, "batch.members_are_head_of_chosen_queue"),
        "batch.strategy_is_fresh_copy_of_chosen": z3.And(B >= c.alloc0, c.post.rd(B, STRAT, "_batch_size")[1] == bs, c.post.rd(B, STRAT, "_runtime")[1] == c.pre.rd(s, STRAT, "_runtime")[1]),
        # C15 (placed at most once): every batched task is gone from every queue and from the registration map
        "batch.members_removed_everywhere": z3.ForAll([j], z3.Implies(z3.And(0 <= j, j < bs), task_nowhere(c.post, m, head_task(j), hq=c.pre)), patterns=[c.pre.l_elem(ReqList, q0, j)]),
    }
    for nm, g in inv_model(c.post, m).items():
        out["inv." + nm + ".preserved"] = g
    return out


def _gp_loop0_inv(c, L):
    m, s = c.arg("self"), c.arg("strategy")
    h = c.post
    q0 = strat_queue(c.pre, m, s)
    pls, ttr, B = L.var("placements"), L.var("tasks_to_remove"), L.var("batch_strategy")
    j = z3.Int(H.fresh_name("g0_j"))
    head_task = lambda a: r_task(c.pre, c.pre.l_elem(ReqList, q0, a))
    return {
        "lists_fresh": z3.And(pls >= c.alloc0, ttr >= c.alloc0, B >= c.alloc0, pls < c.run.cur_alloc(), ttr < c.run.cur_alloc(), B < c.run.cur_alloc()),
        "one_per_request": z3.And(h.c_len(PlacementList, pls) == L.i, h.c_len(TaskList, ttr) == L.i),
        **_placements_clauses(c, h, pls, L.i, head_task, B, "placements_so_far"),
        "placements_are_fresh_objects": z3.ForAll([j], z3.Implies(z3.And(0 <= j, j < L.i), z3.And(h.l_elem(PlacementList, pls, j) >= c.alloc0, h.l_elem(PlacementList, pls, j) < c.run.cur_alloc())), patterns=[h.l_elem(PlacementList, pls, j)]),
        "tasks_so_far": z3.ForAll([j], z3.Implies(z3.And(0 <= j, j < L.i), z3.And(h.l_elem(TaskList, ttr, j) == head_task(j), head_task(j) != 0)), patterns=[h.l_elem(TaskList, ttr, j)]),
        "batch_strategy_fields": z3.And(h.rd(B, STRAT, "_batch_size")[1] == c.pre.rd(s, STRAT, "_batch_size")[1], h.rd(B, STRAT, "_runtime")[1] == c.pre.rd(s, STRAT, "_runtime")[1]),
        "model_untouched": z3.And(
            h.carr(ReqList, "len")[1] == L.head.carr(ReqList, "len")[1],
            h.carr(ReqList, "elem")[1] == L.head.carr(ReqList, "elem")[1],
            *[h.carr(TaskReq, part)[1] == c.pre.carr(TaskReq, part)[1] for part in ("len", "keys", "idx", "dom", "val")],
        ),
    }


def _gp_loop0_mod(c):
    fr = c.run.frames[-1].env
    pls, ttr = fr.get("placements"), fr.get("tasks_to_remove")
    out = {c.pre.carr(PlacementList, "len")[0]: [pls.z], c.pre.carr(PlacementList, "elem")[0]: [pls.z], c.pre.carr(TaskList, "len")[0]: [ttr.z], c.pre.carr(TaskList, "elem")[0]: [ttr.z]}
    for f in ("_placement_type", "_computation", "_placement_time", "_worker_pool_id", "_worker_id", "_strategy", "_id"):
        out[c.pre.fld_arr(PLACEMENT, f)[0]] = []
    return out


def _gp_loop1_inv(c, L):
    m, s = c.arg("self"), c.arg("strategy")
    h = c.post
    q0 = strat_queue(c.pre, m, s)
    bs = c.pre.rd(s, STRAT, "_batch_size")[1]
    pls, ttr, B = L.var("placements"), L.var("tasks_to_remove"), L.var("batch_strategy")
    j = z3.Int(H.fresh_name("g1_j"))
    head_task = lambda a: r_task(c.pre, c.pre.l_elem(ReqList, q0, a))
    out = {
        "lists_fresh": z3.And(pls >= c.alloc0, ttr >= c.alloc0, B >= c.alloc0),
        "batch_complete": z3.And(h.c_len(PlacementList, pls) == bs, h.c_len(TaskList, ttr) == bs),
        **_placements_clauses(c, h, pls, bs, head_task, B, "placements_done"),
        "tasks_listed": z3.ForAll([j], z3.Implies(z3.And(0 <= j, j < bs), z3.And(h.l_elem(TaskList, ttr, j) == head_task(j), head_task(j) != 0)), patterns=[h.l_elem(TaskList, ttr, j)]),
        "batch_strategy_fields": z3.And(h.rd(B, STRAT, "_batch_size")[1] == bs, h.rd(B, STRAT, "_runtime")[1] == c.pre.rd(s, STRAT, "_runtime")[1]),
        "removed_so_far": z3.ForAll([j], z3.Implies(z3.And(0 <= j, j < L.i, j < bs), task_nowhere(h, m, head_task(j), hq=c.pre)), patterns=[c.pre.l_elem(ReqList, q0, j)]),
        "queue_map_untouched": z3.And(*[h.carr(Queues, part)[1] == c.pre.carr(Queues, part)[1] for part in ("len", "keys", "idx", "dom", "val")]),
        "request_tasks_untouched": h.fld_arr(REQ, "_task")[2] == c.pre.fld_arr(REQ, "_task")[2],
        "model_fields": z3.And(m_tasks(h, m) == m_tasks(c.pre, m), m_queues(h, m) == m_queues(c.pre, m)),
    }
    for nm, g in inv_model(h, m).items():
        out["inv." + nm] = g
    return out


def _gp_loop1_mod(c):
    return _rt_mod(c)


Contract(
    MODEL + ".get_placements",
    params={"self": Model.ty, "sim_time": ETy, "strategy": S_.STRAT, "worker_pool_id": T.STR, "worker_id": S_.OptSTR},
    ret=PlacementList,
    requires=_gp_requires,
    raises={"RuntimeError": lambda c: c.pre.c_len(ReqList, strat_queue(c.pre, c.arg("self"), c.arg("strategy"))) < c.pre.rd(c.arg("strategy"), STRAT, "_batch_size")[1]},
    modifies=lambda c: dict(_rt_mod(c)),
    loops={0: Loop(inv=_gp_loop0_inv, modifies=_gp_loop0_mod), 1: Loop(inv=_gp_loop1_inv, modifies=_gp_loop1_mod)},
    locals={"placements": PlacementList, "tasks_to_remove": TaskList},
    drops=("self._last_used_at_worker[worker_id] = sim_time",),
    ensures=_gp_ens,
    entry_facts=lambda c: [closed_model(c)],
    allocates=True,
    note="dropped: the bookkeeping write `_last_used_at_worker[worker_id] = sim_time` (a defaultdict keyed by an optional worker id; not part of the property)",
    props=P,
)


# =================================================================================================
# Model.add_task: a request enters every strategy queue exactly once (C15: no duplicates)
# =================================================================================================
PROFILE = "workload.profile.WorkProfile"

Contract(
    REQ + ".__init__",
    params={"self": ReqR, "task": S_.TASKR, "num_strategies": T.INT},
    trusted=True,
    may_raise=("AttributeError",),
    modifies=lambda c: {c.pre.fld_arr(REQ, f)[0]: [c.arg("self")] for f in ("_task", "_num_strategies", "_execution_slo", "_loadweights_slo")},
    ensures=lambda c: z3.And(c.f(c.arg("self"), REQ, "_task") == c.arg("task"), c.f(c.arg("self"), REQ, "_num_strategies") == c.arg("num_strategies")),
    note="Model.Request.__init__: records the task and the number of strategy queues; the SLO fields (max over EventTime differences) are left unconstrained; AttributeError when the profile has no strategy",
    props=P,
)


def _insort_ens(c):
    a, x = c.arg("a"), c.arg("x")
    n = c.pre.c_len(ReqList, a)
    p, j, e = z3.Int(H.fresh_name("is_p")), z3.Int(H.fresh_name("is_j")), z3.Int(H.fresh_name("is_e"))
    old = lambda i: c.pre.l_elem(ReqList, a, i)
    new = lambda i: c.post.l_elem(ReqList, a, i)
    return z3.And(
        c.post.c_len(ReqList, a) == n + 1,
        z3.Exists(
            [p],
            z3.And(
                0 <= p,
                p <= n,
                new(p) == x,
                z3.ForAll([j], z3.And(z3.Implies(z3.And(0 <= j, j < p), new(j) == old(j)), z3.Implies(z3.And(p < j, j <= n), new(j) == old(j - 1))), patterns=[new(j)]),
            ),
        ),
        z3.ForAll([e], c.post.l_mem(ReqList, a, e) == z3.Or(c.pre.l_mem(ReqList, a, e), e == x), patterns=[c.post.l_mem(ReqList, a, e), c.pre.l_mem(ReqList, a, e)]),
    )


Contract(
    "bisect.insort",
    params={"a": ReqList, "x": ReqR},
    trusted=True,
    modifies=lambda c: {c.pre.carr(ReqList, "len")[0]: [c.arg("a")], c.pre.carr(ReqList, "elem")[0]: [c.arg("a")]},
    ensures=_insort_ens,
    note="bisect.insort(a, x): x is inserted at some position, the other elements keep their relative order (the position - after the last element not greater than x - is not modelled: the queue order by deadline is decided by the bounded sched_small stand-in)",
    props=P,
)


def _at_requires(c):
    out = dict(inv_model(c.pre, c.arg("self")))
    out["task_not_none"] = c.arg("task") != 0
    return out


def _at_raises(c):
    m, task = c.arg("self"), c.arg("task")
    pid = lambda p_: c.pre.rd(p_, PROFILE, "_id")[1]
    return pid(c.pre.rd(task, TASK, "_profile")[1]) != pid(c.pre.rd(m, MODEL, "_profile")[1])


def _at_mod(c):
    out = _rt_mod(c)
    return out


def _at_ens(c):
    m, task = c.arg("self"), c.arg("task")
    was = c.pre.d_dom(TaskReq, m_tasks(c.pre, m), task)
    R = c.post.d_val(TaskReq, m_tasks(c.pre, m), task)
    k, r, x = z3.Int(H.fresh_name("ae_k")), z3.Int(H.fresh_name("ae_r")), z3.Int(H.fresh_name("ae_x"))
    qk = queue_at(c.pre, m, k)
    out = {
        "add.registered": z3.And(c.post.d_dom(TaskReq, m_tasks(c.pre, m), task), R != 0, r_task(c.post, R) == task),
        # C15 (placed at most once): offering a task that is already queued changes nothing
        "add.idempotent": z3.Implies(
            was,
            z3.And(
                c.post.carr(ReqList, "len")[1] == c.pre.carr(ReqList, "len")[1],
                c.post.carr(ReqList, "elem")[1] == c.pre.carr(ReqList, "elem")[1],
                *[c.post.carr(TaskReq, part)[1] == c.pre.carr(TaskReq, part)[1] for part in ("len", "keys", "idx", "dom", "val")],
            ),
        ),
        "add.new_request_enters_every_queue_once": z3.Implies(
            z3.Not(was),
            z3.And(
                R >= c.alloc0,
                z3.ForAll([k, r], z3.Implies(z3.And(0 <= k, k < n_queues(c.pre, m)), c.post.l_mem(ReqList, qk, r) == z3.Or(c.pre.l_mem(ReqList, qk, r), r == R)), patterns=[c.post.l_mem(ReqList, qk, r), c.pre.l_mem(ReqList, qk, r)]),
            ),
        ),
        "add.other_registrations_kept": z3.ForAll(
            [x],
            z3.Implies(x != task, z3.And(c.post.d_dom(TaskReq, m_tasks(c.pre, m), x) == c.pre.d_dom(TaskReq, m_tasks(c.pre, m), x), c.post.d_val(TaskReq, m_tasks(c.pre, m), x) == c.pre.d_val(TaskReq, m_tasks(c.pre, m), x))),
            patterns=[c.post.d_dom(TaskReq, m_tasks(c.pre, m), x)],
        ),
    }
    for nm, g in inv_model(c.post, m).items():
        out["inv." + nm + ".preserved"] = g
    return out


def _at_loop_inv(c, L):
    m, task = c.arg("self"), c.arg("task")
    h = c.post
    R = L.var("request")
    k, r, x = z3.Int(H.fresh_name("al_k")), z3.Int(H.fresh_name("al_r")), z3.Int(H.fresh_name("al_x"))
    qk = queue_at(c.pre, m, k)
    nq = n_queues(c.pre, m)
    out = {
        "request_is_fresh": z3.And(R >= c.alloc0, R < c.run.cur_alloc(), r_task(h, R) == task),
        "registered_before_queued": z3.And(h.d_dom(TaskReq, m_tasks(c.pre, m), task), h.d_val(TaskReq, m_tasks(c.pre, m), task) == R),
        "other_registrations": z3.ForAll(
            [x],
            z3.Implies(x != task, z3.And(h.d_dom(TaskReq, m_tasks(c.pre, m), x) == c.pre.d_dom(TaskReq, m_tasks(c.pre, m), x), h.d_val(TaskReq, m_tasks(c.pre, m), x) == c.pre.d_val(TaskReq, m_tasks(c.pre, m), x))),
            patterns=[h.d_dom(TaskReq, m_tasks(c.pre, m), x), h.d_val(TaskReq, m_tasks(c.pre, m), x)],
        ),
        "done_queues_gained_it": z3.ForAll([k, r], z3.Implies(z3.And(0 <= k, k < L.i, k < nq), h.l_mem(ReqList, qk, r) == z3.Or(c.pre.l_mem(ReqList, qk, r), r == R)), patterns=[h.l_mem(ReqList, qk, r), c.pre.l_mem(ReqList, qk, r)]),
        "later_queues_untouched": z3.ForAll([k], z3.Implies(z3.And(L.i <= k, k < nq), z3.And(h.c_len(ReqList, qk) == c.pre.c_len(ReqList, qk), h.l_elems(ReqList, qk) == c.pre.l_elems(ReqList, qk))), patterns=[qk]),
        "queue_map_untouched": z3.And(*[h.carr(Queues, part)[1] == c.pre.carr(Queues, part)[1] for part in ("len", "keys", "idx", "dom", "val")]),
        "old_request_tasks_untouched": z3.ForAll([x], z3.Implies(z3.And(0 < x, x < c.alloc0), r_task(h, x) == r_task(c.pre, x)), patterns=[r_task(h, x)]),
        "model_fields": z3.And(m_tasks(h, m) == m_tasks(c.pre, m), m_queues(h, m) == m_queues(c.pre, m)),
    }
    inv = inv_model(h, m)
    for nm in ("queues_distinct", "queues_not_none", "no_request_twice", "registrations_consistent"):
        out["inv." + nm] = inv[nm]
    # registration of queued requests, for the queues already extended and for the untouched ones
    out["inv.requests_registered"] = inv["requests_registered"]
    return out


def _at_loop_lemmas(c, L, phase):
    m = c.arg("self")
    if phase in ("start", "end"):
        return [Fact("list.mem_def", c.post.l_mem_def(ReqList, L.var("request_queue"))), mem_def_all_queues(c.pre, c.pre, m)]
    if phase == "exit":
        return [mem_def_all_queues(c.post, c.pre, m), mem_def_all_queues(c.pre, c.pre, m)]
    return []


Contract(
    MODEL + ".add_task",
    params={"self": Model.ty, "task": S_.TASKR},
    requires=_at_requires,
    raises={"ValueError": _at_raises},
    may_raise=("AttributeError",),
    modifies=lambda c: dict(_rt_mod(c), **{c.pre.fld_arr(REQ, f)[0]: [] for f in ("_task", "_num_strategies", "_execution_slo", "_loadweights_slo")}),
    loops={0: Loop(inv=_at_loop_inv, modifies=_rt_loop_mod, lemmas=_at_loop_lemmas)},
    ensures=_at_ens,
    entry_facts=lambda c: [closed_model(c)],
    exit_facts=lambda c: [mem_def_all_queues(c.post, c.pre, c.arg("self")), mem_def_all_queues(c.pre, c.pre, c.arg("self"))],
    allocates=True,
    props=P,
)


# =================================================================================================
# ClockworkScheduler.run_admission : requests that can no longer meet their deadline are cancelled, never queued (C12 / C15)
# =================================================================================================
from contracts.c_sched import BASE, hopeless, PlacementList as _PL  # noqa: E402

CW = "schedulers.clockwork_scheduler.ClockworkScheduler"
MODELS = "schedulers.clockwork_scheduler.Models"
Models = declare_ref(MODELS, {"_models": T.OPAQUE})
Clockwork = declare_ref(CW, {"_goal": T.OPAQUE, "_run_load": T.BOOL, "_models": T.Ref(MODELS)}, bases=[BASE])
CANCEL_TASK = S_.PlacementType.ty.ordinal("CANCEL_TASK")

Contract(
    MODELS + ".add_task",
    params={"self": T.Ref(MODELS), "task": S_.TASKR},
    trusted=True,
    allocates=True,
    may_raise=("ValueError", "AttributeError"),
    modifies=lambda c: {},
    ensures=lambda c: z3.BoolVal(True),
    note="Models.add_task: files the task with the Model of its profile (Model.add_task is verified); touches no Task / Placement field and none of the caller's lists",
    props=("C12", "C15"),
)


def _ra_inv(c, L):
    h = c.post
    pls = L.var("placements")
    tasks = c.arg("tasks_to_schedule")
    now = c.arg("current_time")
    j, i = z3.Int(H.fresh_name("ra_j")), z3.Int(H.fresh_name("ra_i"))
    pj = h.l_elem(_PL, pls, j)
    task_of = lambda p_: h.rd(p_, PLACEMENT, "_computation")[1]
    return {
        "list_fresh": z3.And(pls >= c.alloc0, pls < c.run.cur_alloc()),
        # every decision collected so far is a cancellation of a hopeless task
        **{
            "only_hopeless_cancelled." + nm: z3.ForAll([j], z3.Implies(z3.And(0 <= j, j < h.c_len(_PL, pls)), g), patterns=[pj])
            for nm, g in {
                "allocated_here": z3.And(pj != 0, pj >= c.alloc0, pj < c.run.cur_alloc()),
                "is_cancellation": h.rd(pj, PLACEMENT, "_placement_type")[1] == CANCEL_TASK,
                "enforcing": c.pre.rd(c.arg("self"), BASE, "_enforce_deadlines")[1],
                "task_is_hopeless": hopeless(h, task_of(pj), now),
            }.items()
        },
        "task_fields_untouched": z3.And(h.fld_arr(TASK, "_deadline")[2] == c.pre.fld_arr(TASK, "_deadline")[2], h.fld_arr(TASK, "_profile")[2] == c.pre.fld_arr(TASK, "_profile")[2]),
    }


def _ra_mod(c):
    fr = c.run.frames[-1].env
    pls = fr.get("placements")
    out = {c.pre.carr(_PL, "len")[0]: [pls.z], c.pre.carr(_PL, "elem")[0]: [pls.z]}
    for f in ("_placement_type", "_computation", "_placement_time", "_worker_pool_id", "_worker_id", "_strategy", "_id"):
        out[c.pre.fld_arr(PLACEMENT, f)[0]] = []
    return out


def _ra_at_cancel(c, L):
    return {"admit.cancel_only_if_hopeless": z3.And(c.pre.rd(c.arg("self"), BASE, "_enforce_deadlines")[1], hopeless(c.post, L.var("task"), c.arg("current_time")))}


def _ra_at_queue(c, L):
    return {"admit.hopeless_is_never_queued": z3.Not(z3.And(c.pre.rd(c.arg("self"), BASE, "_enforce_deadlines")[1], hopeless(c.post, L.var("task"), c.arg("current_time"))))}


Contract(
    CW + ".run_admission",
    params={"self": T.Ref(CW), "current_time": ETy, "tasks_to_schedule": TaskList},
    ret=_PL,
    requires=lambda c: {
        "tasks_not_none": z3.ForAll(
            [z3.Int("rq_i")],
            z3.Implies(z3.And(0 <= z3.Int("rq_i"), z3.Int("rq_i") < c.pre.c_len(TaskList, c.arg("tasks_to_schedule"))), c.pre.l_elem(TaskList, c.arg("tasks_to_schedule"), z3.Int("rq_i")) != 0),
            patterns=[c.pre.l_elem(TaskList, c.arg("tasks_to_schedule"), z3.Int("rq_i"))],
        ),
        "models_present": c.pre.rd(c.arg("self"), CW, "_models")[1] != 0,
    },
    may_raise=("AttributeError", "ValueError"),
    raise_unchanged=False,
    modifies=lambda c: {},
    loops={0: Loop(inv=_ra_inv, modifies=_ra_mod)},
    locals={"placements": _PL},
    at={"placements.append(Placement.create_task_cancellation(": _ra_at_cancel, "self._models.add_task(task)": _ra_at_queue},
    ensures=lambda c: {
        "admission.only_hopeless_tasks_cancelled": z3.ForAll(
            [z3.Int("re_j")],
            z3.Implies(
                z3.And(0 <= z3.Int("re_j"), z3.Int("re_j") < c.post.c_len(_PL, c.res)),
                z3.And(
                    c.post.rd(c.post.l_elem(_PL, c.res, z3.Int("re_j")), PLACEMENT, "_placement_type")[1] == CANCEL_TASK,
                    hopeless(c.post, c.post.rd(c.post.l_elem(_PL, c.res, z3.Int("re_j")), PLACEMENT, "_computation")[1], c.arg("current_time")),
                ),
            ),
            patterns=[c.post.l_elem(_PL, c.res, z3.Int("re_j"))],
        ),
    },
    allocates=True,
    note="C12 for Clockwork: a request is answered with a cancellation iff enforcement is on and its deadline < now + runtime of its fastest strategy (program-point obligations admit.*), and only such requests appear in the returned list; every other request goes to its model's queues (Models.add_task assumed, Model.add_task verified)",
    props=("C12", "C15"),
)
