"""Prefix-sum spec functions and their induction lemmas (DESIGN 3.6).

S(K, V, r, n)  = sum_{j<n} [matches(K[j], r)] * V[K[j]]     (over the key order of a Resource->int dict)
Hs(E, k, n)    = sum_{j<n} [E[j].key == k] * E[j].qty       (over an allocation list, exact key)
Hm(E, r, n)    = sum_{j<n} [matches(E[j].key, r)] * E[j].qty

Each is an uninterpreted function with its two defining axioms, instantiated per (array, parameter)
where used. The facts z3 cannot find (frame / one-point update) are lemmas proved ONCE here by an
explicit induction step (base + step are ordinary obligations of property C04) and then used as
instances via `use_*`. Trusted: the induction principle itself.
"""
import z3

from pyvc import ty as T
from pyvc import heap as H
from contracts import shapes as S_

RES = S_.RES
RS = T.sort(RES)
ENT = T.Tup(RES, T.INT)
ES = T.sort(ENT)
I = z3.IntSort()

ANY_ID = z3.IntVal(T.str_code("any"))


def r_name(r):
    return T.val_field(RES, r, "_name")


def r_id(r):
    return T.val_field(RES, r, "_id")


def matches(a, b):
    """Resource.__eq__ (verified against this spec): same name and (either id is 'any' or ids equal)."""
    return z3.And(r_name(a) == r_name(b), z3.Or(r_id(a) == ANY_ID, r_id(b) == ANY_ID, r_id(a) == r_id(b)))


S = z3.Function("S_avail", z3.ArraySort(I, RS), z3.ArraySort(RS, I), RS, I, I)
Hs = z3.Function("H_exact", z3.ArraySort(I, ES), RS, I, I)
Hm = z3.Function("H_match", z3.ArraySort(I, ES), RS, I, I)


def term_S(K, V, r, j):
    return z3.If(matches(z3.Select(K, j), r), z3.Select(V, z3.Select(K, j)), 0)


def e_key(e):
    return T.tup_get(ENT, e, 0)


def e_qty(e):
    return T.tup_get(ENT, e, 1)


def term_Hs(E, k, j):
    return z3.If(e_key(z3.Select(E, j)) == k, e_qty(z3.Select(E, j)), 0)


def term_Hm(E, r, j):
    return z3.If(matches(e_key(z3.Select(E, j)), r), e_qty(z3.Select(E, j)), 0)


def ax_S(K, V, r):
    j = z3.Int(H.fresh_name("axS_j"))
    return [S(K, V, r, 0) == 0, z3.ForAll([j], z3.Implies(j >= 0, S(K, V, r, j + 1) == S(K, V, r, j) + term_S(K, V, r, j)), patterns=[S(K, V, r, j)])]


def ax_S_at(K, V, r, j):
    """single unfolding (cheaper than the quantified axiom)"""
    return z3.Implies(j >= 0, S(K, V, r, j + 1) == S(K, V, r, j) + term_S(K, V, r, j))


def ax_Hs(E, k):
    j = z3.Int(H.fresh_name("axH_j"))
    return [Hs(E, k, 0) == 0, z3.ForAll([j], z3.Implies(j >= 0, Hs(E, k, j + 1) == Hs(E, k, j) + term_Hs(E, k, j)), patterns=[Hs(E, k, j)])]


def ax_Hs_at(E, k, j):
    return z3.Implies(j >= 0, Hs(E, k, j + 1) == Hs(E, k, j) + term_Hs(E, k, j))


def ax_Hm_at(E, r, j):
    return z3.Implies(j >= 0, Hm(E, r, j + 1) == Hm(E, r, j) + term_Hm(E, r, j))


# ---- lemma statements (instances) --------------------------------------------------------------
def lem_S_frame(K, V, V2, r, n):
    """terms equal below n  =>  equal partial sums"""
    j = z3.Int(H.fresh_name("lf_j"))
    return z3.Implies(z3.And(n >= 0, z3.ForAll([j], z3.Implies(z3.And(0 <= j, j < n), term_S(K, V2, r, j) == term_S(K, V, r, j)))), S(K, V2, r, n) == S(K, V, r, n))


def lem_S_point(K, V, V2, r, n, p):
    """terms equal below n except at p  =>  sums differ by the difference at p"""
    j = z3.Int(H.fresh_name("lp_j"))
    return z3.Implies(
        z3.And(0 <= p, p < n, z3.ForAll([j], z3.Implies(z3.And(0 <= j, j < n, j != p), term_S(K, V2, r, j) == term_S(K, V, r, j)))),
        S(K, V2, r, n) == S(K, V, r, n) - term_S(K, V, r, p) + term_S(K, V2, r, p),
    )


def lem_Hs_frame(E, E2, k, n):
    j = z3.Int(H.fresh_name("lh_j"))
    return z3.Implies(z3.And(n >= 0, z3.ForAll([j], z3.Implies(z3.And(0 <= j, j < n), z3.Select(E2, j) == z3.Select(E, j)))), Hs(E2, k, n) == Hs(E, k, n))


def lem_S_nonneg(K, V, r, n):
    j = z3.Int(H.fresh_name("ln_j"))
    return z3.Implies(z3.And(n >= 0, z3.ForAll([j], z3.Implies(z3.And(0 <= j, j < n), z3.Select(V, z3.Select(K, j)) >= 0))), S(K, V, r, n) >= 0)


def lem_S_monotone(K, V, r, n, m):
    """prefix sums of non-negative terms are monotone: n <= m => S(n) <= S(m)   (proved by induction on m)"""
    j = z3.Int(H.fresh_name("lm_j"))
    return z3.Implies(z3.And(0 <= n, n <= m, z3.ForAll([j], z3.Implies(z3.And(0 <= j, j < m), z3.Select(V, z3.Select(K, j)) >= 0))), S(K, V, r, n) <= S(K, V, r, m))


def lem_S_zero(K, V, r, n):
    j = z3.Int(H.fresh_name("lz_j"))
    return z3.Implies(z3.And(n >= 0, z3.ForAll([j], z3.Implies(z3.And(0 <= j, j < n), term_S(K, V, r, j) == 0))), S(K, V, r, n) == 0)


def lem_Hs_nonneg(E, k, n):
    j = z3.Int(H.fresh_name("lhn_j"))
    return z3.Implies(z3.And(n >= 0, z3.ForAll([j], z3.Implies(z3.And(0 <= j, j < n), e_qty(z3.Select(E, j)) >= 0))), Hs(E, k, n) >= 0)


# ---- their proofs: induction steps as obligations ----------------------------------------------------
def induction_obligations():
    K = z3.Const("K", z3.ArraySort(I, RS))
    V = z3.Const("V", z3.ArraySort(RS, I))
    V2 = z3.Const("V2", z3.ArraySort(RS, I))
    r = z3.Const("r", RS)
    E = z3.Const("E", z3.ArraySort(I, ES))
    E2 = z3.Const("E2", z3.ArraySort(I, ES))
    k = z3.Const("k", RS)
    n, p, m = z3.Ints("n p m")
    out = []
    axs = ax_S(K, V, r) + ax_S(K, V2, r)
    # S frame
    out.append(("sum.S.frame.base", axs, z3.substitute(lem_S_frame(K, V, V2, r, n), (n, z3.IntVal(0)))))
    out.append(("sum.S.frame.step", axs + [n >= 0, lem_S_frame(K, V, V2, r, n)], z3.substitute(lem_S_frame(K, V, V2, r, m), (m, n + 1))))
    # S point (uses frame at n as a proved fact)
    out.append(("sum.S.point.base", axs, z3.substitute(lem_S_point(K, V, V2, r, n, p), (n, z3.IntVal(0)))))
    out.append(("sum.S.point.step", axs + [n >= 0, lem_S_point(K, V, V2, r, n, p), lem_S_frame(K, V, V2, r, n)], z3.substitute(lem_S_point(K, V, V2, r, m, p), (m, n + 1))))
    # S non-negative
    out.append(("sum.S.nonneg.base", axs, z3.substitute(lem_S_nonneg(K, V, r, n), (n, z3.IntVal(0)))))
    out.append(("sum.S.nonneg.step", axs + [n >= 0, lem_S_nonneg(K, V, r, n)], z3.substitute(lem_S_nonneg(K, V, r, m), (m, n + 1))))
    # S monotone in the upper index (induction on m, n fixed)
    out.append(("sum.S.monotone.base", axs + [n >= 0], z3.substitute(lem_S_monotone(K, V, r, n, m), (m, n))))
    mm = z3.Int("mm")
    out.append(("sum.S.monotone.step", axs + [n >= 0, m >= n, lem_S_monotone(K, V, r, n, m)], z3.substitute(lem_S_monotone(K, V, r, n, mm), (mm, m + 1))))
    out.append(("sum.S.zero.base", axs, z3.substitute(lem_S_zero(K, V, r, n), (n, z3.IntVal(0)))))
    out.append(("sum.S.zero.step", axs + [n >= 0, lem_S_zero(K, V, r, n)], z3.substitute(lem_S_zero(K, V, r, m), (m, n + 1))))
    # Hs frame
    axh = ax_Hs(E, k) + ax_Hs(E2, k)
    out.append(("sum.H.nonneg.base", axh, z3.substitute(lem_Hs_nonneg(E, k, n), (n, z3.IntVal(0)))))
    out.append(("sum.H.nonneg.step", axh + [n >= 0, lem_Hs_nonneg(E, k, n)], z3.substitute(lem_Hs_nonneg(E, k, m), (m, n + 1))))
    out.append(("sum.H.frame.base", axh, z3.substitute(lem_Hs_frame(E, E2, k, n), (n, z3.IntVal(0)))))
    out.append(("sum.H.frame.step", axh + [n >= 0, lem_Hs_frame(E, E2, k, n)], z3.substitute(lem_Hs_frame(E, E2, k, m), (m, n + 1))))
    return out
