"""C04 / C01 contracts on workers.workers.Worker (ledger view of a worker) and WorkerPool."""
import z3

from pyvc import ty as T
from pyvc import heap as H
from pyvc.engine import Fact, Step
from pyvc.registry import ANY, CLASSES, Contract, Loop, lemma, scan, assumption, observation
from contracts import shapes as S_
from contracts import sums as Σ
from contracts.c_utils import ETy, us, OptET as OptET_
from contracts.c_resources import demands_something, wf_resources, fits, disjoint_request, nonneg_vals, rv, am, RV, AM, AL, avail_sum, closed_alloc_map, RESOURCES, K, V, N, held, F
from contracts.sums import S, RS, matches

WORKER = "workers.workers.Worker"
STRAT = "workload.strategy.ExecutionStrategy"
BATCH = "workload.strategy.BatchStrategy"
TASK = "workload.tasks.Task"
PT, PB, BT, PF, TS = S_.PlacedTasks, S_.PlacedBatches, S_.BatchTasks, S_.Profiles, S_.TaskSet
P04 = ("C04", "C01")


def wres(h, w):
    return h.rd(w, WORKER, "_resources")[1]


def wpt(h, w):
    return h.rd(w, WORKER, "_placed_tasks")[1]


def wpb(h, w):
    return h.rd(w, WORKER, "_placed_batches")[1]


def wbt(h, w):
    return h.rd(w, WORKER, "_batch_tasks_for_strategy")[1]


def wap(h, w):
    return h.rd(w, WORKER, "_available_profiles")[1]


def wpp(h, w):
    return h.rd(w, WORKER, "_pending_profiles")[1]


def is_batch(h, s):
    return z3.And(s != 0, h.cls_tag(s) == CLASSES[BATCH].code)


def sres(h, s):
    return h.rd(s, STRAT, "_resources")[1]


def wf_worker_parts(h, w):
    """Ledger invariant WF_W of a worker, as named parts (DESIGN C04)."""
    R = wres(h, w)
    pt, pb, bt, ap, pp = wpt(h, w), wpb(h, w), wbt(h, w), wap(h, w), wpp(h, w)
    m = am(h, R)
    t = z3.Int(H.fresh_name("ww_t"))
    b = z3.Int(H.fresh_name("ww_b"))
    b2 = z3.Int(H.fresh_name("ww_b2"))
    p = z3.Int(H.fresh_name("ww_p"))
    x = z3.Int(H.fresh_name("ww_x"))
    ptd = lambda k: h.d_dom(PT, pt, k)
    ptv = lambda k: h.d_val(PT, pt, k)
    pbd = lambda k: h.d_dom(PB, pb, k)
    pbv = lambda k: h.d_val(PB, pb, k)
    btd = lambda k: h.d_dom(BT, bt, k)
    btv = lambda k: h.d_val(BT, bt, k)
    amd = lambda k: h.d_dom(AM, m, k)
    member = lambda s_, k: h.d_dom(TS, s_, k)
    return {
        "resources": wf_resources(h, R),
        "profiles_distinct": ap != pp,
        # a resident task has a strategy; a batch member belongs to a registered batch. (A non-batch task holds an
        # allocation only if its strategy demands something: allocate_multiple of an empty request records nothing.)
        "resident": z3.ForAll(
            [t],
            z3.Implies(ptd(t), z3.And(t != 0, h.cls_tag(t) == CLASSES[TASK].code, ptv(t) != 0, z3.Implies(is_batch(h, ptv(t)), z3.And(pbd(ptv(t)), member(pbv(ptv(t)), t))))),
            patterns=[ptd(t)],
        ),
        # a registered batch has at least one member, at most batch_size, and its placeholder task holds the allocation
        "batch": z3.ForAll(
            [b],
            z3.Implies(
                pbd(b),
                z3.And(is_batch(h, b), pbv(b) > 0, h.c_len(TS, pbv(b)) >= 1, h.c_len(TS, pbv(b)) <= h.rd(b, STRAT, "_batch_size")[1], btd(b), btv(b) != 0, h.cls_tag(btv(b)) == CLASSES[TASK].code, amd(btv(b)), z3.Not(ptd(btv(b)))),
            ),
            patterns=[pbd(b)],
        ),
        "batch_members_resident": z3.ForAll([b, t], z3.Implies(z3.And(pbd(b), member(pbv(b), t)), z3.And(ptd(t), ptv(t) == b)), patterns=[member(pbv(b), t)]),
        "batches_distinct": z3.ForAll([b, b2], z3.Implies(z3.And(pbd(b), pbd(b2), b != b2), z3.And(pbv(b) != pbv(b2), btv(b) != btv(b2))), patterns=[z3.MultiPattern(pbd(b), pbd(b2))]),
        "batch_tasks_registered": z3.ForAll([b], z3.Implies(btd(b), pbd(b)), patterns=[btd(b)]),
        "profiles_hold": z3.ForAll(
            [p],
            z3.And(
                z3.Implies(z3.Or(h.d_dom(PF, ap, p), h.d_dom(PF, pp, p)), z3.And(z3.Not(ptd(p)), h.cls_tag(p) == CLASSES["workload.profile.WorkProfile"].code)),
                z3.Not(z3.And(h.d_dom(PF, ap, p), h.d_dom(PF, pp, p))),
            ),
            patterns=[h.d_dom(PF, ap, p), h.d_dom(PF, pp, p)],
        ),
        # nothing is held by a computation that is not resident ("held exactly while resident")
        "no_orphans": z3.ForAll(
            [x],
            z3.Implies(
                amd(x),
                z3.Or(z3.And(ptd(x), z3.Not(is_batch(h, ptv(x)))), z3.Exists([b], z3.And(pbd(b), btv(b) == x)), h.d_dom(PF, ap, x), h.d_dom(PF, pp, x)),
            ),
            patterns=[amd(x)],
        ),
    }


def wf_worker(h, w):
    return z3.And(*wf_worker_parts(h, w).values())


def request_ok(h, w, s):
    """call-site conditions on a strategy's request vector (distinct object, non-negative, Pre_disjoint)"""
    R = wres(h, w)
    q = sres(h, s)
    return z3.And(q != R, q != 0, rv(h, q) != rv(h, R), nonneg_vals(h, rv(h, q)), disjoint_request(h, R, q), demands_something(h, q))


Contract("workload.strategy.ExecutionStrategy.__hash__", inline=True, props=P04)

def worker_fits(h, w, s):
    """a worker accepts a strategy iff its free resources cover the request, or the strategy is a batch already open on it"""
    return z3.Or(fits(h, wres(h, w), h, sres(h, s)), z3.And(is_batch(h, s), h.d_dom(PB, wpb(h, w), s)))


Contract(
    "workers.workers.Worker.can_accomodate_strategy",
    params={"self": S_.Worker.ty, "strategy": S_.STRAT},
    ret=T.BOOL,
    ensures=lambda c: {"can_accomodate.iff": c.res == worker_fits(c.pre, c.arg("self"), c.arg("strategy"))},
    props=P04 + ("C13", "C10"),
)

_TASK_FIELDS = [f for f in S_.Task.fields if f != "_logger"]


def _n_strategies(h, prof):
    strategies = h.rd(prof, "workload.profile.WorkProfile", "_execution_strategies")[1]
    return h.c_len(T.List(S_.STRAT), h.rd(strategies, "workload.strategy.ExecutionStrategies", "_strategies")[1])

Contract(
    "workload.tasks.Task.__init__",
    params={
        "self": S_.Task.ty,
        "name": T.STR,
        "task_graph": T.STR,
        "job": T.Ref("workload.jobs.Job"),
        "deadline": ETy,
        "profile": S_.nullable("workload.profile.WorkProfile"),
        "timestamp": S_.OptINT,
        "release_time": ETy,
        "start_time": ETy,
        "completion_time": ETy,
        "probability": T.Opt(T.REAL),
    },
    drops=("self._id = uuid.UUID(", "self._hash = hash(", "self._last_step_time = -1", "self._preemptions = []"),
    raises={"RuntimeError": lambda c: z3.And(us(c.arg("completion_time")) != -1, c.arg("profile") != 0, _n_strategies(c.pre, c.arg("profile")) != 1)},
    modifies=lambda c: {c.pre.fld_arr(TASK, f)[0]: [c.arg("self")] for f in _TASK_FIELDS},
    ensures=lambda c: {
        "init.virtual": z3.And(c.f(c.arg("self"), TASK, "_state") == 0, c.f(c.arg("self"), TASK, "_pre_scheduling_state") == 0),
        "init.deadline": c.f(c.arg("self"), TASK, "_deadline") == c.arg("deadline"),
        "init.names": z3.And(c.f(c.arg("self"), TASK, "_name") == c.arg("name"), c.f(c.arg("self"), TASK, "_task_graph") == c.arg("task_graph"), c.f(c.arg("self"), TASK, "_creating_job") == c.arg("job")),
        "init.times": z3.And(c.f(c.arg("self"), TASK, "_release_time") == c.arg("release_time"), c.f(c.arg("self"), TASK, "_start_time") == c.arg("start_time"), c.f(c.arg("self"), TASK, "_completion_time") == c.arg("completion_time")),
        "init.nothing_scheduled": z3.And(T.opt_is_none(OptET_, c.f(c.arg("self"), TASK, "_remaining_time")), c.f(c.arg("self"), TASK, "_scheduler_placement") == 0),
    },
    note="Task.__init__: verified; dropped: the random id and its hash, `_last_step_time = -1` (an int in a field that later holds EventTimes: left unconstrained, only read while RUNNING) and the empty preemption list",
    props=P04 + ("C06",),
)


def _w_names(c, w=None):
    w = c.arg("self") if w is None else w
    return w, wres(c.pre, w)


def _res_mods(c, R, comp_list0):
    out = {c.pre.carr(RV, "val")[0]: [rv(c.pre, R)]}
    for part in ("len", "keys", "idx", "dom", "val"):
        out[c.pre.carr(AM, part)[0]] = [am(c.pre, R)]
    for part in ("len", "elem"):
        out[c.pre.carr(AL, part)[0]] = [comp_list0]
    return out


def _dict_mods(c, t, d, parts=("len", "keys", "idx", "dom", "val")):
    return {c.pre.carr(t, p)[0]: [d] for p in parts}


def _place_mod(c, w=None, task=None, s=None):
    w, R = _w_names(c, w)
    m = am(c.pre, R)
    task = c.arg("task") if task is None else task
    lst0 = z3.If(c.pre.d_dom(AM, m, task), c.pre.d_val(AM, m, task), 0)
    out = _res_mods(c, R, lst0)
    out.update(_dict_mods(c, PT, wpt(c.pre, w)))
    out.update(_dict_mods(c, PB, wpb(c.pre, w)))
    out.update(_dict_mods(c, BT, wbt(c.pre, w)))
    s = c.arg("execution_strategy") if s is None else s
    set0 = z3.If(c.pre.d_dom(PB, wpb(c.pre, w), s), c.pre.d_val(PB, wpb(c.pre, w), s), 0)
    out.update({c.pre.carr(TS, p)[0]: [set0] for p in ("len", "keys", "idx", "dom")})
    return out


def _place_raises_value(c, w=None, task=None, s=None):
    w, R = _w_names(c, w)
    s = c.arg("execution_strategy") if s is None else s
    nofit = z3.Not(fits(c.pre, R, c.pre, sres(c.pre, s)))
    newbatch = z3.And(is_batch(c.pre, s), z3.Not(c.pre.d_dom(PB, wpb(c.pre, w), s)))
    return z3.Or(z3.And(z3.Not(is_batch(c.pre, s)), nofit), z3.And(newbatch, z3.Or(c.pre.rd(s, STRAT, "_batch_size")[1] < 1, nofit)))


def _place_raises_runtime(c, w=None, task=None, s=None):
    w, R = _w_names(c, w)
    s = c.arg("execution_strategy") if s is None else s
    pb = wpb(c.pre, w)
    return z3.And(is_batch(c.pre, s), c.pre.d_dom(PB, pb, s), c.pre.c_len(TS, c.pre.d_val(PB, pb, s)) + 1 > c.pre.rd(s, STRAT, "_batch_size")[1])


def _place_ens(c, w=None, task=None, s=None):
    w, R = _w_names(c, w)
    s = c.arg("execution_strategy") if s is None else s
    task = c.arg("task") if task is None else task
    pt, pb = wpt(c.pre, w), wpb(c.pre, w)
    t = z3.Int(H.fresh_name("pe_t"))
    out = {
        "place.resident": z3.And(c.post.d_dom(PT, pt, task), c.post.d_val(PT, pt, task) == s),
        "place.others_resident_unchanged": z3.ForAll([t], z3.Implies(t != task, z3.And(c.post.d_dom(PT, pt, t) == c.pre.d_dom(PT, pt, t), c.post.d_val(PT, pt, t) == c.pre.d_val(PT, pt, t))), patterns=[c.post.d_dom(PT, pt, t)]),
        "place.batch_allocates_once": z3.Implies(
            z3.And(is_batch(c.pre, s), c.pre.d_dom(PB, pb, s)), z3.And(V(c.post, rv(c.pre, R)) == V(c.pre, rv(c.pre, R)), c.post.c_len(TS, c.pre.d_val(PB, pb, s)) == c.pre.c_len(TS, c.pre.d_val(PB, pb, s)) + 1)
        ),
    }
    b_ = z3.Int(H.fresh_name("pe_b"))
    # batches: the old ones keep their member-set objects; the only batch that can appear is `s`, with a fresh set
    out["place.batches_old_or_fresh"] = z3.ForAll(
        [b_],
        z3.Implies(
            c.post.d_dom(PB, pb, b_),
            z3.Or(z3.And(c.pre.d_dom(PB, pb, b_), c.post.d_val(PB, pb, b_) == c.pre.d_val(PB, pb, b_)), z3.And(b_ == s, c.post.d_val(PB, pb, b_) >= c.alloc0)),
        ),
        patterns=[c.post.d_dom(PB, pb, b_)],
    )
    for nm, g in wf_worker_parts(c.post, w).items():
        out["place.preserves_WF." + nm] = g
    return out


Contract(
    "workers.workers.Worker.place_task",
    params={"self": S_.Worker.ty, "task": S_.TASKR, "execution_strategy": S_.STRAT},
    requires=lambda c: {
        "wf": wf_worker(c.pre, c.arg("self")),
        "request_ok": request_ok(c.pre, c.arg("self"), c.arg("execution_strategy")),
        "not_resident": z3.And(z3.Not(c.pre.d_dom(PT, wpt(c.pre, c.arg("self")), c.arg("task"))), z3.Not(c.pre.d_dom(AM, am(c.pre, wres(c.pre, c.arg("self"))), c.arg("task")))),
    },
    raises={"ValueError": _place_raises_value, "RuntimeError": _place_raises_runtime},
    modifies=_place_mod,
    ensures=_place_ens,
    entry_facts=lambda c: [closed_wmaps(c)],
    allocates=True,
    props=P04,
)


def closed_wmaps(c):
    """heap closedness for the worker's maps: stored objects were allocated before entry"""
    w = c.arg("self")
    pb, bt = wpb(c.pre, w), wbt(c.pre, w)
    pt = wpt(c.pre, w)
    m = am(c.pre, wres(c.pre, w))
    b = z3.Int(H.fresh_name("cw_b"))
    x = z3.Int(H.fresh_name("cw_x"))
    return F(
        "heap.closed",
        z3.And(
            z3.ForAll([x], z3.Implies(c.pre.d_dom(PT, pt, x), x < c.alloc0), patterns=[c.pre.d_dom(PT, pt, x)]),
            z3.ForAll([x], z3.Implies(z3.Or(c.pre.d_dom(PF, wap(c.pre, w), x), c.pre.d_dom(PF, wpp(c.pre, w), x)), x < c.alloc0), patterns=[c.pre.d_dom(PF, wap(c.pre, w), x), c.pre.d_dom(PF, wpp(c.pre, w), x)]),
            z3.ForAll([b], z3.Implies(c.pre.d_dom(PB, pb, b), z3.And(c.pre.d_val(PB, pb, b) < c.alloc0, b < c.alloc0)), patterns=[c.pre.d_val(PB, pb, b)]),
            z3.ForAll([b], z3.Implies(c.pre.d_dom(BT, bt, b), c.pre.d_val(BT, bt, b) < c.alloc0), patterns=[c.pre.d_val(BT, bt, b)]),
            z3.ForAll([x], z3.Implies(c.pre.d_dom(AM, m, x), z3.And(x < c.alloc0, c.pre.d_val(AM, m, x) > 0, c.pre.d_val(AM, m, x) < c.alloc0)), patterns=[c.pre.d_dom(AM, m, x)]),
        ),
    )


# ---- remove_task ------------------------------------------------------------------------------------------
def _remove_mod(c, w=None, task=None, s=None):
    w, R = _w_names(c, w)
    out = {c.pre.carr(RV, "val")[0]: [rv(c.pre, R)]}
    for part in ("len", "keys", "idx", "dom"):
        out[c.pre.carr(AM, part)[0]] = [am(c.pre, R)]
    out.update(_dict_mods(c, PT, wpt(c.pre, w), ("len", "keys", "idx", "dom")))
    out.update(_dict_mods(c, PB, wpb(c.pre, w)))
    out.update(_dict_mods(c, BT, wbt(c.pre, w), ("len", "keys", "idx", "dom")))
    task = c.arg("task") if task is None else task
    s = c.pre.d_val(PT, wpt(c.pre, w), task)
    set0 = z3.If(c.pre.d_dom(PB, wpb(c.pre, w), s), c.pre.d_val(PB, wpb(c.pre, w), s), 0)
    out.update({c.pre.carr(TS, p)[0]: [set0] for p in ("len", "keys", "idx", "dom")})
    return out


def _remove_raises(c, w=None, task=None, s=None):
    w, R = _w_names(c, w)
    task = c.arg("task") if task is None else task
    pt = wpt(c.pre, w)
    s = c.pre.d_val(PT, pt, task)
    return z3.Or(z3.Not(c.pre.d_dom(PT, pt, task)), z3.And(z3.Not(is_batch(c.pre, s)), z3.Not(c.pre.d_dom(AM, am(c.pre, R), task))))


def _remove_ens(c, w=None, task=None, s=None):
    w, R = _w_names(c, w)
    task = c.arg("task") if task is None else task
    pt, pb = wpt(c.pre, w), wpb(c.pre, w)
    s = c.pre.d_val(PT, pt, task)
    t = z3.Int(H.fresh_name("re_t"))
    k = z3.Const(H.fresh_name("re_k"), RS)
    d = rv(c.pre, R)
    last = z3.And(is_batch(c.pre, s), c.pre.c_len(TS, c.pre.d_val(PB, pb, s)) == 1)
    holder = z3.If(is_batch(c.pre, s), c.pre.d_val(BT, wbt(c.pre, w), s), task)
    out = {
        "remove.not_resident": z3.Not(c.post.d_dom(PT, pt, task)),
        "remove.others_resident_unchanged": z3.ForAll([t], z3.Implies(t != task, z3.And(c.post.d_dom(PT, pt, t) == c.pre.d_dom(PT, pt, t))), patterns=[c.post.d_dom(PT, pt, t)]),
        # resources come back exactly when the task was a non-batch task or the last member of its batch
        "remove.returns_exactly": z3.ForAll(
            [k],
            z3.Select(V(c.post, d), k) == z3.Select(V(c.pre, d), k) + z3.If(z3.Or(z3.Not(is_batch(c.pre, s)), last), held(c.pre, R, holder, k), 0),
        ),
        "remove.batch_kept_while_members_remain": z3.Implies(z3.And(is_batch(c.pre, s), z3.Not(last)), z3.And(c.post.d_dom(PB, pb, s), c.post.d_dom(AM, am(c.pre, R), holder))),
        "remove.batch_dropped_with_last_member": z3.Implies(last, z3.And(z3.Not(c.post.d_dom(PB, pb, s)), z3.Not(c.post.d_dom(BT, wbt(c.pre, w), s)), z3.Not(c.post.d_dom(AM, am(c.pre, R), holder)))),
    }
    b_ = z3.Int(H.fresh_name("re_b"))
    # the batches that remain are batches that were there, with the same member-set objects (no container is created)
    out["remove.remaining_batches_are_old"] = z3.ForAll(
        [b_], z3.Implies(c.post.d_dom(PB, pb, b_), z3.And(c.pre.d_dom(PB, pb, b_), c.post.d_val(PB, pb, b_) == c.pre.d_val(PB, pb, b_))), patterns=[c.post.d_dom(PB, pb, b_)]
    )
    for nm, g in wf_worker_parts(c.post, w).items():
        out["remove.preserves_WF." + nm] = g
    return out


Contract(
    "workers.workers.Worker.remove_task",
    params={"self": S_.Worker.ty, "current_time": ETy, "task": S_.TASKR},
    requires=lambda c: {"wf": wf_worker(c.pre, c.arg("self"))},
    raises={"ValueError": _remove_raises},
    modifies=_remove_mod,
    ensures=_remove_ens,
    entry_facts=lambda c: [closed_wmaps(c)],
    props=P04,
)


# ---- profiles -------------------------------------------------------------------------------------------------
def _load_mod(c):
    w, R = _w_names(c)
    m = am(c.pre, R)
    prof = c.arg("profile")
    lst0 = z3.If(c.pre.d_dom(AM, m, prof), c.pre.d_val(AM, m, prof), 0)
    out = _res_mods(c, R, lst0)
    out.update(_dict_mods(c, PF, wpp(c.pre, w)))
    return out


Contract(
    "workload.strategy.ExecutionStrategy.__copy__",
    params={"self": S_.STRAT},
    ret=S_.STRAT,
    trusted=True,
    allocates=True,
    ensures=lambda c: z3.And(c.res >= c.alloc0, c.res != 0),
    note="copy(strategy): python's default shallow copy (no __copy__ defined): a fresh object sharing the field values; only freshness is used",
    props=P04,
)


def _load_ens(c):
    w, R = _w_names(c)
    prof = c.arg("profile")
    pp = wpp(c.pre, w)
    out = {"load.pending": c.post.d_dom(PF, pp, prof)}
    for nm, g in wf_worker_parts(c.post, w).items():
        out["load.preserves_WF." + nm] = g
    return out


Contract(
    "workers.workers.Worker.load_profile",
    params={"self": S_.Worker.ty, "profile": S_.PROFR, "loading_strategy": S_.STRAT},
    requires=lambda c: {
        "wf": wf_worker(c.pre, c.arg("self")),
        "request_ok": request_ok(c.pre, c.arg("self"), c.arg("loading_strategy")),
        "not_loaded": z3.And(
            z3.Not(c.pre.d_dom(PF, wap(c.pre, c.arg("self")), c.arg("profile"))),
            z3.Not(c.pre.d_dom(PF, wpp(c.pre, c.arg("self")), c.arg("profile"))),
            z3.Not(c.pre.d_dom(AM, am(c.pre, wres(c.pre, c.arg("self"))), c.arg("profile"))),
        ),
    },
    raises={"ValueError": lambda c: z3.Not(fits(c.pre, wres(c.pre, c.arg("self")), c.pre, sres(c.pre, c.arg("loading_strategy"))))},
    modifies=_load_mod,
    ensures=_load_ens,
    entry_facts=lambda c: [closed_wmaps(c)],
    allocates=True,
    props=P04,
)


def _evict_mod(c):
    w, R = _w_names(c)
    out = {c.pre.carr(RV, "val")[0]: [rv(c.pre, R)]}
    for part in ("len", "keys", "idx", "dom"):
        out[c.pre.carr(AM, part)[0]] = [am(c.pre, R)]
    for part in ("len", "keys", "idx", "dom"):
        out[c.pre.carr(PF, part)[0]] = [wap(c.pre, w), wpp(c.pre, w)]
    return out


def _evict_ens(c):
    w, R = _w_names(c)
    prof = c.arg("profile")
    k = z3.Const(H.fresh_name("ev_k"), RS)
    d = rv(c.pre, R)
    out = {
        "evict.gone": z3.And(z3.Not(c.post.d_dom(PF, wap(c.pre, w), prof)), z3.Not(c.post.d_dom(PF, wpp(c.pre, w), prof)), z3.Not(c.post.d_dom(AM, am(c.pre, R), prof))),
        "evict.returns_exactly": z3.ForAll([k], z3.Select(V(c.post, d), k) == z3.Select(V(c.pre, d), k) + held(c.pre, R, prof, k)),
    }
    for nm, g in wf_worker_parts(c.post, w).items():
        out["evict.preserves_WF." + nm] = g
    return out


Contract(
    "workers.workers.Worker.evict_profile",
    params={"self": S_.Worker.ty, "profile": S_.PROFR},
    requires=lambda c: {"wf": wf_worker(c.pre, c.arg("self"))},
    # (a profile whose loading strategy demanded nothing holds no allocation; deallocate then refuses)
    raises={
        "ValueError": lambda c: z3.Or(
            z3.And(z3.Not(c.pre.d_dom(PF, wap(c.pre, c.arg("self")), c.arg("profile"))), z3.Not(c.pre.d_dom(PF, wpp(c.pre, c.arg("self")), c.arg("profile")))),
            z3.Not(c.pre.d_dom(AM, am(c.pre, wres(c.pre, c.arg("self"))), c.arg("profile"))),
        )
    },
    modifies=_evict_mod,
    ensures=_evict_ens,
    entry_facts=lambda c: [closed_wmaps(c)],
    props=P04,
)


# ---- Worker.step ------------------------------------------------------------------------------------------------
from contracts.c_tasks import wf_task, some, get, RUNNING as T_RUNNING  # noqa: E402
from contracts.c_utils import us as _us  # noqa: E402

TaskList = T.List(S_.TASKR)
ProfList = T.List(S_.PROFR)

Contract(
    "workload.strategy.ExecutionStrategy.__init__",
    params={"self": S_.STRAT, "resources": T.Ref(RESOURCES), "batch_size": T.INT, "runtime": ETy},
    drops=("self._id = uuid.UUID(", "self._hash = hash("),
    modifies=lambda c: {c.pre.fld_arr(STRAT, f)[0]: [c.arg("self")] for f in ("_resources", "_batch_size", "_runtime", "_id", "_hash")},
    ensures=lambda c: z3.And(
        c.f(c.arg("self"), STRAT, "_resources") == c.arg("resources"),
        c.f(c.arg("self"), STRAT, "_batch_size") == c.arg("batch_size"),
        c.f(c.arg("self"), STRAT, "_runtime") == c.arg("runtime"),
    ),
    note="ExecutionStrategy.__init__: verified; dropped: the random id and its hash (uuid.UUID(int=random.getrandbits(128)), hash(id)) -- _id/_hash are left unconstrained",
    props=P04 + ("C03",),
)


def step_finishes(h, t, now, d):
    """Task.step's `finished` verdict (contract step.finished_iff) evaluated in state h"""
    rem = h.rd(t, TASK, "_remaining_time")[1]
    last = h.rd(t, TASK, "_last_step_time")[1]
    running = z3.And(h.rd(t, TASK, "_state")[1] == T_RUNNING, _us(h.rd(t, TASK, "_start_time")[1]) <= _us(now) + _us(d))
    active = z3.And(running, _us(get(rem)) != 0)
    return z3.And(active, _us(get(rem)) - (_us(now) + _us(d) - _us(get(last))) <= 0)


def step_rel(h0, h1, t, now, d):
    """the effect of one Task.step(now, d) on the remaining time / last step time of task t between the states h0 and h1
    (the clauses step.finished_effects / progress_effects / idle_unchanged of Task.step's contract); a task that is not
    RUNNING is skipped by Worker.step, which is the idle clause"""
    rem0o, last0o = h0.rd(t, TASK, "_remaining_time")[1], h0.rd(t, TASK, "_last_step_time")[1]
    rem1o, last1o = h1.rd(t, TASK, "_remaining_time")[1], h1.rd(t, TASK, "_last_step_time")[1]
    rem0, last0 = get(rem0o), get(last0o)
    running = z3.And(h0.rd(t, TASK, "_state")[1] == T_RUNNING, _us(h0.rd(t, TASK, "_start_time")[1]) <= _us(now) + _us(d))
    active = z3.And(running, _us(rem0) != 0)
    exec_t = _us(now) + _us(d) - _us(last0)
    fin = z3.And(active, _us(rem0) - exec_t <= 0)
    return z3.And(
        z3.Implies(fin, z3.And(some(rem1o), _us(get(rem1o)) == 0, some(last1o), _us(get(last1o)) == _us(now) + _us(rem0))),
        z3.Implies(z3.And(active, z3.Not(fin)), z3.And(some(rem1o), _us(get(rem1o)) == _us(rem0) - exec_t, some(last1o), _us(get(last1o)) == _us(now) + _us(d))),
        z3.Implies(z3.Not(active), z3.And(rem1o == rem0o, last1o == last0o)),
    )


def _wstep_mod(c):
    w = c.arg("self")
    out = {
        c.pre.fld_arr(TASK, "_remaining_time")[0]: ANY,
        c.pre.fld_arr(TASK, "_last_step_time")[0]: ANY,
        c.pre.fld_arr(STRAT, "_runtime")[0]: ANY,
    }
    for part in ("len", "keys", "idx", "dom", "val"):
        out[c.pre.carr(PF, part)[0]] = [wap(c.pre, w), wpp(c.pre, w)]
    return out


def _wstep_tasks_inv(c, L):
    """tasks before position i have been stepped (or skipped); the others are untouched; the collected list holds
    exactly the stepped RUNNING tasks whose step reported completion"""
    w = c.arg("self")
    h = c.post
    pt = wpt(c.pre, w)
    keys = c.pre.d_keys(PT, pt)
    idx = z3.Select(c.pre.carr(PT, "idx")[1], pt)
    now, d = c.arg("current_time"), c.arg("step_size")
    t = z3.Int(H.fresh_name("ws_t"))
    res = L.var("completed_tasks")
    fin0 = step_finishes(c.pre, t, now, d)
    visited = z3.And(c.pre.d_dom(PT, pt, t), z3.Select(idx, t) < L.i)
    rem = lambda hh: hh.rd(t, TASK, "_remaining_time")[1]
    last = lambda hh: hh.rd(t, TASK, "_last_step_time")[1]
    return {
        "collected_exactly_finished": z3.ForAll([t], h.l_mem(TaskList, res, t) == z3.And(visited, fin0), patterns=[h.l_mem(TaskList, res, t)]),
        "unvisited_untouched": z3.ForAll([t], z3.Implies(z3.And(z3.Not(visited), 0 < t, t < c.alloc0), z3.And(rem(h) == rem(c.pre), last(h) == last(c.pre))), patterns=[rem(h)]),
        # every visited task has been stepped exactly once (Task.step's effect relative to the entry state) and stays well formed
        "visited_stepped_once": z3.ForAll([t], z3.Implies(visited, z3.And(step_rel(c.pre, h, t, now, d), wf_task(h, t))), patterns=[rem(h)]),
        "list_fresh": res >= c.alloc0,
    }


def _wstep_ens(c):
    w = c.arg("self")
    pt = wpt(c.pre, w)
    now, d = c.arg("current_time"), c.arg("step_size")
    t = z3.Int(H.fresh_name("we_t"))
    R = wres(c.pre, w)
    return {
        # C03: the completed list is exactly the placed RUNNING tasks whose Task.step reports completion
        "step.completed_iff": z3.ForAll(
            [t], c.post.l_mem(TaskList, c.res, t) == z3.And(c.pre.d_dom(PT, pt, t), step_finishes(c.pre, t, now, d)), patterns=[c.post.l_mem(TaskList, c.res, t)]
        ),
        "step.list_fresh": c.res >= c.alloc0,
        # C03: every placed task is stepped exactly once by the given amount (Task.step's effect), stays well formed, and
        # no other task is touched
        "step.placed_tasks_stepped_once": z3.ForAll(
            [t], z3.Implies(c.pre.d_dom(PT, pt, t), z3.And(step_rel(c.pre, c.post, t, now, d), wf_task(c.post, t))), patterns=[c.post.rd(t, TASK, "_remaining_time")[1]]
        ),
        "step.other_tasks_untouched": z3.ForAll(
            [t],
            z3.Implies(
                z3.And(z3.Not(c.pre.d_dom(PT, pt, t)), 0 < t, t < c.alloc0),
                z3.And(c.post.rd(t, TASK, "_remaining_time")[1] == c.pre.rd(t, TASK, "_remaining_time")[1], c.post.rd(t, TASK, "_last_step_time")[1] == c.pre.rd(t, TASK, "_last_step_time")[1]),
            ),
            patterns=[c.post.rd(t, TASK, "_remaining_time")[1]],
        ),
    }


Contract(
    "workers.workers.Worker.step",
    params={"self": S_.Worker.ty, "current_time": ETy, "step_size": ETy},
    ret=TaskList,
    requires=lambda c: {
        "wf": wf_worker(c.pre, c.arg("self")),
        "step_nonneg": _us(c.arg("step_size")) >= 0,
        "tasks_wf": _placed_tasks_wf(c.pre, c.arg("self")),
        "profile_maps_distinct": wap(c.pre, c.arg("self")) != wpp(c.pre, c.arg("self")),
    },
    modifies=_wstep_mod,
    loops={
        0: Loop(inv=lambda c, L: _wstep_prof_inv(c, L, 0), modifies=lambda c: _wstep_loop01_mod(c, 0)),
        1: Loop(inv=lambda c, L: _wstep_prof_inv(c, L, 1), modifies=lambda c: _wstep_loop01_mod(c, 1)),
        2: Loop(inv=_wstep_tasks_inv, modifies=lambda c: _wstep_loop2_mod(c)),
    },
    locals={"completed_tasks": TaskList, "invalid_profiles": ProfList},
    ensures=_wstep_ens,
    entry_facts=lambda c: [closed_wmaps(c)],
    allocates=True,
    props=("C03", "C04"),
)


def _placed_tasks_wf(h, w):
    pt = wpt(h, w)
    t = z3.Int(H.fresh_name("pw_t"))
    return z3.ForAll([t], z3.Implies(h.d_dom(PT, pt, t), wf_task(h, t)), patterns=[h.d_dom(PT, pt, t)])


def _wstep_loop01_mod(c, which):
    w = c.arg("self")
    out = {}
    fr = c.run.frames[-1].env
    inv = fr.get("invalid_profiles")
    if which == 0:
        out = {c.pre.fld_arr(STRAT, "_runtime")[0]: ANY}
        for f in ("_resources", "_batch_size", "_id", "_hash"):
            out[c.pre.fld_arr(STRAT, f)[0]] = []
        for part in ("len", "keys", "idx", "dom", "val"):
            out[c.pre.carr(PF, part)[0]] = [wap(c.pre, w)]
        out[c.pre.carr(ProfList, "len")[0]] = [inv.z]
        out[c.pre.carr(ProfList, "elem")[0]] = [inv.z]
    else:
        for part in ("len", "keys", "idx", "dom"):
            out[c.pre.carr(PF, part)[0]] = [wpp(c.pre, w)]
    return out


def _wstep_prof_inv(c, L, which):
    """the profiles collected for removal are distinct pending profiles (so each `del` finds its key)"""
    w = c.arg("self")
    h = c.post
    pp = wpp(c.pre, w)
    inv = L.var("invalid_profiles")
    a, b = z3.Int(H.fresh_name("pi_a")), z3.Int(H.fresh_name("pi_b"))
    n = h.c_len(ProfList, inv)
    el = lambda k: h.l_elem(ProfList, inv, k)
    idx0 = z3.Select(c.pre.carr(PF, "idx")[1], pp)
    out = {
        "list_fresh": z3.And(inv >= c.alloc0, inv != wpp(c.pre, w)),
        "distinct": z3.ForAll([a, b], z3.Implies(z3.And(0 <= a, a < b, b < n), z3.Select(idx0, el(a)) < z3.Select(idx0, el(b)))),
    }
    if which == 0:
        out["collected_are_visited_pending"] = z3.ForAll([a], z3.Implies(z3.And(0 <= a, a < n), z3.And(c.pre.d_dom(PF, pp, el(a)), z3.Select(idx0, el(a)) < L.i)), patterns=[el(a)])
        out["pending_untouched"] = z3.And(h.d_doms(PF, pp) == c.pre.d_doms(PF, pp), h.c_len(PF, pp) == c.pre.c_len(PF, pp), h.d_keys(PF, pp) == c.pre.d_keys(PF, pp))
    else:
        out["remaining_still_pending"] = z3.ForAll([a], z3.Implies(z3.And(L.i <= a, a < n), h.d_dom(PF, pp, el(a))), patterns=[el(a)])
        out["collected_were_pending"] = z3.ForAll([a], z3.Implies(z3.And(0 <= a, a < n), c.pre.d_dom(PF, pp, el(a))), patterns=[el(a)])
    return out


def _wstep_loop2_mod(c):
    fr = c.run.frames[-1].env
    res = fr.get("completed_tasks")
    return {
        c.pre.fld_arr(TASK, "_remaining_time")[0]: ANY,
        c.pre.fld_arr(TASK, "_last_step_time")[0]: ANY,
        c.pre.carr(TaskList, "len")[0]: [res.z],
        c.pre.carr(TaskList, "elem")[0]: [res.z],
    }
