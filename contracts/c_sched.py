"""Greedy scheduling policies under contract (C13 priority order, C10 decisions / virtual cluster, C12 admission):
EDFScheduler.schedule, FIFOScheduler.schedule, LSFScheduler.schedule.

The cluster a policy plans on is abstracted by a ghost version per (virtual) worker pool:
`can_accomodate_strategy` is an uninterpreted function CA(version, pool, strategy); `place_task` bumps the version of
that pool only and records (task, strategy) as its last placement. "Unplaced only if nothing fits once the
higher-priority placements are accounted for" then reads: at the point where a task is answered `unplaced`, for all
of its strategies and all pools CA is false *in the current versions*, and the versions moved exactly by the recorded
placements (checked at the point where a placement is recorded)."""
import z3

from pyvc import ty as T
from pyvc import heap as H
from pyvc.engine import Fact, Step, str_lt, str_order_axioms
from pyvc.registry import ANY, CLASSES, Contract, Loop, declare_ref, lemma, scan, assumption, observation
from contracts import shapes as S_
from contracts.c_utils import ETy, OptET, us, t_time, t_unit, mk
from contracts.c_tasks import TASK, wf_task
from contracts.c_simulator import WPS, POOL, PoolMap, WorkerPools
from contracts.c_handlers import WORKLOAD

BASE = "schedulers.base_scheduler.BaseScheduler"
PLACEMENT = "workload.placement.Placement"
PLACEMENTS = "workload.placement.Placements"
STRAT = "workload.strategy.ExecutionStrategy"
STRATS = "workload.strategy.ExecutionStrategies"
PROFILE = "workload.profile.WorkProfile"
TaskList = T.List(S_.TASKR)
PlacementList = T.List(T.Ref(PLACEMENT))
StratList = T.List(S_.STRAT)

BaseScheduler = declare_ref(
    BASE,
    {
        "_preemptive": T.BOOL,
        "_runtime": ETy,
        "_lookahead": ETy,
        "_enforce_deadlines": T.BOOL,
        "_policy": T.OPAQUE,
        "_branch_prediction_accuracy": T.REAL,
        "_retract_schedules": T.BOOL,
        "_release_taskgraphs": T.BOOL,
        "_flags": T.OPAQUE,
        "_logger": T.OPAQUE,
    },
)
EDF = declare_ref("schedulers.edf_scheduler.EDFScheduler", {}, bases=[BASE])
FIFO = declare_ref("schedulers.fifo_scheduler.FIFOScheduler", {}, bases=[BASE])
LSF = declare_ref("schedulers.lsf_scheduler.LSFScheduler", {}, bases=[BASE])
PlacementsCls = declare_ref(PLACEMENTS, {"_runtime": ETy, "_true_runtime": OptET, "_placements": T.Dict(T.STR, T.Ref(PLACEMENT))})
S_.ExecutionStrategies.iter_field = "_strategies"

P = ("C13", "C10", "C12")

CA = z3.Function("pool_can_accomodate", z3.IntSort(), z3.IntSort(), z3.IntSort(), z3.BoolSort())


def ver(h, p):
    return h.rd(p, POOL, "$ver")[1]


# ---- assumed / library contracts the loops rely on ------------------------------------------------------------------
Contract(
    "workload.workload.Workload.get_schedulable_tasks",
    params={"self": T.Ref(WORKLOAD), "time": ETy},
    ret=TaskList,
    trusted=True,
    allocates=True,
    ensures=lambda c: z3.And(
        c.res >= c.alloc0,
        z3.ForAll(
            [z3.Int("gs_j")],
            z3.Implies(
                z3.And(0 <= z3.Int("gs_j"), z3.Int("gs_j") < c.post.c_len(TaskList, c.res)),
                z3.And(c.post.l_elem(TaskList, c.res, z3.Int("gs_j")) > 0, c.post.l_elem(TaskList, c.res, z3.Int("gs_j")) < c.alloc0, wf_task(c.pre, c.post.l_elem(TaskList, c.res, z3.Int("gs_j")))),
            ),
            patterns=[c.post.l_elem(TaskList, c.res, z3.Int("gs_j"))],
        ),
    ),
    note="Workload.get_schedulable_tasks: the offered tasks, as a fresh list (which tasks: C18, bounded taskgraph stand-in); every offered task satisfies the Task representation invariant (preserved by every Task mutator, c_tasks)",
    props=P,
)


def _copy_ens(c):
    r = c.res
    d = c.post.rd(r, WPS, "_worker_pools")[1]
    k = z3.Int(H.fresh_name("cp_k"))
    return z3.And(
        r >= c.alloc0,
        d >= c.alloc0,
        # every pool of the copy is a fresh object: planning on it cannot touch the live cluster
        z3.ForAll([k], z3.Implies(z3.And(0 <= k, k < c.post.c_len(PoolMap, d)), c.post.d_val(PoolMap, d, c.post.d_key(PoolMap, d, k)) >= c.alloc0), patterns=[c.post.d_key(PoolMap, d, k)]),
    )


for _nm in ("__copy__", "__deepcopy__"):
    Contract(
        "workers.workers.WorkerPools." + _nm,
        params={"self": T.Ref(WPS)},
        ret=T.Ref(WPS),
        trusted=True,
        allocates=True,
        ensures=_copy_ens,
        note="WorkerPools.%s: an independent cluster made of fresh pool objects (same occupancy for copy, empty for deepcopy: C04, bounded ledger stand-in)" % _nm,
        props=P,
    )

Contract(
    "workers.workers.WorkerPool.can_accomodate_strategy",
    params={"self": S_.WorkerPool.ty, "execution_strategy": S_.STRAT},
    ret=T.BOOL,
    trusted=True,
    ensures=lambda c: c.res == CA(ver(c.pre, c.arg("self")), c.arg("self"), c.arg("execution_strategy")),
    note="WorkerPool.can_accomodate_strategy: a pure function of the pool's occupancy (ghost version) and the strategy; its meaning (some worker fits) is Worker.can_accomodate_strategy (proved) + bounded ledger",
    props=P,
)

def _extreme_strategy_ens(which):
    def ens(c):
        lst = c.pre.rd(c.arg("self"), STRATS, "_strategies")[1]
        n = c.pre.c_len(StratList, lst)
        j, k = z3.Int(H.fresh_name("xs_j")), z3.Int(H.fresh_name("xs_k"))
        rt = lambda s_: us(c.pre.rd(s_, STRAT, "_runtime")[1])
        cmp_ = (lambda a, b: a <= b) if which == "fastest" else (lambda a, b: a >= b)
        return {
            which + ".none_iff_empty": (c.res == 0) == (n == 0),
            which + ".is_a_member": z3.Implies(c.res != 0, z3.Exists([k], z3.And(0 <= k, k < n, c.pre.l_elem(StratList, lst, k) == c.res))),
            # no member is strictly faster (slower) than the one returned
            which + ".extremal": z3.Implies(c.res != 0, z3.ForAll([j], z3.Implies(z3.And(0 <= j, j < n), cmp_(rt(c.res), rt(c.pre.l_elem(StratList, lst, j)))), patterns=[c.pre.l_elem(StratList, lst, j)])),
        }

    return ens


Contract(
    "workload.strategy.ExecutionStrategies.get_fastest_strategy",
    params={"self": T.Ref(STRATS)},
    ret=S_.nullable(STRAT),
    ensures=_extreme_strategy_ens("fastest"),
    note="verified: min(self._strategies, key=runtime) -- python's min returns the first minimal element; only membership and minimality are modelled",
    props=P + ("C12",),
)

Contract(
    "workload.strategy.ExecutionStrategies.get_slowest_strategy#body",
    params={"self": T.Ref(STRATS)},
    ret=S_.nullable(STRAT),
    ensures=_extreme_strategy_ens("slowest"),
    note="verified against the body: max(self._strategies, key=runtime) -- membership and maximality (which of several equally slow members is not modelled); callers use the plain contract (a pure function of the strategy list)",
    props=("C05", "C03", "C13"),
)

Contract(
    "workload.placement.Placement.__init__",
    params={
        "self": T.Ref(PLACEMENT),
        "type": S_.PlacementType.ty,
        "computation": T.Ref(None),
        "placement_time": OptET,
        "worker_pool_id": S_.OptSTR,
        "worker_id": S_.OptSTR,
        "strategy": S_.nullable(STRAT),
    },
    drops=("self._id = uuid.UUID(",),
    modifies=lambda c: {c.pre.fld_arr(PLACEMENT, f)[0]: [c.arg("self")] for f in ("_placement_type", "_computation", "_placement_time", "_worker_pool_id", "_worker_id", "_strategy", "_id")},
    ensures=lambda c: z3.And(
        c.f(c.arg("self"), PLACEMENT, "_placement_type") == c.arg("type"),
        c.f(c.arg("self"), PLACEMENT, "_computation") == c.arg("computation"),
        c.f(c.arg("self"), PLACEMENT, "_placement_time") == c.arg("placement_time"),
        c.f(c.arg("self"), PLACEMENT, "_worker_pool_id") == c.arg("worker_pool_id"),
        c.f(c.arg("self"), PLACEMENT, "_worker_id") == c.arg("worker_id"),
        c.f(c.arg("self"), PLACEMENT, "_strategy") == c.arg("strategy"),
    ),
    note="Placement.__init__: verified; dropped: the assignment of the random 128-bit id (uuid.UUID(int=random.getrandbits(128))) -- the _id field is left unconstrained",
    props=P,
)
Contract("workload.placement.Placement.create_task_cancellation", inline=True, props=P)
Contract("workload.placement.Placement.create_task_placement", inline=True, props=P)

Contract(
    "workload.placement.Placements.__init__",
    params={"self": T.Ref(PLACEMENTS), "runtime": ETy, "true_runtime": OptET, "placements": PlacementList},
    trusted=True,
    modifies=lambda c: {c.pre.fld_arr(PLACEMENTS, f)[0]: [c.arg("self")] for f in ("_runtime", "_true_runtime", "_placements")},
    ensures=lambda c: z3.And(c.f(c.arg("self"), PLACEMENTS, "_runtime") == c.arg("runtime"), GIVEN(c.arg("self")) == c.arg("placements")),
    note="Placements.__init__: wraps the given list (as a dict keyed by the placements' random ids)",
    props=P,
)
GIVEN = z3.Function("placements_given", z3.IntSort(), z3.IntSort())


# ---- the policy's priority key (spec, from the statement) -------------------------------------------------------
def edf_before(h, a, b):
    """EDF: earlier deadline first; ties broken by task-graph name (the policy's documented secondary key)"""
    da, db = us(h.rd(a, TASK, "_deadline")[1]), us(h.rd(b, TASK, "_deadline")[1])
    return z3.Or(da < db, z3.And(da == db, str_lt(h.rd(a, TASK, "_task_graph")[1], h.rd(b, TASK, "_task_graph")[1])))


def fifo_before(h, a, b):
    return us(h.rd(a, TASK, "_release_time")[1]) < us(h.rd(b, TASK, "_release_time")[1])


def sorted_by(h, lst, before):
    i, j = z3.Int(H.fresh_name("sb_i")), z3.Int(H.fresh_name("sb_j"))
    el = lambda k: h.l_elem(TaskList, lst, k)
    return z3.ForAll([i, j], z3.Implies(z3.And(0 <= i, i < j, j < h.c_len(TaskList, lst)), z3.Not(before(h, el(j), el(i)))), patterns=[z3.MultiPattern(el(i), el(j))])


def strategies_of(h, task):
    prof = h.rd(task, TASK, "_profile")[1]
    return h.rd(prof, PROFILE, "_execution_strategies")[1]


def strat_list(h, task):
    return h.rd(strategies_of(h, task), STRATS, "_strategies")[1]


def pools_dict(h, wps):
    return h.rd(wps, WPS, "_worker_pools")[1]


def pool_at(h, wps, k):
    d = pools_dict(h, wps)
    return h.d_val(PoolMap, d, h.d_key(PoolMap, d, k))


def nothing_fits(h, V, task, upto_strategy=None, upto_pool=None, cur_strategy=None):
    """no strategy (index < upto_strategy, all if None) of the task fits any pool of the virtual cluster V in its
    CURRENT occupancy; for cur_strategy additionally no pool with index < upto_pool"""
    sl = strat_list(h, task)
    a, k = z3.Int(H.fresh_name("nf_a")), z3.Int(H.fresh_name("nf_k"))
    npools = h.c_len(PoolMap, pools_dict(h, V))
    ns = h.c_len(StratList, sl) if upto_strategy is None else upto_strategy
    s_a = h.l_elem(StratList, sl, a)
    p_k = pool_at(h, V, k)
    out = [z3.ForAll([a, k], z3.Implies(z3.And(0 <= a, a < ns, 0 <= k, k < npools), z3.Not(CA(ver(h, p_k), p_k, s_a))), patterns=[z3.MultiPattern(s_a, p_k)])]
    if cur_strategy is not None:
        out.append(z3.ForAll([k], z3.Implies(z3.And(0 <= k, k < upto_pool), z3.Not(CA(ver(h, p_k), p_k, cur_strategy))), patterns=[p_k]))
    return z3.And(*out)


def hopeless(h, task, now):
    """C12: the task cannot meet its deadline with ANY of its strategies if started now"""
    sl = strat_list(h, task)
    j = z3.Int(H.fresh_name("hl_j"))
    s_j = h.l_elem(StratList, sl, j)
    return z3.ForAll([j], z3.Implies(z3.And(0 <= j, j < h.c_len(StratList, sl)), us(h.rd(task, TASK, "_deadline")[1]) < us(now) + us(h.rd(s_j, STRAT, "_runtime")[1])), patterns=[s_j])


def versions_frozen(h, h0, V):
    k = z3.Int(H.fresh_name("vf_k"))
    p_k = pool_at(h0, V, k)
    return z3.ForAll([k], z3.Implies(z3.And(0 <= k, k < h0.c_len(PoolMap, pools_dict(h0, V))), ver(h, p_k) == ver(h0, p_k)), patterns=[p_k])


# =================================================================================================
# the three greedy policies share one loop structure; the contract is generated per policy
# =================================================================================================
def _names(c):
    return c.arg("self"), c.arg("sim_time"), c.arg("workload"), c.arg("worker_pools")


def _sched_mod(c):
    out = {}
    for g in ("$ver", "$last_task", "$last_strategy"):
        out[c.pre.fld_arr(POOL, g)[0]] = ANY
    return out


def live_untouched(c, h):
    """C10: deciding changes no pool that existed when the policy was invoked"""
    p = z3.Int(H.fresh_name("lu_p"))
    gs = ("$ver", "$last_task", "$last_strategy")
    return z3.ForAll([p], z3.Implies(z3.And(0 < p, p < c.alloc0), z3.And(*[h.rd(p, POOL, g)[1] == c.pre.rd(p, POOL, g)[1] for g in gs])), patterns=[h.rd(p, POOL, g)[1] for g in gs])


def _V(L):
    return L.var("schedulable_worker_pools")


def _tasks_loop_mod(c):
    out = _sched_mod(c)
    fr = c.run.frames[-1].env
    pl = fr.get("placements")
    out[c.pre.carr(PlacementList, "len")[0]] = [pl.z]
    out[c.pre.carr(PlacementList, "elem")[0]] = [pl.z]
    for f in ("_placement_type", "_computation", "_placement_time", "_worker_pool_id", "_worker_id", "_strategy", "_id"):
        out[c.pre.fld_arr(PLACEMENT, f)[0]] = []
    return out


def _fresh_cluster(c, h, V):
    d = pools_dict(h, V)
    k = z3.Int(H.fresh_name("fc_k"))
    return z3.And(
        V >= c.alloc0,
        d >= c.alloc0,
        z3.ForAll([k], z3.Implies(z3.And(0 <= k, k < h.c_len(PoolMap, d)), pool_at(h, V, k) >= c.alloc0), patterns=[h.d_key(PoolMap, d, k)]),
    )


def _tasks_inv(c, L):
    h = c.post
    pl = L.var("placements")
    V = _V(L)
    return {
        # C10: every offered task gets exactly one decision (placed / unplaced / cancel): one placement per iteration
        "one_decision_per_task": h.c_len(PlacementList, pl) == L.i,
        "placements_fresh": z3.And(pl >= c.alloc0, pl < c.run.cur_alloc()),
        "virtual_cluster_fresh": _fresh_cluster(c, h, V),
        "live_cluster_untouched": live_untouched(c, h),
    }


def _strategies_inv(c, L):
    h = c.post
    V = _V(L)
    task = L.var("task")
    placed = L.var("is_task_placed")
    pl = L.var("placements")
    n0 = L.head.c_len(PlacementList, pl)
    return {
        "not_placed_at_head": z3.Not(placed),
        "unplaced_so_far_nothing_fits": z3.And(nothing_fits(h, V, task, upto_strategy=L.i), versions_frozen(h, L.head, V)),
        "decision_count": h.c_len(PlacementList, pl) == n0,
        "placements_fresh": z3.And(pl >= c.alloc0, pl < c.run.cur_alloc()),
        "virtual_cluster_fresh": _fresh_cluster(c, h, V),
        "live_cluster_untouched": live_untouched(c, h),
    }


def _pools_inv(c, L):
    h = c.post
    V = _V(L)
    task = L.var("task")
    placed = L.var("is_task_placed")
    s = L.var("execution_strategy")
    pl = L.var("placements")
    n0 = L.head.c_len(PlacementList, pl)
    k = z3.Int(H.fresh_name("pi_k"))
    p_k = pool_at(h, V, k)
    return {
        "not_placed_at_head": z3.Not(placed),
        "unplaced_so_far_strategy_fits_no_earlier_pool": z3.And(z3.ForAll([k], z3.Implies(z3.And(0 <= k, k < L.i), z3.Not(CA(ver(h, p_k), p_k, s))), patterns=[p_k]), versions_frozen(h, L.head, V)),
        "decision_count": h.c_len(PlacementList, pl) == n0,
        "placements_fresh": z3.And(pl >= c.alloc0, pl < c.run.cur_alloc()),
        "virtual_cluster_fresh": _fresh_cluster(c, h, V),
        "live_cluster_untouched": live_untouched(c, h),
    }


def _at_unplaced(c, L):
    return {"unplaced.nothing_fits": nothing_fits(c.post, _V(L), L.var("task"))}


def _at_placed(c, L):
    h = c.post
    p = L.var("worker_pool")
    return {
        # the virtual cluster received exactly the (task, strategy) that the decision records, on the recorded pool
        "placed.virtual_state_is_recorded_decision": z3.And(h.rd(p, POOL, "$last_task")[1] == L.var("task"), h.rd(p, POOL, "$last_strategy")[1] == L.var("execution_strategy")),
        "placed.pool_is_virtual": p >= c.alloc0,
    }


def _at_cancel(c, L):
    self_, now, wl, wps = _names(c)
    return {"admit.cancel_only_if_hopeless": z3.And(c.pre.rd(self_, BASE, "_enforce_deadlines")[1], hopeless(c.post, L.var("task"), now))}


def _at_try_place(c, L):
    self_, now, wl, wps = _names(c)
    return {"admit.hopeless_is_cancelled": z3.Not(z3.And(c.pre.rd(self_, BASE, "_enforce_deadlines")[1], hopeless(c.post, L.var("task"), now)))}


def _sched_ens(c):
    r = c.res
    return {
        "sched.live_cluster_untouched": live_untouched(c, c.post),
        "sched.returns_collected_decisions": GIVEN(r) >= c.alloc0,
    }


def greedy_contract(qname, before, order_name, first_loop=1, unplaced_stmt="placements.append(Placement.create_task_placement(task=task))", admission=True):
    def _at_sorted(c, L):
        return {"order." + order_name: sorted_by(c.post, L.var("ordered_tasks"), before(c))}

    at = {
        unplaced_stmt: _at_unplaced,
        "placements.append(Placement.create_task_placement(task=task, ": _at_placed,
        "for task in ordered_tasks:": _at_sorted,
    }
    if admission:
        at["placements.append(Placement.create_task_cancellation("] = _at_cancel
        at["is_task_placed = False"] = _at_try_place
    k = first_loop
    Contract(
        qname,
        params={"self": T.Ref(qname.rsplit(".", 1)[0]), "sim_time": ETy, "workload": T.Ref(WORKLOAD), "worker_pools": T.Ref(WPS)},
        ret=T.Ref(PLACEMENTS),
        requires=lambda c: {"time_in_us": t_unit(c.arg("sim_time")) >= 0},
        may_raise=("AttributeError", "ValueError"),
        raise_unchanged=False,
        modifies=_sched_mod,
        loops={k: Loop(inv=_tasks_inv, modifies=_tasks_loop_mod), k + 1: Loop(inv=_strategies_inv, modifies=_tasks_loop_mod), k + 2: Loop(inv=_pools_inv, modifies=_tasks_loop_mod)},
        locals={"placements": PlacementList},
        drops=("task_description_string = ", "task_descriptions = "),
        at=at,
        ensures=_sched_ens,
        entry_facts=lambda c: [Fact("str.order", z3.And(*str_order_axioms()))],
        allocates=True,
        note="may raise AttributeError (a task without strategies: get_fastest_strategy() is None) -- not constrained",
        props=P,
    )


def lsf_before(c):
    """LSF: least slack first, slack = deadline - now - remaining time (the statement's definition)"""
    from contracts.c_handlers import REMT

    now = c.arg("sim_time")

    def before(h, a, b):
        rem = lambda t: us(REMT(h.fld_arr(TASK, "_state")[2], h.fld_arr(TASK, "_remaining_time")[2], t))
        sl = lambda t: us(h.rd(t, TASK, "_deadline")[1]) - us(now) - rem(t)
        return sl(a) < sl(b)

    return before


Contract("schedulers.lsf_scheduler.LSFScheduler.slack", inline=True, props=P)
greedy_contract("schedulers.edf_scheduler.EDFScheduler.schedule", lambda c: edf_before, "sorted_by_deadline_then_graph")
greedy_contract("schedulers.fifo_scheduler.FIFOScheduler.schedule", lambda c: fifo_before, "sorted_by_release_time")
greedy_contract("schedulers.lsf_scheduler.LSFScheduler.schedule", lsf_before, "sorted_by_slack", first_loop=0, unplaced_stmt="placements.append(Placement.create_task_placement(task))", admission=False)
