"""C05 (safety half): Simulator.__get_next_scheduler_event -- when the next scheduler invocation (or the end of the
simulation) is queued.  Proved: what kind of event comes back, that SIMULATOR_END before the timeout is returned only
when nothing is pending, offered or placed, and the time bounds of the next SCHEDULER_START.  The estimate of when a
running task completes and three side-effect-free sub-conditions are outside the subset and declared opaque (arbitrary
values): none of the obligations below depends on them."""
import z3

from pyvc import ty as T
from pyvc import heap as H
from pyvc.engine import Fact, Step
from pyvc.registry import ANY, CLASSES, Contract, Loop
from contracts import shapes as S_
from contracts.c_utils import ETy, OptET, us
from contracts.c_events import EL, EVENT, q_list, is_heap, mem, ev_time, ev_type, ev_task, et
from contracts.c_simulator import SIM, Simulator, sim_queue, sim_time, TaskList, closed_queue
from contracts.c_sched import BASE
from contracts.c_handlers import fut, FutureMap

Simulator.fields["_scheduler"] = T.Ref(BASE)
for _p in ("lookahead", "preemptive", "retract_schedules", "policy", "branch_prediction_accuracy", "release_taskgraphs"):
    Contract(BASE + "." + _p, inline=True, props=("C05",))

P05 = ("C05",)
MAXSIZE = 2**63 - 1


def _ns_requires(c):
    s = c.arg("self")
    return {
        "heap_ok": is_heap(c.pre, sim_queue(c.pre, s)),
        "scheduler_present": c.pre.rd(s, SIM, "_scheduler")[1] != 0,
        "delay_nonneg": us(c.pre.rd(s, SIM, "_scheduler_delay")[1]) >= 0,
        "event_given": c.arg("event") != 0,
    }


def _ns_ens(c):
    s, ev = c.arg("self"), c.arg("event")
    r = c.res
    now = us(ev_time(c.pre, ev))
    freq, last, tmo = us(c.arg("scheduler_frequency")), us(c.arg("last_scheduler_start_time")), us(c.arg("loop_timeout"))
    rt = us(ev_time(c.post, r))
    is_end = ev_type(c.post, r) == et("SIMULATOR_END")
    is_start = ev_type(c.post, r) == et("SCHEDULER_START")
    lst = sim_queue(c.pre, s)
    n_pending_placements = c.pre.c_len(FutureMap, fut(c.pre, s))
    worker_free = c.pre.rd(s, SIM, "_run_scheduler_at_worker_free")[1]
    return {
        "next_sched.kind": z3.And(r != 0, z3.Or(is_end, is_start)),
        # C05: the run is ended before the timeout only when no event is pending and no placement is cached (what is
        # offered / resident comes from assumed callees and is part of the same test in the code)
        "next_sched.end_before_timeout_only_when_idle": z3.Implies(z3.And(is_end, rt != tmo), z3.And(rt == now + 1, c.pre.c_len(EL, lst) == 0, n_pending_placements == 0)),
        "next_sched.start_is_recorded": z3.Implies(is_start, c.post.rd(s, SIM, "_next_scheduler_event")[1] == r),
        # C05: outside the run-at-worker-free mode the next invocation is not before this event and strictly before the timeout
        "next_sched.start_within_bounds": z3.Implies(z3.And(is_start, z3.Not(worker_free)), z3.And(rt >= now, rt < tmo)),
        # ... and it honours the period when the scheduler is not late
        "next_sched.period_honoured": z3.Implies(z3.And(is_start, z3.Not(worker_free), freq >= 0, last + freq >= now), rt >= last + freq),
        "next_sched.late_or_aperiodic_is_strictly_later": z3.Implies(z3.And(is_start, z3.Not(worker_free), z3.Or(freq < 0, last + freq < now)), rt >= now + 1),
    }


Contract(
    "simulator.Simulator.__get_next_scheduler_event",
    params={"self": Simulator.ty, "event": S_.Event.ty, "scheduler_frequency": ETy, "last_scheduler_start_time": ETy, "loop_timeout": ETy},
    ret=S_.Event.ty,
    requires=_ns_requires,
    raises={"ValueError": lambda c: ev_type(c.pre, c.arg("event")) != et("SCHEDULER_FINISHED")},
    may_raise=("AttributeError", "RuntimeError"),
    raise_unchanged=False,
    modifies=lambda c: {c.pre.fld_arr(SIM, "_next_scheduler_event")[0]: [c.arg("self")]},
    drops=("remaining_times = []", "for task in running_tasks:"),
    opaque={
        "min(map(itemgetter(2), remaining_times)": ETy,
        "all((task.state in (TaskState.RUNNING, TaskState.SCHEDULED)": T.BOOL,
        "self._worker_pools.is_full()": T.BOOL,
        "all((len(worker.get_compatible_strategies(": T.BOOL,
    },
    locals={"running_tasks": TaskList},
    ensures=_ns_ens,
    entry_facts=lambda c: [closed_queue(c)],
    allocates=True,
    note="dropped (side-effect free, only feed the opaque estimate and debug logging): the loop that collects (name, start, completion) triples of the resident / planned tasks; opaque (pure, outside the subset): min over those triples, `all(state in (RUNNING, SCHEDULED))`, WorkerPools.is_full(), the nested `all(len(get_compatible_strategies(..)) == 0 ...)` test",
    tier="thorough",
    max_paths=4000,
    props=P05,
)
