"""Task lifecycle contracts (C06 state machine, C02 start guards, C03 stepping) and EventTime.fuzz."""
import z3

from pyvc import ty as T
from pyvc import heap as H
from pyvc.registry import ANY, Contract, Loop, lemma, scan, assumption, observation
from contracts.c_utils import us, ETy, OptET, t_time, t_unit, factor, mk, UNIT
from contracts import shapes as S

TASK = "workload.tasks.Task"
TS = S.TaskState.ty


def st(name):
    return z3.IntVal(TS.ordinal(name))


VIRTUAL, RELEASED, SCHEDULED, RUNNING, PREEMPTED, EVICTED, COMPLETED, CANCELLED = [st(n) for n in ("VIRTUAL", "RELEASED", "SCHEDULED", "RUNNING", "PREEMPTED", "EVICTED", "COMPLETED", "CANCELLED")]


def fld(c, name, when="post", obj=None):
    return c.f(c.arg("self") if obj is None else obj, TASK, name, when)


def state(c, when="post"):
    return fld(c, "_state", when)


def some(opt_z):
    return z3.Not(T.opt_is_none(OptET, opt_z))


def get(opt_z):
    return T.opt_get(OptET, opt_z)


def trans(s, s2):
    """Allowed lifecycle moves, written from the statement of C06 (+ the repository's PREEMPTED /
    EVICTED extras): forward along VIRTUAL->RELEASED->SCHEDULED->RUNNING->COMPLETED, scheduled ahead of
    release, fall back from SCHEDULED to the earlier state, cancel only before running."""
    return z3.Or(
        z3.And(s == VIRTUAL, z3.Or(s2 == RELEASED, s2 == SCHEDULED, s2 == CANCELLED)),
        z3.And(s == RELEASED, z3.Or(s2 == SCHEDULED, s2 == CANCELLED)),
        z3.And(s == SCHEDULED, z3.Or(s2 == RUNNING, s2 == VIRTUAL, s2 == RELEASED, s2 == CANCELLED, s2 == SCHEDULED)),
        z3.And(s == RUNNING, z3.Or(s2 == COMPLETED, s2 == PREEMPTED, s2 == EVICTED)),
        z3.And(s == PREEMPTED, z3.Or(s2 == RUNNING, s2 == SCHEDULED, s2 == EVICTED, s2 == COMPLETED)),
    )


def wf_task(h, t):
    """Representation invariant of a Task used by the method contracts."""
    s = h.rd(t, TASK, "_state")[1]
    rem = h.rd(t, TASK, "_remaining_time")[1]
    last = h.rd(t, TASK, "_last_step_time")[1]
    pre = h.rd(t, TASK, "_pre_scheduling_state")[1]
    return z3.And(
        z3.Implies(z3.Or(s == SCHEDULED, s == RUNNING, s == PREEMPTED, s == EVICTED), z3.And(some(rem), us(get(rem)) >= 0)),
        z3.Implies(s == RUNNING, some(last)),
        z3.Or(pre == VIRTUAL, pre == RELEASED),
    )


def task_mod(*fields):
    def m(c):
        out = {}
        for f in fields:
            name, _, _ = c.pre.fld_arr(TASK, f)
            out[name] = [c.arg("self")]
        return out

    return m


P_LIFE = ("C06", "C02", "C03")

# TaskState order / equality are executed inline (they compare .value)
Contract("workload.tasks.TaskState.__lt__", inline=True, props=P_LIFE)
Contract("workload.tasks.TaskState.__eq__", inline=True, props=P_LIFE)
Contract("workload.placement.Placement.PlacementType.__eq__", inline=True, props=P_LIFE)
Contract("workload.placement.Placement.PlacementType.__lt__", inline=True, props=P_LIFE)
Contract("workload.placement.Placement.execution_strategy", inline=True, props=P_LIFE)
Contract("workload.tasks.Task.update_probability", inline=True, props=P_LIFE)

Contract(
    "random.Random.uniform",
    params={"a": T.REAL, "b": T.REAL},
    ret=T.REAL,
    trusted=True,
    ensures=lambda c: z3.And(c.res >= z3.If(c.arg("a") <= c.arg("b"), c.arg("a"), c.arg("b")), c.res <= z3.If(c.arg("a") <= c.arg("b"), c.arg("b"), c.arg("a"))),
    note="random.Random.uniform(a, b) returns a value between a and b (floats as reals; end-point rounding ignored)",
    props=("C03", "C19"),
)

VAR = T.Tup(T.INT, T.INT)


def _fuzz_ens(c):
    s, r = c.arg("self"), c.res
    vmin, vmax = T.tup_get(VAR, c.arg("variance"), 0), T.tup_get(VAR, c.arg("variance"), 1)
    lo, hi = T.tup_get(VAR, c.arg("bounds"), 0), T.tup_get(VAR, c.arg("bounds"), 1)
    tm = z3.ToReal(t_time(s))
    ab = lambda x: z3.If(x < 0, -x, x)
    a = tm * z3.ToReal(ab(vmin)) / 100
    b = tm * z3.ToReal(ab(vmax)) / 100
    mn, mx = z3.If(a <= b, a, b), z3.If(a <= b, b, a)
    rt = z3.ToReal(t_time(r))
    half = z3.RealVal("1/2")
    std = z3.And(vmin == 0, vmax >= 0, lo == 0, hi == 2**63 - 1, t_time(s) >= 0)
    return {
        "fuzz.unit": t_unit(r) == t_unit(s),
        "fuzz.within_bounds": z3.Implies(lo <= hi, z3.And(rt >= tm + z3.ToReal(lo) - half, rt <= tm + z3.ToReal(hi) + half)),
        "fuzz.within_variance": z3.Implies(z3.And(z3.ToReal(lo) <= mn, mx <= z3.ToReal(hi)), z3.And(rt >= tm + mn - half, rt <= tm + mx + half)),
        "fuzz.lower": z3.Implies(std, t_time(r) >= t_time(s)),
        "fuzz.zero_variance": z3.Implies(z3.And(vmin == 0, vmax == 0, lo <= 0, hi >= 0), r == s),
        # the statement of C03: within [s+r, s+r(1+v/100)] -- exact, no rounding slack
        "fuzz.upper": z3.Implies(std, rt <= tm * (1 + z3.ToReal(vmax) / 100)),
    }


Contract(
    "utils.EventTime.fuzz",
    params={"self": ETy, "variance": VAR, "bounds": VAR},
    ret=ETy,
    ensures=_fuzz_ens,
    props=("C03", "C19"),
)

# -------------------------------------------------------------------------------------------------
Contract(
    "workload.tasks.Task.is_complete",
    params={"self": S.Task.ty},
    ret=T.BOOL,
    ensures=lambda c: {"is_complete.iff": c.res == z3.Or(state(c, "pre") == EVICTED, state(c, "pre") == COMPLETED)},
    props=P_LIFE + ("C18",),
)

Contract(
    "workload.tasks.Task.update_remaining_time",
    params={"self": S.Task.ty, "time": ETy},
    raises={"ValueError": lambda c: z3.Or(state(c, "pre") == EVICTED, state(c, "pre") == COMPLETED, us(c.arg("time")) < 0)},
    modifies=task_mod("_remaining_time"),
    ensures=lambda c: {"update_remaining.post": z3.And(some(fld(c, "_remaining_time")), get(fld(c, "_remaining_time")) == c.arg("time"))},
    props=P_LIFE,
)


def _release_raises(c):
    s = state(c, "pre")
    tnone = T.opt_is_none(OptET, c.arg("time"))
    return z3.Or(z3.And(tnone, t_time(fld(c, "_release_time", "pre")) == -1), z3.Not(z3.Or(s == VIRTUAL, s == SCHEDULED, s == PREEMPTED)))


def _release_ens(c):
    s, s2 = state(c, "pre"), state(c)
    tm = c.arg("time")
    return {
        "release.time": z3.If(some(tm), fld(c, "_release_time") == get(tm), fld(c, "_release_time") == fld(c, "_release_time", "pre")),
        "release.state": s2 == z3.If(s == VIRTUAL, RELEASED, s),
        "release.pre_scheduling": fld(c, "_pre_scheduling_state") == z3.If(s == VIRTUAL, RELEASED, fld(c, "_pre_scheduling_state", "pre")),
        "release.within_trans": z3.Or(s2 == s, trans(s, s2)),
        "wf.preserved": z3.Implies(wf_task(c.pre, c.arg("self")), wf_task(c.post, c.arg("self"))),
    }


Contract(
    "workload.tasks.Task.release",
    params={"self": S.Task.ty, "time": OptET},
    raises={"ValueError": _release_raises},
    modifies=task_mod("_release_time", "_state", "_pre_scheduling_state"),
    ensures=_release_ens,
    props=P_LIFE,
)

PL = "workload.placement.Placement"
STRAT = "workload.strategy.ExecutionStrategy"


def _sched_requires(c):
    p = c.arg("placement")
    strat = c.pre.rd(p, PL, "_strategy")[1]
    return {
        "placement_is_PLACE_TASK": c.pre.rd(p, PL, "_placement_type")[1] == S.PlacementType.ty.ordinal("PLACE_TASK"),
        "strategy_present": strat != 0,
        "runtime_nonneg": us(c.pre.rd(strat, STRAT, "_runtime")[1]) >= 0,
    }


def _sched_ens(c):
    s, s2 = state(c, "pre"), state(c)
    p = c.arg("placement")
    strat = c.pre.rd(p, PL, "_strategy")[1]
    return {
        "schedule.state": s2 == SCHEDULED,
        "schedule.within_trans": trans(s, s2),
        "schedule.records": z3.And(
            fld(c, "_scheduler_placement") == p,
            fld(c, "_scheduling_time") == T.opt_some(OptET, c.arg("time")),
            fld(c, "_worker_pool_id") == c.pre.rd(p, PL, "_worker_pool_id")[1],
            some(fld(c, "_remaining_time")),
            get(fld(c, "_remaining_time")) == c.pre.rd(strat, STRAT, "_runtime")[1],
        ),
        # the state to fall back to is only ever VIRTUAL or RELEASED, and is not touched here
        "schedule.keeps_fallback": fld(c, "_pre_scheduling_state") == fld(c, "_pre_scheduling_state", "pre"),
        "wf.preserved": z3.Implies(wf_task(c.pre, c.arg("self")), wf_task(c.post, c.arg("self"))),
    }


Contract(
    "workload.tasks.Task.schedule",
    params={"self": S.Task.ty, "time": ETy, "placement": S.Placement.ty},
    requires=_sched_requires,
    raises={"ValueError": lambda c: z3.Not(z3.Or(state(c, "pre") == VIRTUAL, state(c, "pre") == RELEASED, state(c, "pre") == PREEMPTED, state(c, "pre") == SCHEDULED))},
    modifies=task_mod("_state", "_scheduling_time", "_scheduler_placement", "_worker_pool_id", "_remaining_time"),
    ensures=_sched_ens,
    props=P_LIFE,
)

Contract(
    "workload.tasks.Task.unschedule",
    params={"self": S.Task.ty, "time": ETy},
    requires=lambda c: {"wf": wf_task(c.pre, c.arg("self"))},
    raises={"ValueError": lambda c: state(c, "pre") != SCHEDULED},
    modifies=task_mod("_state", "_scheduling_time", "_scheduler_placement", "_worker_pool_id"),
    ensures=lambda c: {
        "unschedule.fallback": z3.And(state(c) == fld(c, "_pre_scheduling_state", "pre"), z3.Or(state(c) == VIRTUAL, state(c) == RELEASED)),
        "unschedule.within_trans": trans(state(c, "pre"), state(c)),
        "unschedule.clears": z3.And(fld(c, "_scheduler_placement") == 0, T.opt_is_none(OptET, fld(c, "_scheduling_time")), T.opt_is_none(S.OptSTR, fld(c, "_worker_pool_id"))),
        "wf.preserved": wf_task(c.post, c.arg("self")),
    },
    props=P_LIFE,
)


def _start_raises_value(c):
    tnone = T.opt_is_none(OptET, c.arg("time"))
    st0 = fld(c, "_start_time", "pre")
    return z3.Or(state(c, "pre") != SCHEDULED, z3.And(tnone, t_time(st0) * factor(t_unit(st0)) == -1))


def _new_start(c):
    return z3.If(some(c.arg("time")), get(c.arg("time")), fld(c, "_start_time", "pre"))


def _start_ens(c):
    rem0 = get(fld(c, "_remaining_time", "pre"))
    rem1 = get(fld(c, "_remaining_time"))
    return {
        "start.state": state(c) == RUNNING,
        "start.within_trans": trans(state(c, "pre"), state(c)),
        "start.time_recorded": fld(c, "_start_time") == _new_start(c),
        "start.after_release": us(fld(c, "_start_time")) >= us(fld(c, "_release_time")),
        "start.last_step": fld(c, "_last_step_time") == c.arg("time"),
        "start.remaining_exact_without_variance": z3.Implies(c.arg("variance") == 0, z3.And(some(fld(c, "_remaining_time")), rem1 == rem0)),
        "start.remaining_at_least_runtime": z3.Implies(c.arg("variance") >= 0, z3.And(some(fld(c, "_remaining_time")), us(rem1) >= us(rem0), t_unit(rem1) == t_unit(rem0))),
        "start.remaining_within_variance_rounded": z3.Implies(
            c.arg("variance") >= 0, z3.ToReal(t_time(rem1)) <= z3.ToReal(t_time(rem0)) * (1 + z3.ToReal(c.arg("variance")) / 100) + z3.RealVal("1/2")
        ),
        "wf.preserved": z3.Implies(some(c.arg("time")), wf_task(c.post, c.arg("self"))),
    }


Contract(
    "workload.tasks.Task.start",
    params={"self": S.Task.ty, "time": OptET, "variance": T.INT},
    requires=lambda c: {"wf": wf_task(c.pre, c.arg("self")), "variance_nonneg": c.arg("variance") >= 0},
    raises={
        "ValueError": _start_raises_value,
        # the executable guard `assert start_time >= release_time`
        "AssertionError": lambda c: z3.And(z3.Not(_start_raises_value(c)), us(_new_start(c)) < us(fld(c, "_release_time", "pre"))),
    },
    raise_unchanged=("ValueError",),
    modifies=task_mod("_start_time", "_last_step_time", "_state", "_remaining_time"),
    ensures=_start_ens,
    props=P_LIFE,
)


def _step_ens(c):
    rem0 = get(fld(c, "_remaining_time", "pre"))
    now, d = c.arg("current_time"), c.arg("step_size")
    last0 = get(fld(c, "_last_step_time", "pre"))
    running = z3.And(state(c, "pre") == RUNNING, us(fld(c, "_start_time", "pre")) <= us(now) + us(d))
    active = z3.And(running, us(rem0) != 0)
    exec_t = us(now) + us(d) - us(last0)
    fin = z3.And(active, us(rem0) - exec_t <= 0)
    rem1 = fld(c, "_remaining_time")
    last1 = fld(c, "_last_step_time")
    return {
        "step.finished_iff": c.res == fin,
        "step.state_unchanged": state(c) == state(c, "pre"),
        "step.finished_effects": z3.Implies(fin, z3.And(some(rem1), us(get(rem1)) == 0, some(last1), us(get(last1)) == us(now) + us(rem0))),
        "step.progress_effects": z3.Implies(z3.And(active, z3.Not(fin)), z3.And(some(rem1), us(get(rem1)) == us(rem0) - exec_t, some(last1), us(get(last1)) == us(now) + us(d))),
        "step.idle_unchanged": z3.Implies(z3.Not(active), z3.And(rem1 == fld(c, "_remaining_time", "pre"), last1 == fld(c, "_last_step_time", "pre"))),
        # C03 under the simulator's invariant last_step_time == now: finished <=> 0 < remaining <= d
        "step.finish_exactly_at_remaining": z3.Implies(z3.And(running, us(last0) == us(now)), c.res == z3.And(us(rem0) > 0, us(rem0) <= us(d))),
        "wf.preserved": wf_task(c.post, c.arg("self")),
    }


Contract(
    "workload.tasks.Task.step",
    params={"self": S.Task.ty, "current_time": ETy, "step_size": ETy},
    ret=T.BOOL,
    requires=lambda c: {"wf": wf_task(c.pre, c.arg("self")), "step_nonneg": us(c.arg("step_size")) >= 0},
    modifies=task_mod("_remaining_time", "_last_step_time"),
    ensures=_step_ens,
    props=("C03", "C06", "C05"),
)

PRE = "workload.tasks.Task.Preemption"
Contract(
    "workload.tasks.Task.Preemption.__init__",
    params={"self": S.Preemption.ty, "preemption_time": ETy, "old_worker_pool": S.OptSTR},
    modifies=lambda c: {c.pre.fld_arr(PRE, f)[0]: [c.arg("self")] for f in ("preemption_time", "old_worker_pool", "restart_time", "new_worker_pool")},
    ensures=lambda c: z3.And(
        c.f(c.arg("self"), PRE, "preemption_time") == c.arg("preemption_time"),
        c.f(c.arg("self"), PRE, "old_worker_pool") == c.arg("old_worker_pool"),
        T.opt_is_none(OptET, c.f(c.arg("self"), PRE, "restart_time")),
        T.opt_is_none(S.OptSTR, c.f(c.arg("self"), PRE, "new_worker_pool")),
    ),
    props=("C06",),
)

PLIST = T.List(T.Ref(PRE))


def _preempt_mod(c):
    m = task_mod("_state", "_worker_pool_id")(c)
    lst = c.pre.rd(c.arg("self"), TASK, "_preemptions")[1]
    m[c.pre.carr(PLIST, "len")[0]] = [lst]
    m[c.pre.carr(PLIST, "elem")[0]] = [lst]
    return m


Contract(
    "workload.tasks.Task.preempt",
    params={"self": S.Task.ty, "time": ETy},
    raises={"ValueError": lambda c: state(c, "pre") != RUNNING},
    modifies=_preempt_mod,
    ensures=lambda c: {
        "preempt.state": state(c) == PREEMPTED,
        "preempt.within_trans": trans(state(c, "pre"), state(c)),
        "preempt.logged": c.post.c_len(PLIST, fld(c, "_preemptions", "pre")) == c.pre.c_len(PLIST, fld(c, "_preemptions", "pre")) + 1,
        "wf.preserved": z3.Implies(wf_task(c.pre, c.arg("self")), wf_task(c.post, c.arg("self"))),
    },
    props=("C06",),
)


def _resume_mod(c):
    m = task_mod("_state", "_worker_pool_id", "_last_step_time")(c)
    for f in ("restart_time", "new_worker_pool"):
        m[c.pre.fld_arr(PRE, f)[0]] = ANY
    return m


Contract(
    "workload.tasks.Task.resume",
    params={"self": S.Task.ty, "time": ETy, "worker_pool_id": S.OptSTR},
    requires=lambda c: {"has_preemption": c.pre.c_len(PLIST, fld(c, "_preemptions", "pre")) > 0},
    raises={"ValueError": lambda c: state(c, "pre") != PREEMPTED},
    modifies=_resume_mod,
    ensures=lambda c: {
        "resume.state": state(c) == RUNNING,
        "resume.within_trans": trans(state(c, "pre"), state(c)),
        "resume.last_step": fld(c, "_last_step_time") == T.opt_some(OptET, c.arg("time")),
        "wf.preserved": z3.Implies(wf_task(c.pre, c.arg("self")), wf_task(c.post, c.arg("self"))),
    },
    props=("C06",),
)


def _finish_ens(c):
    rem0 = fld(c, "_remaining_time", "pre")
    done = z3.And(some(rem0), us(get(rem0)) == 0)
    tm = c.arg("time")
    return {
        "finish.state": state(c) == z3.If(done, COMPLETED, EVICTED),
        "finish.within_trans": trans(state(c, "pre"), state(c)),
        "finish.completion_time": fld(c, "_completion_time") == z3.If(some(tm), get(tm), get(fld(c, "_last_step_time", "pre"))),
        "finish.leaves_pool": T.opt_is_none(S.OptSTR, fld(c, "_worker_pool_id")),
        "wf.preserved": wf_task(c.post, c.arg("self")),
    }


Contract(
    "workload.tasks.Task.finish",
    params={"self": S.Task.ty, "time": OptET},
    requires=lambda c: {"wf": wf_task(c.pre, c.arg("self")), "time_or_last_step": z3.Or(some(c.arg("time")), some(fld(c, "_last_step_time", "pre")))},
    raises={"ValueError": lambda c: z3.Not(z3.Or(state(c, "pre") == RUNNING, state(c, "pre") == PREEMPTED))},
    modifies=task_mod("_completion_time", "_state", "_worker_pool_id"),
    ensures=_finish_ens,
    props=P_LIFE,
)

Contract(
    "workload.tasks.Task.cancel",
    params={"self": S.Task.ty, "time": ETy},
    raises={"ValueError": lambda c: z3.Not(z3.Or(state(c, "pre") == VIRTUAL, state(c, "pre") == RELEASED, state(c, "pre") == SCHEDULED))},
    modifies=task_mod("_cancellation_time", "_probability", "_remaining_time", "_state"),
    ensures=lambda c: {
        "cancel.state": state(c) == CANCELLED,
        "cancel.only_before_run": z3.And(trans(state(c, "pre"), state(c)), state(c, "pre") != RUNNING, state(c, "pre") != PREEMPTED),
        "cancel.records": z3.And(fld(c, "_cancellation_time") == T.opt_some(OptET, c.arg("time")), fld(c, "_probability") == 0, some(fld(c, "_remaining_time")), us(get(fld(c, "_remaining_time"))) == 0),
        "wf.preserved": z3.Implies(wf_task(c.pre, c.arg("self")), wf_task(c.post, c.arg("self"))),
    },
    props=P_LIFE + ("C07",),
)


# -------------------------------------------------------------------------------------------------
@lemma("C06")
def lifecycle_lemmas():
    s, s2, s3 = z3.Ints("s s2 s3")
    rng = [z3.And(x >= 0, x < 8) for x in (s, s2, s3)]
    return [
        # no method contract lets a task leave COMPLETED / CANCELLED: trans has no edge out of them
        ("final.completed", rng + [s == COMPLETED], z3.Not(trans(s, s2))),
        ("final.cancelled", rng + [s == CANCELLED], z3.Not(trans(s, s2))),
        ("final.evicted", rng + [s == EVICTED], z3.Not(trans(s, s2))),
        # cancellation only before running
        ("cancel.only_from_pre_run_states", rng + [trans(s, s2), s2 == CANCELLED], z3.Or(s == VIRTUAL, s == RELEASED, s == SCHEDULED)),
        # RUNNING is entered only from SCHEDULED (start) or PREEMPTED (resume): a non-preempted task starts at most once
        ("running.entered_only_from_scheduled_or_preempted", rng + [trans(s, s2), s2 == RUNNING], z3.Or(s == SCHEDULED, s == PREEMPTED)),
        # after RUNNING, SCHEDULED is reachable again only through PREEMPTED
        ("no_restart_without_preemption", rng + [s == RUNNING, trans(s, s2), s2 != PREEMPTED, trans(s2, s3)], z3.BoolVal(False)),
        ("completed.only_from_running_or_preempted", rng + [trans(s, s2), s2 == COMPLETED], z3.Or(s == RUNNING, s == PREEMPTED)),
    ]


@scan("C06", "C02")
def scan_state_writers():
    """`_state` is written only inside Task methods; Task.start/finish are called only by the simulator
    handlers (and by schedulers on copies they own -- listed)."""
    import ast, os
    from pyvc.registry import REPO

    writers = []
    starters = []
    for root, _, files in os.walk(REPO):
        if any(p in root for p in ("/tests", "/scripts", "/.git", "/schedulers/tetrisched", "/experiments", "/rpc")):
            continue  # rpc/ is the gRPC service front-end, a separate entry point, not the simulator
        for fn in files:
            if not fn.endswith(".py"):
                continue
            path = os.path.join(root, fn)
            rel = os.path.relpath(path, REPO)
            try:
                tree = ast.parse(open(path).read())
            except SyntaxError:
                continue
            for cls in [n for n in ast.walk(tree) if isinstance(n, ast.ClassDef)] + [tree]:
                for n in ast.walk(cls) if cls is not tree else []:
                    tg = []
                    if isinstance(n, ast.Assign):
                        tg = n.targets
                    elif isinstance(n, (ast.AugAssign, ast.AnnAssign)):
                        tg = [n.target]
                    for t in tg:
                        if isinstance(t, ast.Attribute) and t.attr in ("_state", "_pre_scheduling_state"):
                            writers.append((rel, cls.name, n.lineno))
            for n in ast.walk(tree):
                if isinstance(n, ast.Call) and isinstance(n.func, ast.Attribute) and n.func.attr in ("start", "finish") and rel not in ("workload/tasks.py",):
                    txt = ast.unparse(n.func.value)
                    if "task" in txt.lower() and "graph" not in txt.lower():
                        starters.append((rel, n.lineno, ast.unparse(n)[:60]))
    writers = sorted(set(writers))
    bad = [w for w in writers if not (w[0] == "workload/tasks.py" and w[1] == "Task")]
    starters = sorted(set(starters))
    bad_s = [s_ for s_ in starters if s_[0] != "simulator.py"]
    return [
        ("state.written_only_in_Task", not bad and len(writers) > 0, "writers of _state/_pre_scheduling_state: %s" % (writers,)),
        ("start_finish.called_only_by_simulator", not bad_s and len(starters) > 0, "callers of task.start/finish outside tasks.py: %s" % (starters,)),
    ]


assumption("C06", "distinct Task objects have distinct ids (128-bit ids from the seeded generator): Task keys of dicts are compared by identity")
assumption("C03", "EventTime.fuzz: floats as reals; random.Random.uniform returns a value between its arguments")
