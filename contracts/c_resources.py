"""C04 (ledger conservation) contracts on workload.resource.Resource / workload.resources.Resources."""
import z3

from pyvc import ty as T
from pyvc import heap as H
from pyvc.engine import Fact, Step
from pyvc.registry import ANY, Contract, Loop, lemma, scan, assumption, observation
from contracts import shapes as S_
from contracts import sums as Σ
from contracts.sums import S, Hs, matches, RES, ENT, RS, ES, e_key, e_qty

RESOURCES = "workload.resources.Resources"
RV = S_.ResVec
AM = S_.AllocMap
AL = S_.AllocList
P04 = ("C04", "C01")
I = z3.IntSort()


def F(name, z):
    return Fact(name, z)


# ---- views -----------------------------------------------------------------------------------------
def rv(h, r):
    return h.rd(r, RESOURCES, "_resource_vector")[1]


def tot(h, r):
    return h.rd(r, RESOURCES, "_Resources__total_resources")[1]


def am(h, r):
    return h.rd(r, RESOURCES, "_current_allocations")[1]


def K(h, d):
    return h.d_keys(RV, d)


def V(h, d):
    return h.d_vals(RV, d)


def N(h, d):
    return h.c_len(RV, d)


def avail_sum(h, r, res):
    d = rv(h, r)
    return S(K(h, d), V(h, d), res, N(h, d))


def total_sum(h, r, res):
    d = tot(h, r)
    return S(K(h, d), V(h, d), res, N(h, d))


def held(h, r, comp, k):
    """quantity of exact key k recorded for computation comp (0 when comp holds nothing)"""
    m = am(h, r)
    lst = h.d_val(AM, m, comp)
    return z3.If(h.d_dom(AM, m, comp), Hs(h.l_elems(AL, lst), k, h.c_len(AL, lst)), 0)


def nonneg_vals(h, d):
    j = z3.Int(H.fresh_name("nn_j"))
    return z3.ForAll([j], z3.Implies(z3.And(0 <= j, j < N(h, d)), z3.Select(V(h, d), z3.Select(K(h, d), j)) >= 0), patterns=[z3.Select(K(h, d), j)])


def wf_resources(h, r):
    """Representation invariant of a Resources object (the part the operation contracts rely on)."""
    d, t, m = rv(h, r), tot(h, r), am(h, r)
    x = z3.Int(H.fresh_name("wf_x"))
    y = z3.Int(H.fresh_name("wf_y"))
    j = z3.Int(H.fresh_name("wf_j"))
    lst = lambda c: h.d_val(AM, m, c)
    return z3.And(
        d != t,
        nonneg_vals(h, d),
        # every allocation list is a distinct, allocated list object; entries are non-negative and name keys of the vector
        z3.ForAll([x], z3.Implies(h.d_dom(AM, m, x), lst(x) > 0), patterns=[h.d_dom(AM, m, x)]),
        z3.ForAll([x, y], z3.Implies(z3.And(h.d_dom(AM, m, x), h.d_dom(AM, m, y), x != y), lst(x) != lst(y)), patterns=[z3.MultiPattern(h.d_dom(AM, m, x), h.d_dom(AM, m, y))]),
        z3.ForAll(
            [x, j],
            z3.Implies(
                z3.And(h.d_dom(AM, m, x), 0 <= j, j < h.c_len(AL, lst(x))),
                z3.And(e_qty(h.l_elem(AL, lst(x), j)) >= 0, h.d_dom(RV, d, e_key(h.l_elem(AL, lst(x), j)))),
            ),
            patterns=[h.l_elem(AL, lst(x), j)],
        ),
    )


# ---- Resource ------------------------------------------------------------------------------------------
Contract(
    "workload.resource.Resource.__eq__",
    params={"self": RES, "other": RES},
    ret=T.BOOL,
    ensures=lambda c: {"resource.eq.matches": c.res == matches(c.arg("self"), c.arg("other"))},
    props=P04,
)
Contract(
    "workload.resource.Resource.__copy__",
    params={"self": RES},
    ret=RES,
    trusted=True,
    ensures=lambda c: c.res == c.arg("self"),
    note="Resource.__copy__ builds a new instance via cls.__new__ and copies name and _id (draws 128 random bits it then discards); as a value it equals the original",
    props=P04,
)


# ---- getters ---------------------------------------------------------------------------------------------
def _sum_loop(dict_of):
    """invariant of `for k, q in <dict>.items(): if k == resource: acc += q`"""

    def inv(c, L):
        d = dict_of(c.pre, c.arg("self"))
        acc = [n for n in ("resource_quantity", "total_quantity") if L.has(n)][0]
        return {"acc_is_prefix_sum": L.var(acc) == S(K(c.pre, d), V(c.pre, d), c.arg("resource"), L.i)}

    def lem(c, L, phase):
        d = dict_of(c.pre, c.arg("self"))
        if phase == "start":
            return [F("sum.S.axiom", Σ.ax_S_at(K(c.pre, d), V(c.pre, d), c.arg("resource"), L.i))]
        return []

    return Loop(inv=inv, lemmas=lem)


def _sum_entry(dict_of):
    def ef(c):
        d = dict_of(c.pre, c.arg("self"))
        return [F("sum.S.axiom", Σ.ax_S(K(c.pre, d), V(c.pre, d), c.arg("resource"))[0])]

    return ef


Contract(
    "workload.resources.Resources.get_available_quantity",
    params={"self": S_.Resources.ty, "resource": RES},
    ret=T.INT,
    ensures=lambda c: {"available.is_sum": c.res == avail_sum(c.pre, c.arg("self"), c.arg("resource"))},
    loops={0: _sum_loop(rv)},
    entry_facts=_sum_entry(rv),
    props=P04,
)
Contract(
    "workload.resources.Resources.get_total_quantity",
    params={"self": S_.Resources.ty, "resource": RES},
    ret=T.INT,
    ensures=lambda c: {"total.is_sum": c.res == total_sum(c.pre, c.arg("self"), c.arg("resource"))},
    loops={0: _sum_loop(tot)},
    entry_facts=_sum_entry(tot),
    props=P04,
)
Contract(
    "workload.resources.Resources.get_allocated_quantity",
    params={"self": S_.Resources.ty, "resource": RES},
    ret=T.INT,
    ensures=lambda c: {"allocated.is_total_minus_available": c.res == total_sum(c.pre, c.arg("self"), c.arg("resource")) - avail_sum(c.pre, c.arg("self"), c.arg("resource"))},
    props=P04,
)


# ---- allocate -------------------------------------------------------------------------------------------
def _alloc_names(c):
    self_ = c.arg("self")
    d, m = rv(c.pre, self_), am(c.pre, self_)
    comp = c.arg("computation")
    lst0 = z3.If(c.pre.d_dom(AM, m, comp), c.pre.d_val(AM, m, comp), 0)
    return self_, d, m, comp, lst0


def _alloc_mod(c):
    self_, d, m, comp, lst0 = _alloc_names(c)
    out = {c.pre.carr(RV, "val")[0]: [d]}
    for part in ("len", "keys", "idx", "dom", "val"):
        out[c.pre.carr(AM, part)[0]] = [m]
    for part in ("len", "elem"):
        out[c.pre.carr(AL, part)[0]] = [lst0]
    return out


def _am_frame(c, h):
    """the allocation map changed at most at `computation` (which may have been added with a fresh list)"""
    self_, d, m, comp, lst0 = _alloc_names(c)
    x = z3.Int(H.fresh_name("amf_x"))
    return z3.And(
        z3.ForAll(
            [x],
            z3.Implies(x != comp, z3.And(h.d_dom(AM, m, x) == c.pre.d_dom(AM, m, x), h.d_val(AM, m, x) == c.pre.d_val(AM, m, x))),
            patterns=[h.d_dom(AM, m, x), h.d_val(AM, m, x)],
        ),
        z3.Implies(c.pre.d_dom(AM, m, comp), z3.And(h.d_dom(AM, m, comp), h.d_val(AM, m, comp) == c.pre.d_val(AM, m, comp))),
        z3.Implies(z3.And(z3.Not(c.pre.d_dom(AM, m, comp)), h.d_dom(AM, m, comp)), h.d_val(AM, m, comp) >= c.alloc0),
    )


def _held_rel(c, h, Vnow):
    self_, d, m, comp, lst0 = _alloc_names(c)
    k = z3.Const(H.fresh_name("hr_k"), RS)
    V0 = V(c.pre, d)
    return z3.ForAll([k], held(h, self_, comp, k) == held(c.pre, self_, comp, k) + z3.Select(V0, k) - z3.Select(Vnow, k))


def _alloc_inv(c, L):
    self_, d, m, comp, lst0 = _alloc_names(c)
    h = c.post  # current state at the loop head
    K0, V0, n = K(c.pre, d), V(c.pre, d), N(c.pre, d)
    Vn = V(h, d)
    r, q = c.arg("resource"), c.arg("quantity")
    rem = L.var("remaining_quantity")
    k = z3.Const(H.fresh_name("ai_k"), RS)
    dom, idx = c.pre.d_doms(RV, d), z3.Select(c.pre.carr(RV, "idx")[1], d)
    return {
        "remaining": rem == q - S(K0, V0, r, L.i),
        "sumrel": S(K0, Vn, r, n) == S(K0, V0, r, n) - (q - rem),
        "closed_form": z3.ForAll([k], z3.Select(Vn, k) == z3.If(z3.And(z3.Select(dom, k), z3.Select(idx, k) < L.i, matches(k, r)), 0, z3.Select(V0, k)), patterns=[z3.Select(Vn, k)]),
        "positive": z3.And(rem >= 0, z3.Implies(L.i > 0, rem > 0)),
        "held": _held_rel(c, h, Vn),
        "am_frame": _am_frame(c, h),
        "wf": wf_resources(h, self_),
        "recorded": z3.Implies(rem < q, h.d_dom(AM, m, comp)),
    }


def closed_alloc_map(c):
    """heap closedness: every list stored in the pre-state allocation map was allocated before entry"""
    self_ = c.arg("self")
    m = am(c.pre, self_)
    x = z3.Int(H.fresh_name("cl_x"))
    return F("heap.closed", z3.ForAll([x], z3.Implies(c.pre.d_dom(AM, m, x), z3.And(c.pre.d_val(AM, m, x) > 0, c.pre.d_val(AM, m, x) < c.alloc0)), patterns=[c.pre.d_val(AM, m, x)]))


def closed_alloc_map_of(c, r):
    """heap closedness for the maps of a Resources object r"""
    m = am(c.pre, r)
    x = z3.Int(H.fresh_name("cl_x"))
    return F(
        "heap.closed",
        z3.And(
            rv(c.pre, r) < c.alloc0,
            tot(c.pre, r) < c.alloc0,
            m < c.alloc0,
            z3.ForAll([x], z3.Implies(c.pre.d_dom(AM, m, x), z3.And(c.pre.d_val(AM, m, x) > 0, c.pre.d_val(AM, m, x) < c.alloc0)), patterns=[c.pre.d_val(AM, m, x)]),
        ),
    )


def _list_now(c, h):
    self_, d, m, comp, lst0 = _alloc_names(c)
    return h.d_val(AM, m, comp)


def _alloc_lemmas(c, L, phase):
    self_, d, m, comp, lst0 = _alloc_names(c)
    K0, V0, n = K(c.pre, d), V(c.pre, d), N(c.pre, d)
    r = c.arg("resource")
    out = []
    if phase == "start":
        out.append(F("sum.S.axiom", Σ.ax_S_at(K0, V0, r, L.i)))
        out.append(F("sum.S.axiom", Σ.ax_S(K0, V0, r)[0]))
    if phase in ("end", "break"):
        hi, hn = L.iter_heap, c.post
        Vi, Vn = V(hi, d), V(hn, d)
        out.append(F("sum.S.point", Σ.lem_S_point(K0, Vi, Vn, r, n, L.i)))
        out.append(F("sum.S.frame", Σ.lem_S_frame(K0, Vi, Vn, r, n)))
        lst = _list_now(c, hn)
        En = hn.l_elems(AL, lst)
        Ei = hi.l_elems(AL, lst)
        len_before = z3.If(hi.d_dom(AM, m, comp), hi.c_len(AL, lst), 0)
        k = z3.Const(H.fresh_name("al_k"), RS)
        out.append(F("sum.H.axiom", z3.ForAll([k], Hs(En, k, 0) == 0)))
        out.append(F("sum.H.axiom", z3.ForAll([k], Hs(Ei, k, 0) == 0)))
        out.append(F("sum.H.frame", z3.ForAll([k], Σ.lem_Hs_frame(Ei, En, k, len_before))))
        out.append(F("sum.H.axiom", z3.ForAll([k], Σ.ax_Hs_at(En, k, len_before))))
    return out


def _alloc_ens(c):
    self_, d, m, comp, lst0 = _alloc_names(c)
    K0, V0, n = K(c.pre, d), V(c.pre, d), N(c.pre, d)
    V1 = V(c.post, d)
    r, q = c.arg("resource"), c.arg("quantity")
    k = z3.Const(H.fresh_name("ae_k"), RS)
    return {
        "allocate.drained_total": S(K0, V1, r, n) == S(K0, V0, r, n) - q,
        "allocate.others_untouched": z3.ForAll([k], z3.Implies(z3.Not(matches(k, r)), z3.Select(V1, k) == z3.Select(V0, k))),
        "allocate.monotone": z3.ForAll([k], z3.Implies(c.pre.d_dom(RV, d, k), z3.And(0 <= z3.Select(V1, k), z3.Select(V1, k) <= z3.Select(V0, k)))),
        "allocate.held_grows_by_what_was_taken": _held_rel(c, c.post, V1),
        "allocate.other_computations_untouched": _am_frame(c, c.post),
        "allocate.wf": wf_resources(c.post, self_),
        "allocate.recorded": z3.Implies(q > 0, c.post.d_dom(AM, m, comp)),
    }


Contract(
    "workload.resources.Resources.allocate",
    params={"self": S_.Resources.ty, "resource": RES, "computation": T.Ref(None), "quantity": T.INT},
    requires=lambda c: {"wf": wf_resources(c.pre, c.arg("self")), "quantity_nonneg": c.arg("quantity") >= 0, "computation_present": c.arg("computation") != 0},
    raises={"ValueError": lambda c: avail_sum(c.pre, c.arg("self"), c.arg("resource")) < c.arg("quantity")},
    modifies=_alloc_mod,
    loops={0: Loop(inv=_alloc_inv, lemmas=_alloc_lemmas)},
    entry_facts=lambda c: [F("sum.S.axiom", Σ.ax_S(K(c.pre, rv(c.pre, c.arg("self"))), V(c.pre, rv(c.pre, c.arg("self"))), c.arg("resource"))[0]), closed_alloc_map(c)],
    ensures=_alloc_ens,
    allocates=True,
    props=P04,
)


# ---- deallocate -----------------------------------------------------------------------------------------
def _dealloc_names(c):
    self_ = c.arg("self")
    d, m = rv(c.pre, self_), am(c.pre, self_)
    comp = c.arg("computation")
    lst = c.pre.d_val(AM, m, comp)
    return self_, d, m, comp, lst


def _dealloc_mod(c):
    self_, d, m, comp, lst = _dealloc_names(c)
    out = {c.pre.carr(RV, "val")[0]: [d]}
    for part in ("len", "keys", "idx", "dom"):
        out[c.pre.carr(AM, part)[0]] = [m]
    return out


def _dealloc_inv(c, L):
    self_, d, m, comp, lst = _dealloc_names(c)
    E = c.pre.l_elems(AL, lst)
    k = z3.Const(H.fresh_name("di_k"), RS)
    return {"returned_prefix": z3.ForAll([k], z3.Select(V(c.post, d), k) == z3.Select(V(c.pre, d), k) + Hs(E, k, L.i), patterns=[z3.Select(V(c.post, d), k)])}


def _dealloc_lemmas(c, L, phase):
    self_, d, m, comp, lst = _dealloc_names(c)
    E = c.pre.l_elems(AL, lst)
    k = z3.Const(H.fresh_name("dl_k"), RS)
    if phase == "start":
        return [F("sum.H.axiom", z3.ForAll([k], Σ.ax_Hs_at(E, k, L.i)))]
    return []


def _dealloc_ens(c):
    self_, d, m, comp, lst = _dealloc_names(c)
    k = z3.Const(H.fresh_name("de_k"), RS)
    x = z3.Int(H.fresh_name("de_x"))
    return {
        "dealloc.returns_exactly": z3.ForAll([k], z3.Select(V(c.post, d), k) == z3.Select(V(c.pre, d), k) + held(c.pre, self_, comp, k)),
        "dealloc.removed": z3.Not(c.post.d_dom(AM, m, comp)),
        "dealloc.others_kept": z3.ForAll([x], z3.Implies(x != comp, z3.And(c.post.d_dom(AM, m, x) == c.pre.d_dom(AM, m, x))), patterns=[c.post.d_dom(AM, m, x)]),
        "dealloc.len": c.post.c_len(AM, m) == c.pre.c_len(AM, m) - 1,
        "dealloc.wf": wf_resources(c.post, self_),
    }


Contract(
    "workload.resources.Resources.deallocate",
    params={"self": S_.Resources.ty, "computation": T.Ref(None)},
    requires=lambda c: {"wf": wf_resources(c.pre, c.arg("self"))},
    raises={"ValueError": lambda c: z3.Not(c.pre.d_dom(AM, am(c.pre, c.arg("self")), c.arg("computation")))},
    modifies=_dealloc_mod,
    loops={0: Loop(inv=_dealloc_inv, lemmas=_dealloc_lemmas, modifies=lambda c: {c.pre.carr(RV, "val")[0]: [_dealloc_names(c)[1]]})},
    entry_facts=lambda c: [F("sum.H.axiom", z3.ForAll([z3.Const("de0_k", RS)], Hs(c.pre.l_elems(AL, _dealloc_names(c)[4]), z3.Const("de0_k", RS), 0) == 0))],
    exit_facts=lambda c: [F("sum.H.nonneg", z3.ForAll([z3.Const("dx_k", RS)], Σ.lem_Hs_nonneg(c.pre.l_elems(AL, _dealloc_names(c)[4]), z3.Const("dx_k", RS), c.pre.c_len(AL, _dealloc_names(c)[4]))))],
    ensures=_dealloc_ens,
    props=P04,
)


# ---- __gt__ : "other can be allocated from self" ------------------------------------------------------------
def fits(h, self_, hreq, req):
    """every key of the request vector `req` is available in sufficient quantity in self"""
    d2 = rv(hreq, req)
    j = z3.Int(H.fresh_name("ft_j"))
    kj = z3.Select(K(hreq, d2), j)
    return z3.ForAll([j], z3.Implies(z3.And(0 <= j, j < N(hreq, d2)), avail_sum(h, self_, kj) >= z3.Select(V(hreq, d2), kj)), patterns=[z3.Select(K(hreq, d2), j)])


def _gt_inv(c, L):
    d2 = rv(c.pre, c.arg("other"))
    j = z3.Int(H.fresh_name("gi_j"))
    kj = z3.Select(K(c.pre, d2), j)
    return {"prefix_fits": z3.ForAll([j], z3.Implies(z3.And(0 <= j, j < L.i), avail_sum(c.pre, c.arg("self"), kj) >= z3.Select(V(c.pre, d2), kj)), patterns=[z3.Select(K(c.pre, d2), j)])}


Contract(
    "workload.resources.Resources.__gt__",
    params={"self": S_.Resources.ty, "other": S_.Resources.ty},
    ret=T.BOOL,
    loops={0: Loop(inv=_gt_inv)},
    ensures=lambda c: {"gt.iff_fits": c.res == fits(c.pre, c.arg("self"), c.pre, c.arg("other"))},
    props=P04 + ("C13", "C10"),
)


# ---- allocate_multiple ---------------------------------------------------------------------------------------
def disjoint_request(h, self_, req):
    """Pre_disjoint: no key of the vector is matched by two different keys of the request."""
    d, d2 = rv(h, self_), rv(h, req)
    a, b = z3.Int(H.fresh_name("dj_a")), z3.Int(H.fresh_name("dj_b"))
    k = z3.Const(H.fresh_name("dj_k"), RS)
    Ka, Kb = z3.Select(K(h, d2), a), z3.Select(K(h, d2), b)
    return z3.ForAll([a, b, k], z3.Implies(z3.And(0 <= a, a < N(h, d2), 0 <= b, b < N(h, d2), a != b, h.d_dom(RV, d, k)), z3.Not(z3.And(matches(k, Ka), matches(k, Kb)))))


def demands_something(h, req):
    d2 = rv(h, req)
    j = z3.Int(H.fresh_name("ds_j"))
    return z3.Exists([j], z3.And(0 <= j, j < N(h, d2), z3.Select(V(h, d2), z3.Select(K(h, d2), j)) > 0))


def _am_names(c):
    self_ = c.arg("self")
    req = c.arg("resources")
    d, d2, m = rv(c.pre, self_), rv(c.pre, req), am(c.pre, self_)
    return self_, req, d, d2, m, c.arg("computation")


def _allocm_mod(c):
    self_, req, d, d2, m, comp = _am_names(c)
    lst0 = z3.If(c.pre.d_dom(AM, m, comp), c.pre.d_val(AM, m, comp), 0)
    out = {c.pre.carr(RV, "val")[0]: [d]}
    for part in ("len", "keys", "idx", "dom", "val"):
        out[c.pre.carr(AM, part)[0]] = [m]
    for part in ("len", "elem"):
        out[c.pre.carr(AL, part)[0]] = [lst0]
    return out


def _allocm_check_inv(c, L):
    self_, req, d, d2, m, comp = _am_names(c)
    j = z3.Int(H.fresh_name("mi_j"))
    kj = z3.Select(K(c.pre, d2), j)
    return {"prefix_fits": z3.ForAll([j], z3.Implies(z3.And(0 <= j, j < L.i), avail_sum(c.pre, self_, kj) >= z3.Select(V(c.pre, d2), kj)), patterns=[z3.Select(K(c.pre, d2), j)])}


def _allocm_do_inv(c, L):
    """after serving request keys [0, i): those keys' availability dropped by their quantity, the remaining
    request keys still see their original availability, everything not matched by a served key is untouched"""
    self_, req, d, d2, m, comp = _am_names(c)
    h = c.post
    K0, V0, n = K(c.pre, d), V(c.pre, d), N(c.pre, d)
    Vn = V(h, d)
    K2, V2 = K(c.pre, d2), V(c.pre, d2)
    j = z3.Int(H.fresh_name("md_j"))
    k = z3.Const(H.fresh_name("md_k"), RS)
    kj = z3.Select(K2, j)
    served = lambda kk: z3.Exists([j], z3.And(0 <= j, j < L.i, matches(kk, z3.Select(K2, j))))
    return {
        "served": z3.ForAll([j], z3.Implies(z3.And(0 <= j, j < L.i), S(K0, Vn, kj, n) == S(K0, V0, kj, n) - z3.Select(V2, kj)), patterns=[z3.Select(K2, j)]),
        "pending_unchanged": z3.ForAll([j], z3.Implies(z3.And(L.i <= j, j < N(c.pre, d2)), S(K0, Vn, kj, n) == S(K0, V0, kj, n)), patterns=[z3.Select(K2, j)]),
        "unserved_keys_untouched": z3.ForAll([k], z3.Implies(z3.Not(served(k)), z3.Select(Vn, k) == z3.Select(V0, k))),
        "monotone": z3.ForAll([k], z3.Implies(c.pre.d_dom(RV, d, k), z3.And(0 <= z3.Select(Vn, k), z3.Select(Vn, k) <= z3.Select(V0, k)))),
        "held": _held_rel_m(c, h, Vn),
        "am_frame": _am_frame_m(c, h),
        "wf": wf_resources(h, self_),
        "recorded": z3.Implies(z3.Exists([j], z3.And(0 <= j, j < L.i, z3.Select(V2, z3.Select(K2, j)) > 0)), h.d_dom(AM, m, comp)),
    }


def _held_rel_m(c, h, Vnow):
    self_, req, d, d2, m, comp = _am_names(c)
    k = z3.Const(H.fresh_name("hm_k"), RS)
    return z3.ForAll([k], held(h, self_, comp, k) == held(c.pre, self_, comp, k) + z3.Select(V(c.pre, d), k) - z3.Select(Vnow, k))


def _am_frame_m(c, h):
    self_, req, d, d2, m, comp = _am_names(c)
    x = z3.Int(H.fresh_name("amm_x"))
    return z3.And(
        z3.ForAll([x], z3.Implies(x != comp, z3.And(h.d_dom(AM, m, x) == c.pre.d_dom(AM, m, x), h.d_val(AM, m, x) == c.pre.d_val(AM, m, x))), patterns=[h.d_dom(AM, m, x), h.d_val(AM, m, x)]),
        z3.Implies(c.pre.d_dom(AM, m, comp), z3.And(h.d_dom(AM, m, comp), h.d_val(AM, m, comp) == c.pre.d_val(AM, m, comp))),
        z3.Implies(z3.And(z3.Not(c.pre.d_dom(AM, m, comp)), h.d_dom(AM, m, comp)), h.d_val(AM, m, comp) >= c.alloc0),
    )


def _allocm_do_lemmas(c, L, phase):
    self_, req, d, d2, m, comp = _am_names(c)
    K0, n = K(c.pre, d), N(c.pre, d)
    K2 = K(c.pre, d2)
    out = []
    if phase in ("end",):
        hi, hn = L.iter_heap, c.post
        Vi, Vn = V(hi, d), V(hn, d)
        j = z3.Int(H.fresh_name("ml_j"))
        p = z3.Int(H.fresh_name("ml_p"))
        n2 = N(c.pre, d2)
        # step: a vector key that matches another request key j != i is not touched by serving key i
        out.append(
            Step(
                "allocmulti.other_keys_terms_unchanged",
                z3.ForAll(
                    [j, p],
                    z3.Implies(z3.And(0 <= j, j < n2, j != L.i, 0 <= p, p < n), Σ.term_S(K0, Vn, z3.Select(K2, j), p) == Σ.term_S(K0, Vi, z3.Select(K2, j), p)),
                ),
            )
        )
        # hence (frame lemma over S) availability of every other request key is unaffected
        out.append(F("sum.S.frame", z3.ForAll([j], Σ.lem_S_frame(K0, Vi, Vn, z3.Select(K2, j), n), patterns=[z3.Select(K2, j)])))
    return out


def _allocm_ens(c):
    self_, req, d, d2, m, comp = _am_names(c)
    K0, V0, n = K(c.pre, d), V(c.pre, d), N(c.pre, d)
    V1 = V(c.post, d)
    K2, V2 = K(c.pre, d2), V(c.pre, d2)
    j = z3.Int(H.fresh_name("me_j"))
    k = z3.Const(H.fresh_name("me_k"), RS)
    kj = z3.Select(K2, j)
    served = lambda kk: z3.Exists([j], z3.And(0 <= j, j < N(c.pre, d2), matches(kk, z3.Select(K2, j))))
    return {
        "allocmulti.every_key_served_in_full": z3.ForAll([j], z3.Implies(z3.And(0 <= j, j < N(c.pre, d2)), S(K0, V1, kj, n) == S(K0, V0, kj, n) - z3.Select(V2, kj)), patterns=[z3.Select(K2, j)]),
        "allocmulti.unrequested_untouched": z3.ForAll([k], z3.Implies(z3.Not(served(k)), z3.Select(V1, k) == z3.Select(V0, k))),
        "allocmulti.held_grows_by_what_was_taken": _held_rel_m(c, c.post, V1),
        "allocmulti.other_computations_untouched": _am_frame_m(c, c.post),
        "allocmulti.wf": wf_resources(c.post, self_),
        "allocmulti.recorded": z3.Implies(demands_something(c.pre, req), c.post.d_dom(AM, m, comp)),
    }


Contract(
    "workload.resources.Resources.allocate_multiple",
    params={"self": S_.Resources.ty, "resources": S_.Resources.ty, "computation": T.Ref(None)},
    requires=lambda c: {
        "wf": wf_resources(c.pre, c.arg("self")),
        "request_distinct_object": c.arg("resources") != c.arg("self"),
        "request_vector_distinct": rv(c.pre, c.arg("resources")) != rv(c.pre, c.arg("self")),
        "request_nonneg": nonneg_vals(c.pre, rv(c.pre, c.arg("resources"))),
        "computation_present": c.arg("computation") != 0,
        # Pre_disjoint: see DESIGN C04 -- without it the per-key pre-check does not imply success (finding F10)
        "request_keys_disjoint_on_vector": disjoint_request(c.pre, c.arg("self"), c.arg("resources")),
    },
    # atomic: refused (nothing changed: raise_unchanged) iff some request key is not available in full
    raises={"ValueError": lambda c: z3.Not(fits(c.pre, c.arg("self"), c.pre, c.arg("resources")))},
    modifies=_allocm_mod,
    loops={0: Loop(inv=_allocm_check_inv, modifies=lambda c: {}), 1: Loop(inv=_allocm_do_inv, lemmas=_allocm_do_lemmas)},
    entry_facts=lambda c: [closed_alloc_map(c)],
    ensures=_allocm_ens,
    allocates=True,
    props=P04,
)


@lemma("C04")
def sum_theory_induction_steps():
    return Σ.induction_obligations()


# =================================================================================================
# Resources.__add__ : summing two ledgers is an OBSERVATION -- it changes neither operand (C04, seed C04-3)
# =================================================================================================
Contract(
    "workload.resources.Resources.__init__",
    params={"self": T.Ref(RESOURCES), "resource_vector": RV, "_logger": T.OPAQUE},
    trusted=True,
    allocates=True,
    modifies=lambda c: {c.pre.fld_arr(RESOURCES, f)[0]: [c.arg("self")] for f in ("_resource_vector", "_Resources__total_resources", "_current_allocations", "_Resources__virtual")},
    ensures=lambda c: z3.And(
        c.f(c.arg("self"), RESOURCES, "_resource_vector") >= c.alloc0,
        c.f(c.arg("self"), RESOURCES, "_Resources__total_resources") >= c.alloc0,
        c.f(c.arg("self"), RESOURCES, "_current_allocations") >= c.alloc0,
    ),
    note="Resources.__init__ (as used by __add__: no resource vector given): a fresh object with fresh, empty maps; body not verified (copy() of Resource keys, class name lookup for the logger)",
    props=P04,
)


def _radd_inv(c, L):
    names = ("resource_vector", "total_resources_vector", "current_allocations")
    fresh = [z3.And(L.var(n) >= c.alloc0, L.var(n) < c.run.cur_alloc()) for n in names if L.has(n)]
    m = L.var("current_allocations") if L.has("current_allocations") else None
    out = {"locals_fresh": z3.And(*fresh) if fresh else z3.BoolVal(True)}
    if m is not None:
        x = z3.Int(H.fresh_name("ra_x"))
        # the per-computation lists of the result are lists created here, never an operand's list
        out["result_lists_fresh"] = z3.ForAll([x], z3.Implies(c.post.d_dom(AM, m, x), z3.And(c.post.d_val(AM, m, x) >= c.alloc0, c.post.d_val(AM, m, x) < c.run.cur_alloc())), patterns=[c.post.d_val(AM, m, x)])
    return out


def _radd_mod(c):
    # everything the loops write is allocated inside __add__: the frame obligations (loop.writes_only_fresh_objects.*,
    # frame.*) demand that no pre-existing object changes
    return {}


def _radd_vec_mod(which):
    def mod(c):
        fr = c.run.frames[-1].env
        d = fr.get(which)
        return {c.pre.carr(RV, part)[0]: [d.z] for part in ("len", "keys", "idx", "dom", "val")}

    return mod


def _radd_alloc_inv(c, L):
    out = dict(_radd_inv(c, L))
    l_ = z3.Int(H.fresh_name("ra_l"))
    h = c.post
    # the allocation lists that existed on entry (the operands' lists) are exactly as they were
    out["operand_lists_untouched"] = z3.ForAll(
        [l_],
        z3.Implies(z3.And(0 <= l_, l_ < c.alloc0), z3.And(h.c_len(AL, l_) == c.pre.c_len(AL, l_), h.l_elems(AL, l_) == c.pre.l_elems(AL, l_))),
        patterns=[h.c_len(AL, l_)],
    )
    return out


def _radd_alloc_mod(c):
    fr = c.run.frames[-1].env
    m = fr.get("current_allocations")
    out = {c.pre.carr(AL, "len")[0]: ANY, c.pre.carr(AL, "elem")[0]: ANY}
    for part in ("len", "keys", "idx", "dom", "val"):
        out[c.pre.carr(AM, part)[0]] = [m.z]
    return out


Contract(
    "workload.resources.Resources.__add__",
    params={"self": T.Ref(RESOURCES), "other": T.Ref(RESOURCES)},
    ret=T.Ref(RESOURCES),
    requires=lambda c: {"operand_given": c.arg("other") != 0},
    modifies=lambda c: {},
    loops={
        0: Loop(inv=_radd_inv, modifies=_radd_vec_mod("resource_vector")),
        1: Loop(inv=_radd_inv, modifies=_radd_vec_mod("resource_vector")),
        2: Loop(inv=_radd_inv, modifies=_radd_vec_mod("total_resources_vector")),
        3: Loop(inv=_radd_inv, modifies=_radd_vec_mod("total_resources_vector")),
        4: Loop(inv=_radd_alloc_inv, modifies=_radd_alloc_mod),
        5: Loop(inv=_radd_alloc_inv, modifies=_radd_alloc_mod),
    },
    locals={"resource_vector": RV, "total_resources_vector": RV, "current_allocations": AM},
    ensures=lambda c: {"add.result_is_a_new_object": z3.And(c.res >= c.alloc0, rv(c.post, c.res) >= c.alloc0, am(c.post, c.res) >= c.alloc0)},
    entry_facts=lambda c: [closed_alloc_map_of(c, c.arg("self")), closed_alloc_map_of(c, c.arg("other"))],
    allocates=True,
    note="C04: the sum of two ledgers (WorkerPool.resources, utilisation logging) is a fresh object and NO pre-existing object is written (frame obligations): an observer cannot corrupt a ledger",
    props=P04,
)
