"""Simulator event handlers under contract: __handle_task_placement (C02 guard, C03 start time, C05 retry
strictly later, C06 cancelled placements and cascade)."""
import z3

from pyvc import ty as T
from pyvc import heap as H
from pyvc.engine import Fact, Step
from pyvc.registry import ANY, CLASSES, Contract, Loop, declare_ref, lemma, scan, assumption, observation
from contracts import shapes as S_
from contracts.c_utils import ETy, OptET, us, t_time, t_unit, mk
from contracts.c_events import EL, q_list, is_heap, mem, ev_time, ev_type, ev_task, et, lst_mod, EVENT
from contracts.c_tasks import TASK, RUNNING, SCHEDULED, PREEMPTED, COMPLETED, CANCELLED, EVICTED, VIRTUAL, RELEASED, wf_task, some, get, fld as tfld
from contracts.c_taskgraph import TG, TGR, GRAPH, Adj, TaskList, ready_to_run, g_children, g_parents, task_state
from contracts.c_simulator import SIM, Simulator, sim_queue, sim_time, FutureMap, closed_queue, WPS, POOL, PoolMap

WORKLOAD = "workload.workload.Workload"
TGMap = T.Dict(T.STR, TGR)
Workload = declare_ref(WORKLOAD, {"_task_graphs": TGMap})
Simulator.fields["_workload"] = T.Ref(WORKLOAD)
Simulator.fields["_worker_pools"] = T.Ref(WPS)
PL = "workload.placement.Placement"

P = ("C02", "C03", "C05", "C06")

Contract("workload.workload.Workload.get_task_graph", inline=True, props=P)
Contract("workers.workers.WorkerPools.get_worker_pool", inline=True, props=P)

Contract(
    "workload.tasks.Task.remaining_time",
    params={"self": S_.Task.ty},
    ret=ETy,
    trusted=True,
    ensures=lambda c: z3.BoolVal(True),
    note="Task.remaining_time (only used to pick the retry delay of a not-ready placement; its value is irrelevant to the obligations)",
    props=P,
)

Contract(
    "workload.tasks.TaskGraph.is_cancelled",
    params={"self": TGR},
    ret=T.BOOL,
    trusted=True,
    ensures=lambda c: z3.BoolVal(True),
    note="TaskGraph.is_cancelled: an unspecified pure boolean here (decided by the bounded taskgraph/worlds stand-ins)",
    props=P,
)

# cancellation closure of a task in a graph, as an uninterpreted predicate of the pre-state (its definition is
# checked by the bounded taskgraph stand-in; here only *that the handler cancels and reports it* is at stake)
CL = z3.Function("cancel_closure", z3.ArraySort(z3.IntSort(), z3.IntSort()), z3.IntSort(), z3.IntSort(), z3.IntSort(), z3.BoolSort())


def closure(h, g, task, x):
    return CL(h.fld_arr(TASK, "_state")[2], g, task, x)


def _tg_cancel_ens(c):
    g, task = c.arg("self"), c.arg("task")
    x = z3.Int(H.fresh_name("cc_x"))
    r = c.res
    return z3.And(
        r >= c.alloc0,
        # exactly the closure is returned, every member ends CANCELLED with the given cancellation time; others keep their state
        z3.ForAll([x], c.post.l_mem(TaskList, r, x) == closure(c.pre, g, task, x), patterns=[c.post.l_mem(TaskList, r, x)]),
        z3.ForAll(
            [x],
            z3.If(
                closure(c.pre, g, task, x),
                z3.And(x > 0, x < c.alloc0, task_state(c.post, x) == CANCELLED, c.post.rd(x, TASK, "_cancellation_time")[1] == T.opt_some(OptET, c.arg("time"))),
                task_state(c.post, x) == task_state(c.pre, x),
            ),
            patterns=[task_state(c.post, x), closure(c.pre, g, task, x), c.post.rd(x, TASK, "_cancellation_time")[1]],
        ),
        closure(c.pre, g, task, task),
    )


Contract(
    "workload.tasks.TaskGraph.cancel",
    params={"self": TGR, "task": S_.TASKR, "time": ETy},
    ret=TaskList,
    trusted=True,
    allocates=True,
    modifies=lambda c: {c.pre.fld_arr(TASK, f)[0]: ANY for f in ("_state", "_cancellation_time", "_probability", "_remaining_time")},
    ensures=_tg_cancel_ens,
    note="TaskGraph.cancel: returns and cancels the downstream closure of the task (closure left abstract; its definition is decided by the bounded taskgraph stand-in)",
    props=P,
)

Contract(
    "workers.workers.WorkerPool.place_task",
    params={"self": S_.WorkerPool.ty, "task": S_.TASKR, "execution_strategy": S_.nullable("workload.strategy.ExecutionStrategy"), "worker_id": S_.OptSTR},
    ret=T.BOOL,
    trusted=True,
    modifies=lambda c: {},
    ensures=lambda c: z3.BoolVal(True),
    note="WorkerPool.place_task as seen from the placement handler: a boolean; its effect on the cluster ledger is the subject of C04/C01 (Worker-level contracts + bounded ledger) and is framed out here (no Task / Event / queue field is touched)",
    props=P,
)


def fut(h, s):
    return h.rd(s, SIM, "_future_placement_events")[1]


def tid(h, t):
    return h.rd(t, TASK, "_id")[1]


def _hp_names(c):
    s, ev = c.arg("self"), c.arg("event")
    task = ev_task(c.pre, ev)
    wl = c.arg("workload")
    g = c.pre.d_val(TGMap, c.pre.rd(wl, WORKLOAD, "_task_graphs")[1], c.pre.rd(task, TASK, "_task_graph")[1])
    return s, ev, task, wl, g


def _hp_requires(c):
    s, ev, task, wl, g = _hp_names(c)
    return {
        "heap_ok": is_heap(c.pre, sim_queue(c.pre, s)),
        "task_event": z3.And(task != 0, c.pre.rd(ev, EVENT, "_placement")[1] != 0),
        "placement_is_PLACE_TASK": c.pre.rd(c.pre.rd(ev, EVENT, "_placement")[1], PL, "_placement_type")[1] == S_.PlacementType.ty.ordinal("PLACE_TASK"),
        "task_wf": wf_task(c.pre, task),
        "variance_nonneg": c.pre.rd(s, SIM, "_runtime_variance")[1] >= 0,
        "graph_known": z3.Implies(
            c.pre.d_dom(TGMap, c.pre.rd(wl, WORKLOAD, "_task_graphs")[1], c.pre.rd(task, TASK, "_task_graph")[1]),
            z3.And(g != 0, c.pre.d_dom(Adj, g_children(c.pre, g), task), g_children(c.pre, g) != g_parents(c.pre, g)),
        ),
        "event_at_clock": us(ev_time(c.pre, ev)) >= 0,
    }


def _hp_mod(c):
    s, ev, task, wl, g = _hp_names(c)
    out = lst_mod(c, sim_queue(c.pre, s))
    for f in ("_state", "_cancellation_time", "_probability", "_remaining_time", "_start_time", "_last_step_time"):
        out[c.pre.fld_arr(TASK, f)[0]] = ANY
    for p in ("len", "keys", "idx", "dom", "val"):
        out[c.pre.carr(FutureMap, p)[0]] = [fut(c.pre, s)]
        out[c.pre.carr(Adj, p)[0]] = [g_parents(c.pre, g)]
    return out


def _hp_ens(c):
    s, ev, task, wl, g = _hp_names(c)
    lst = sim_queue(c.pre, s)
    st0, st1 = task_state(c.pre, task), task_state(c.post, task)
    started = z3.And(st1 == RUNNING, st0 != RUNNING)
    e = z3.Int(H.fresh_name("hp_e"))
    x = z3.Int(H.fresh_name("hp_x"))
    new_event = lambda y: z3.And(mem(c.post, lst, y), z3.Not(mem(c.pre, lst, y)))
    now = us(ev_time(c.pre, ev))
    ready0 = ready_to_run(c.pre, g, task)
    retried = z3.Exists([e], z3.And(new_event(e), ev_task(c.post, e) == task, ev_type(c.post, e) == ev_type(c.pre, ev), us(ev_time(c.post, e)) > now))
    became_cancelled = lambda y: z3.And(0 < y, y < c.alloc0, task_state(c.pre, y) != CANCELLED, task_state(c.post, y) == CANCELLED)
    return {
        # C02: a task is started by this handler only if the readiness test held (predecessors complete, SCHEDULED/PREEMPTED)
        "placement.guarded": z3.Implies(started, ready0),
        # C03: it starts exactly at the event's time
        "placement.start_at_event_time": z3.Implies(started, z3.And(st0 == SCHEDULED, us(c.post.rd(task, TASK, "_start_time")[1]) == now)),
        # C02: when the readiness test fails nothing is started
        "placement.not_ready_not_started": z3.Implies(z3.Not(ready0), z3.Not(started)),
        # C05: a placement that is neither applied nor dropped is re-queued strictly later (no same-instant retry loop)
        "placement.retry_strictly_later": z3.Implies(z3.And(z3.Not(started), st1 != CANCELLED, st0 != CANCELLED), z3.Or(retried, z3.Not(c.post.d_dom(FutureMap, fut(c.pre, s), tid(c.pre, task))))),
        # C06: a placement for a cancelled task is consumed and never starts it
        "placement.consumes_cancelled": z3.Implies(st0 == CANCELLED, z3.And(st1 == CANCELLED, z3.Not(c.post.d_dom(FutureMap, fut(c.pre, s), tid(c.pre, task))))),
        # C06: every task cancelled by this handler is reported by a queued TASK_CANCEL event, and if the task itself is
        # cancelled here its whole downstream closure is
        "placement.cancellations_reported": z3.ForAll(
            [x],
            z3.Implies(became_cancelled(x), z3.Exists([e], z3.And(new_event(e), ev_type(c.post, e) == et("TASK_CANCEL"), ev_task(c.post, e) == x))),
            patterns=[task_state(c.post, x)],
        ),
        "placement.cancel_is_closed_downstream": z3.Implies(became_cancelled(task), z3.ForAll([x], z3.Implies(closure(c.pre, g, task, x), task_state(c.post, x) == CANCELLED), patterns=[closure(c.pre, g, task, x)])),
        "queue.heap_ok": is_heap(c.post, lst),
        "queue.keeps_old_events": z3.ForAll([e], z3.Implies(mem(c.pre, lst, e), mem(c.post, lst, e)), patterns=[mem(c.pre, lst, e)]),
    }


def _cancel_loop_inv(c, L):
    """adding one TASK_CANCEL event per task returned by task_graph.cancel(...)"""
    s, ev, task, wl, g = _hp_names(c)
    lst = sim_queue(c.pre, s)
    h = c.post
    j = z3.Int(H.fresh_name("cl_j"))
    e = z3.Int(H.fresh_name("cl_e"))
    res = L.seq.z
    tj = h.l_elem(TaskList, res, j)
    new_event = lambda y: z3.And(mem(h, lst, y), z3.Not(mem(c.pre, lst, y)))
    k = z3.Int(H.fresh_name("cl_k"))
    return {
        "heap_ok": is_heap(h, lst),
        "old_kept": z3.ForAll([e], z3.Implies(mem(c.pre, lst, e), mem(h, lst, e)), patterns=[mem(c.pre, lst, e)]),
        "members_allocated": z3.ForAll([e], z3.Implies(mem(h, lst, e), z3.And(e > 0, e < c.run.cur_alloc())), patterns=[mem(h, lst, e)]),
        "reported_prefix": z3.ForAll(
            [j],
            z3.Implies(z3.And(0 <= j, j < L.i), z3.Exists([e], z3.And(new_event(e), ev_type(h, e) == et("TASK_CANCEL"), ev_task(h, e) == tj))),
            patterns=[h.l_elem(TaskList, res, j)],
        ),
    }


def _cancel_loop_lemmas(c, L, phase):
    s = c.arg("self")
    if phase == "exit":
        return [Fact("list.mem_def", c.post.l_mem_def(TaskList, L.seq.z))]
    if phase == "start":
        return [Fact("list.index_mem", c.post.l_index_mem(EL, sim_queue(c.pre, s)))]
    return []


def _cancel_loop_mod(c):
    s, ev, task, wl, g = _hp_names(c)
    out = lst_mod(c, sim_queue(c.pre, s))
    for f in ("_event_type", "_time", "_task", "_task_graph", "_placement"):
        out[c.pre.fld_arr(EVENT, f)[0]] = []
    return out


Contract(
    "simulator.Simulator.__handle_task_placement",
    params={"self": Simulator.ty, "event": S_.Event.ty, "workload": T.Ref(WORKLOAD)},
    requires=_hp_requires,
    may_raise=("AssertionError", "ValueError", "AttributeError"),
    raise_unchanged=False,
    modifies=_hp_mod,
    loops={0: Loop(inv=_cancel_loop_inv, modifies=_cancel_loop_mod, lemmas=_cancel_loop_lemmas)},
    drops=("resource_allocation_str = ",),
    ensures=_hp_ens,
    entry_facts=lambda c: [closed_queue(c)],
    allocates=True,
    note="may raise AssertionError (bookkeeping asserts), ValueError (max() of an empty parent list for a source task that is not ready) and AttributeError (None pool / strategy); those paths are not constrained",
    props=P,
)
